"""The individual table extractors.  Each returns (lean_source, summary_dict)."""

TABLES = {}


def table(name):
    def deco(fn):
        TABLES[name] = fn
        return fn
    return deco
