#!/bin/bash
# usage: tools/mutcheck.sh <patch.diff> <PROP> [<PROP>...]
# Applies the patch to a scratch worktree of /repo (never to /repo itself) and runs the given
# checks against it (VERIF_REPO) from a scratch COPY of /verif, so that the regenerated tables
# and the Lean build of the mutant never touch /verif and several runs can go on in parallel.
# Prints the verdict lines; removes worktree and copy afterwards.
set -u
PATCH=$(readlink -f "$1"); shift
WT=/tmp/mut_$$
VC=/tmp/mutverif_$$
git -C /repo worktree add -q --detach "$WT" HEAD || exit 2
if ! git -C "$WT" apply "$PATCH"; then echo "PATCH DOES NOT APPLY"; git -C /repo worktree remove --force "$WT"; exit 2; fi
rsync -a --exclude .git --exclude replays --exclude findings --exclude seeded /verif/ "$VC"/
cd "$VC"
for P in "$@"; do
  echo "== $P on $(basename $(dirname $PATCH))/$(basename $PATCH)"
  VERIF_REPO="$WT" ./check "$P" --tier "${MUT_TIER:-quick}" 2>&1 | grep -E "^(OK|VIOLATION|FAILING-INPUT|BROKEN|KNOWN-FINDING|HARNESS-FAULT)" | cut -c1-300
done
cd /
git -C /repo worktree remove --force "$WT"
rm -rf "$VC"
