#!/bin/bash
# usage: tools/mutcheck.sh <patch.diff> <PROP> [<PROP>...]
# Applies the patch to a scratch worktree of /repo (never to /repo itself), runs the given
# checks against it via VERIF_REPO, prints the verdict lines, removes the worktree and
# regenerates the tables from /repo again.
set -u
PATCH=$(readlink -f "$1"); shift
WT=/tmp/mut_$$
git -C /repo worktree add -q --detach "$WT" HEAD || exit 2
if ! git -C "$WT" apply "$PATCH"; then echo "PATCH DOES NOT APPLY"; git -C /repo worktree remove --force "$WT"; exit 2; fi
cd /verif
for P in "$@"; do
  echo "== $P on $(basename $(dirname $PATCH))/$(basename $PATCH)"
  VERIF_REPO="$WT" ./check "$P" --tier "${MUT_TIER:-quick}" 2>&1 | grep -E "^(OK|VIOLATION|FAILING-INPUT|BROKEN|KNOWN-FINDING|HARNESS-FAULT)" | cut -c1-300
done
git -C /repo worktree remove --force "$WT"
/venv/bin/python /verif/tools/extract.py >/dev/null 2>&1
