#!/usr/bin/env python3
"""Write MANIFEST.json from the table below (kept in one place so it stays valid)."""
import json
from pathlib import Path

VERIF = Path(__file__).resolve().parent.parent
ALL = [f"C{i:02d}" for i in range(1, 19)]

TB = ("Trusted: Lean 4.33.0 kernel, axioms propext/Classical.choice/Quot.sound only (audited on every run with "
      "Lean.collectAxioms), the unverified Python translator tools/extract.py and correspondence harness; "
      "kirin and bloqade-geometry are modelled, not verified. ")

CLAIMS = {
    "C18": dict(
        text="All bounded-lattice laws are theorems about Model/Lattice.lean for elements of any nesting depth over any "
             "strings (structural induction); the model is tied to lattice.py by running is_subseteq/join/meet of the real "
             "classes and the model on the same pairs (exhaustive to depth 1 over two names in the thorough tier, plus random "
             "deeper terms), and the laws are also evaluated directly on the real objects as the failing-input oracle.",
        note=TB + "Modelled: kirin's SimpleJoinMixin/SimpleMeetMixin and dataclass equality.",
        technique="Lean 4 theorems by structural induction + differential correspondence with lattice.py",
        ref="§3 C18"),
}


def main():
    checks = []
    for pid in ALL:
        if pid not in CLAIMS:
            continue
        c = CLAIMS[pid]
        checks.append({
            "property_id": pid,
            "quick_cmd": f"./check {pid} --tier quick",
            "thorough_cmd": f"./check {pid} --tier thorough",
            "evidence_file": f"/verif/evidence/{pid}.json",
            "replay_cmd_template": f"./check {pid} --replay {{path}}",
            "engine": "lean-shuttle",
            "level_claimed": {"category": "proof", "text": c["text"], "design_ref": c["ref"]},
            "level_note": c["note"],
            "technique": c["technique"],
        })
    man = {
        "version": 1,
        "setup_cmd": "cd /verif/lean && lake build",
        "hooks": {
            "guard": "BLOQADE_SHUTTLE_VERIF",
            "enable": "no source hooks are needed; checks import /repo/src in-process and set BLOQADE_SHUTTLE_VERIF=1 (unused by the source)",
            "baseline_off_cmd": "cd /repo && env -u BLOQADE_SHUTTLE_VERIF /venv/bin/python -m pytest -ra -q -p no:cacheprovider --timeout=900 --continue-on-collection-errors",
            "source_commits": [],
            "add_only": True,
        },
        "engines": [{
            "name": "lean-shuttle",
            "path": "/verif/lean",
            "serves_properties": [c["property_id"] for c in checks],
            "kind_free_text": "Lean 4 models + theorems (lake project, core-only models), tables regenerated from source, "
                              "compiled line-protocol driver for the correspondence check",
        }],
        "checks": checks,
        "notes": "Entry point ./check <ID> --tier quick|thorough; known findings in known_findings.json; see DESIGN.md.",
        "not_applicable": [
            {"property_id": pid, "reason": "not claimed yet: model and theorems for this property are still being built (see DESIGN.md §6)"}
            for pid in ALL if pid not in CLAIMS
        ],
    }
    (VERIF / "MANIFEST.json").write_text(json.dumps(man, indent=1) + "\n")


if __name__ == "__main__":
    main()
