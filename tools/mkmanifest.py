#!/usr/bin/env python3
"""Write MANIFEST.json from the table below (kept in one place so it stays valid)."""
import json
from pathlib import Path

VERIF = Path(__file__).resolve().parent.parent
ALL = [f"C{i:02d}" for i in range(1, 19)]

TB = ("Trusted: Lean 4.33.0 kernel, axioms propext/Classical.choice/Quot.sound only (audited on every run with "
      "Lean.collectAxioms), the unverified Python translator tools/extract.py and correspondence harness; "
      "kirin and bloqade-geometry are modelled, not verified. ")

CLAIMS = {
    "C01": dict(
        text="Theorem C01_trace_eq_ref: for every operation sequence (any length) and any static slice/list classification, "
             "the model of TraceInterpreter/ActionTracer returns a path iff the independently written reference AOD semantics "
             "does, and the same path; C01_error_iff characterises exactly when there is no path (use before set_loc, shape "
             "change). The switch-class dispatch (desugar truth tables x tracer behaviour on all 8 statement classes x 4 "
             "run-time forms) is regenerated from the source on every run and C01_kind_faithful is re-proved over it by "
             "`decide`. Model and code are tied by tracing generated kernels (loops, branches, helpers, every selector form) "
             "with the real @tweezer / TraceInterpreter and comparing with model and reference.",
        note=TB + "Each generated kernel is flattened to its operation sequence twice: by the harness generator (Python) and by the "
                  "Lean reference evaluator run on the kernel's source (Model/Lang.lean); both are compared with the real trace. "
                  "kirin's lowering/interpreter and Grid arithmetic are exercised, not verified.",
        technique="Lean 4 refinement proof (simulation) + regenerated dispatch tables + differential correspondence",
        ref="§3 C01"),
    "C02": dict(
        text="Theorems: reverse_path never fails and equals the time-reversal specification (C02_reverse_eq_spec), is an "
             "involution, reverses the way points, flips every switch keeping tones and slice/list form, for paths of any "
             "length; schedule level: reverse(reverse(f)) = f and f / reverse(f) yield mutually reversed paths for any trace "
             "function. The inv pairing table is regenerated from the eight inv() methods by reflection on every run and "
             "C02_inv_table is re-proved over it. Tie: reverse_path on traced and synthetic paths vs model and spec; "
             "f, reverse(f), reverse^2(f), reverse^3(f) played through the real interpreter with an event logger.",
        note=TB + "Dataclass equality of action objects is trusted.",
        technique="Lean 4 theorems by list induction over a regenerated inv table + differential correspondence",
        ref="§3 C02"),
    "C03": dict(
        text="Model/Sched.lean: source statements (device calls, kernel invocations, parallel/auto regions, other statements, "
             "control flow), the lowered form, the specification lowerSpec (the property as one recursive definition) and passModel "
             "(the four rules in pass order, each a post-order walk: canonicalise, rewrite auto invokes / device calls, rewrite "
             "regions). Theorems for region trees of any depth and width: C03_pass_eq_spec (pass = specification on well-formed "
             "sources), C03_each_call_once_in_order (the generated paths are exactly the source calls, once each, in source order), "
             "C03_no_schedule_left, C03_order, C03_one_play. Tie: exhaustive region trees (depth<=2/width<=2 quick; depth 3 "
             "thorough) plus random trees (depth<=5, width<=4) with forward/reversed functions, positional/keyword/permuted-keyword "
             "calls, gates and control flow around, compiled by the real @move(fold=False) and @move; Gen/Parallel/Auto/Play wiring, "
             "kwargs and argument order are read off the compiled IR and compared with pass model and specification.",
        note=TB + "kirin's Walk/Fixpoint drivers, Statement.delete/detach and global use counts are represented by the tree-level "
                  "model (post-order application), not modelled individually; CSE/DCE after the rewrite only touch pure statements (C04).",
        technique="Lean 4 theorems by mutual structural induction over region trees + exhaustive small-scope and random IR-level correspondence",
        ref="§3 C03"),
    "C04": dict(
        text="Proved: (i) the purity traits, regenerated from the dialect definitions on every run, give CSE/DCE no licence to merge "
             "or drop any statement that produces a device-visible event (C04_event_stmts_impure) and the statements the pipeline "
             "needs to be removable are pure (C04_expected_pure); (ii) the route dimension 'spec injected at compile time vs supplied "
             "at run time' preserves result, events and failures for every program (C04_spec_route, from the injection theorem); "
             "the reference evaluator is monotone in its fuel, so 'evaluating the source directly' is one partial function "
             "(C04_source_semantics_deterministic / _mono, from Lemmas/LangMono.lean). "
             "Partial by nature: kirin's fold/inline/unroll/typeinfer/verify passes are not modelled; that they preserve events is "
             "carried by the correspondence: generated programs x argument tuples x compilation routes (pairwise-covering subset of "
             "the 128 option combinations in quick, all 128 in thorough), each compiled kernel executed by the event-logging "
             "interpreter and compared with the Lean reference evaluator of the source (Model/Lang.lean) and so with every other route.",
        note=TB + "Partial (see text). Known findings F4, F15, F16, F26 (root cause in kirin) and F24 (bloqade-geometry equality + kirin's "
                  "constant join) are reported as KNOWN-FINDING, each only for the program feature / route that characterises it.",
        technique="Lean 4 theorems (regenerated purity table, injection-route corollary) + route-matrix differential runs against a Lean reference evaluator",
        ref="§3 C04"),
    "C05": dict(
        text="The three gen copies are modelled by one function applied to the shape of each copy, read from the source by ast "
             "on every run (where the spec comes from, which flag each isinstance branch sets, the permute_values operands, the "
             "conditional reverse_path, which tone list feeds which Path field). Theorems: with the shapes the code has now the "
             "plain route, the spec-carrying route and constant folding compute the same result for every task, argument split "
             "and keyword order (C05_routes_agree); any returned path is the specified one (tones of the device function, kernel "
             "trace on the arguments in signature order, reversed for reversed tasks); permute_values is Python's binding rule; "
             "no spec / non-device callee / failing kernel => no route returns a path (C05_no_path_when_unavailable); folding "
             "needs constant operands. Tie: the three real implementations exercised in isolation on generated kernels and calls.",
        note=TB + "The kernel is abstracted as a trace function (its own correctness is C01); kirin's const-propagation framework "
                  "and interpreter are exercised, not verified.",
        technique="Lean 4 theorems over ast-regenerated shapes of the three copies + three-route differential correspondence",
        ref="§3 C05"),
    "C06": dict(
        text="C06_complete_program: every lookup left anywhere in the compiled program names something the spec does not define; C06_idempotent: a second run of the pass changes nothing. Model/Lang.lean is a reference evaluator for kernel sources (subroutines, recursion, closures, loops, branches, device "
             "calls, parallel blocks, gates, fills, measurements, spec lookups); Model/Inject.lean is InjectSpecRule/InjectSpecsPass on "
             "that language. Theorem C06_inject_preserves: for every program, entry point, arguments and fuel, the injected program "
             "run with no spec available returns the same value, events or error as the original run against the spec (induction on "
             "the evaluation); C06_unknown_fails_both: a lookup of an undefined name raises on both routes and is never replaced. The "
             "hypothesis that the rule handles every lookup kind is C06_kinds_complete, decided over a table regenerated on every run "
             "by applying the real InjectSpecRule to all four lookup statements (known/unknown names, constants 0 and 0.0). Tie: each "
             "generated program is compiled twice from one source (@move, @move(arch_spec=...)) and executed on both routes; both are "
             "compared with the Lean evaluator.",
        note=TB + "kirin's CallGraphPass cloning and the fold that follows injection are exercised, not modelled; the evaluator is "
                  "validated against the real interpreter on every generated run.",
        technique="Lean 4 semantic-preservation proof by induction on a fuel-indexed evaluator + regenerated rule table + two-route differential runs",
        ref="§3 C06"),
    "C07": dict(
        text="Model/Store.lean mirrors the copy-then-rewrite discipline of kirin's CallGraphPass as used by InjectSpecsPass (root "
             "rewritten in place, every transitively invoked method copied to a fresh id and the copy rewritten, invocations "
             "redirected to the copies), over abstract code. Theorems for histories of any length, order and specs: C07_frame (every "
             "method that was never a root is unchanged), C07_shared_unchanged (independent of compilation order), "
             "C07_root_uses_own_spec (a root's new code is its old code rewritten with its own spec, redirected only to fresh ids), "
             "specs are read-only values. Tie: histories of compilations over generated modules (shared helper subroutines, recursive "
             "and closure-carrying ones, library moves) in every order for short histories; printed IR of every shared method, event "
             "logs of every specialised kernel vs the unspecialised kernel under its own spec, and deep-copy comparison of every ArchSpec.",
        note=TB + "CallGraphPass / Method.similar are modelled (read in kirin's source), not verified; the behavioural half "
                  "(own spec observed) rests on the injection theorem of C06 plus the history runs.",
        technique="Lean 4 invariant over compilation histories (abstract method store) + history-based differential observation",
        ref="§3 C07"),
    "C08": dict(
        text="Model/AOD.lean is the atom-level simulator that defines 'physically executable' (crossed-AOD tone semantics as in the "
             "repository's renderer; picks only from occupied traps, releases only onto vacant trap sites of the layout, no jump "
             "while holding also across consecutive paths, grid shapes = tone list lengths, tone state kept per tone id). "
             "Model/StdMoves.lean models the five library moves (operation sequence of each traced kernel, reference trace, "
             "reversal, tone lists, early returns, asserts). Theorems: C08_exec_conserves_atoms (any paths, any occupancy: accepted "
             "run => atom count unchanged, no trap with two atoms, atoms only on old sites or layout sites); transport / round_trip "
             "(general pick-carry-release and forward/return laws); C08_waypoints_destination, C08_cz_returns_to_origin, "
             "C08_rearrange_destination (every zone, every index list on which the kernel's checks pass, every compatible occupancy: "
             "not rejected, executable, atoms end on the documented sites, nothing else moves); C08_vertical_shift_destination, "
             "C08_gr_zero_to_one_destination (every valid input on the modelled Gemini spec - 114 + 31 inputs by kernel evaluation - "
             "lifted to every occupancy). Tie: every library move (CZ move in both copies, rearrange, move_by_waypoints, "
             "vertical_shift, gr_zero_to_one) is executed by the real interpreter with an event logger on its module's layout over "
             "all small layouts, valid index lists and every invalid class; the event log is compared with Model/StdMoves.lean and "
             "replayed in the simulator; valid calls must be accepted and end on the documented sites.",
        note=TB + "The physics is a specification (Model/AOD.lean), fixed in DESIGN.md before any move was run through it; "
                  "collisions in flight are not modelled. 'Rejected or executable' for inputs outside the documented preconditions is "
                  "decided on the enumerated invalid classes by the simulator, not proved for all of them; the Gemini theorems are "
                  "about the Lean model of logical.get_spec() (tied to the real spec by C14's correspondence).",
        technique="Lean 4 invariant and transport proofs over an executable AOD simulator + hand-written move models checked against "
                  "the real moves' event logs + replay of those logs in the simulator",
        ref="§3 C08"),
    "C09": dict(
        text="C09_fuel_independent: a finished analysis answer does not depend on the analysis budget (ana_mono). Model/Runtime.lean is the analysis of analysis/runtime.py on the program language (both branches, loop body once, "
             "invoked subroutines, closures, recursion cut-off, dynamic call = refusal); which statements mark a frame quantum is a "
             "table regenerated from the 'runtime' method-table registry on every run and C09_registry_complete / _exact are decided "
             "over it. The model's answer is compared with RuntimeAnalysis.has_quantum_runtime on generated programs, and the "
             "property itself is checked against ground truth: event logs of the same compiled kernel over the whole argument domain "
             "(answer False and an acting run => violation; syntactically quiet call graph => must answer False). "
             "Theorem C09_sound (Lemmas/Runtime.lean: a logical relation over closure values, by induction on the evaluator's fuel): "
             "if the modelled analysis answers False for a kernel then no run of the reference evaluator, for any first-order "
             "arguments, any resolution of spec lookups and any length, performs a device-visible event; recursion cut-off, "
             "closures created in one frame and called in another, loops and early returns included.",
        note=TB + "The theorem is about Model/Runtime.lean and Model/Lang.lean; kirin's forward-analysis framework and const hints "
                  "(which call sites resolve to which closure) are exercised by the correspondence, not modelled.",
        technique="Lean 4 soundness proof of the analysis model against the reference evaluator + regenerated registry table (decide) "
                  "+ differential correspondence against executed ground truth",
        ref="§3 C09"),
    "C10": dict(
        text="Model/ZoneAI.lean: the analysis' transfer functions (static-trap lookup, folded Grid/SubGrid constants through the "
             "layout index, sub_grid, indexing, fallback top/bottom) and a concrete semantics on straight-line blocks (the analysis "
             "gives hints for the top-level block only: control-flow statements fall to the fallback). Theorems: C10_transfer_sound "
             "(every transfer function keeps the promise of its result given the promises of its operands), C10_program_sound "
             "(every computed value is exactly the named zone's grid, resp. has all its sites among the named zone's sites), "
             "C10_invalid_never_computed, for blocks of any length; they rest on the proved geometry lemmas "
             "subGrid_sites_subset / getView_view_subset (views and views of views through ascending in-range index lists select "
             "parent positions). C10_unsorted_view_escapes is the proved negation witness for non-ascending lists (known finding "
             "F10, bloqade-geometry). Tie: generated kernels x specs (zones that are views of zones, special grids), unfolded and "
             "with the spec folded in; ZoneAnalysis entries vs the model, and every hint checked against per-SSA run-time values "
             "recorded by an instrumented spec interpreter.",
        note=TB + "Straight-line blocks only (that is all the analysis annotates); index lists are required ascending and in range "
                  "(StmtOK) - for other lists the property fails in bloqade-geometry (F10, reported as KNOWN-FINDING for exactly "
                  "the views whose chain contains a non-ascending list).",
        technique="Lean 4 abstract-interpretation soundness proof (transfer functions + induction over the block) on proved geometry lemmas + differential correspondence with recorded run-time values",
        ref="§3 C10"),
    "C11": dict(
        text="Theorems: every path the tracer model returns satisfies the well-formedness recogniser WF (invariant by "
             "induction over arbitrary operation sequences), and reversal preserves WF (forward/backward automaton gluing "
             "lemma), hence every gen route yields WF paths. The same WF function is evaluated by the driver on every real "
             "traced / reversed path.",
        note=TB + "WF is the formalisation of the property's sentence; see Model/Tracer.lean.",
        technique="Lean 4 invariant proofs + executable recogniser applied to real paths",
        ref="§3 C11"),
    "C12": dict(
        text="Theorems about Model/Filled.lean for grids of any size and index lists of any length: positions = sites of "
             "the underlying grid at non-vacant index pairs; vacate/fill are cumulative set operations keeping the underlying "
             "grid; get_view re-indexes the vacancy pattern through the index lists (also repeated/unsorted ones); repeat "
             "tiles the pattern (site (a,b) vacant iff (a mod nx, b mod ny) was); shift/scale keep the pattern; == is an "
             "equivalence that holds iff underlying grid and vacancy set agree, and implies equal hash keys. Tie: operation "
             "chains (exhaustive small scope + random) through the Python methods, through generated @move kernels and "
             "through the model; the denotational oracle is evaluated on the real objects step by step.",
        note=TB + "Position arithmetic of the underlying Grid/SubGrid (bloqade-geometry) is modelled and compared, not proved; "
                  "views with non-ascending index lists are only checked for vacancy re-indexing (geometry finding F10).",
        technique="Lean 4 theorems (set/index level) + exhaustive small-scope and random differential correspondence",
        ref="§3 C12"),
    "C13": dict(
        text="Theorems about Model/Layout.lean: Layout and ArchSpec equality are equivalence relations that hold iff all five "
             "tables/sets (and both constant tables) agree, and imply equal hash keys; construction succeeds only when all zone "
             "grids are pairwise distinct (C13_no_duplicate_grids); on a constructed layout get_zone_id of any zone's grid is "
             "that zone's name and only zones have names (index coherent/sound); the bounding box contains every site and each "
             "bound is attained (C13_bbox_tight, for grids with non-negative spacing and both axes). Tie: random layouts over a "
             "grid/name pool (duplicates included) and every library builder output vs the model; laws checked on real objects.",
        note=TB + "bbox tightness assumes every zone has both axes (x_init and y_init set) - true of every library layout.",
        technique="Lean 4 theorems (loop invariant of the index construction, fold lemmas) + differential correspondence",
        ref="§3 C13"),
    "C14": dict(
        text="Theorems: for all num_x, num_y >= 1 and spacings the single-zone builder's positions are exactly i*s / j*s; "
             "C14_two_col_sites: for all num_x, num_y >= 1, spacing and gate spacing the two-column builder succeeds, left_traps "
             "are the columns k*(gate_spacing+spacing), right_traps the columns gate_spacing to their right, both with rows "
             "j*spacing, and both are sub-sets of traps; the "
             "deprecated builder equals its replacement for all arguments; capability sets only name existing zones (all sizes, "
             "single and two-column); Gemini (closed terms, decided by the kernel on the model): zone shapes, every block is a "
             "7x5 sub-set of its parent zone, constants agree with the geometry. The builder models are compared zone by zone "
             "with the real builders for all sizes <= 5 (thorough 8) x spacings, and the documented geometry (two-column "
             "partition, pairs gate_spacing apart) is checked directly on the real outputs.",
        note=TB + "Gemini facts are closed terms of the model (decide +kernel), tied to the real spec by the zone-by-zone comparison.",
        technique="Lean 4 theorems (induction on size; decide +kernel on closed terms) + exhaustive small-scope correspondence",
        ref="§3 C14"),
    "C15": dict(
        text="Theorem C15_fresh_equiv: for every history of run_trace calls (successes and failures mixed, any initial "
             "instance state) each call returns what a fresh instance returns; proved over reset/copy flags regenerated "
             "from the behaviour of initialize()/run_trace on every run. Theorem C15_no_retro_mutation on the model with object "
             "identity (Model/ReuseHeap.lean: list and action objects, in-place append / add_waypoint, shallow copy on return): "
             "what is seen through a list returned by a call is unchanged after any further history of successful and failing "
             "calls; C15_heap_refines: that object-level model returns exactly runTrace of the kernel's operations. Tie: call "
             "histories on one real instance vs fresh instances, and deep-copy comparison of earlier results after every later call.",
        note=TB + "Which objects the real tracer allocates and mutates is modelled (Model/ReuseHeap.lean, read from taskgen.py); the "
                  "two flags the argument hinges on (fresh list in initialize, copy on return) are regenerated by observation.",
        technique="Lean 4 theorems (value-level history equivalence; frame/ownership invariant on an object heap model) over "
                  "regenerated shape flags + history-based differential correspondence",
        ref="§3 C15"),
    "C16": dict(
        text="C16_replay: for every program, arguments and fuel on which the evaluator succeeds, the renderer receives one "
             "render_traps per static trap zone first and then exactly the translation of the executed event sequence, in order "
             "(one call per gate with zone/buffers, one per played path, one per member of a parallel group in order, nothing "
             "for fill/measure); failing runs fail. C16_paths_exact / C16_traps_first: the render_path calls are exactly the played paths in order and the render_traps calls come first and only first. What each path.visualizer implementation does with the renderer is a table "
             "regenerated on every run by executing every implementation against a recording renderer with sentinel operands; "
             "C16_dispatch_ok is decided over it. Tie: the real PathVisualizer with a recording renderer on generated programs vs "
             "the model, and vs the event log the event-logging spec interpreter obtains from the same compiled kernel.",
        note=TB + "matplotlib is replaced by an import stub (harness/stubs); the matplotlib renderer itself is out of scope. "
                  "auto() groups have no executor in the repository and are not generated.",
        technique="Lean 4 theorem over a regenerated dispatch table + differential correspondence with a recording renderer",
        ref="§3 C16"),
    "C17": dict(
        text="C17_matrix: for every published lowering wrapper (table regenerated on every run by reflection over the dialect "
             "interface modules and bloqade.geometry's grid module, so new wrappers are picked up) and each of the three kernel "
             "kinds, membership of the wrapper's statement dialect in the kind's regenerated dialect group equals the documented "
             "vocabulary matrix - decided by the kernel over the whole finite domain, which is the property's quantifier. "
             "The membership model is tied to the decorators by defining a one-statement kernel per wrapper x decorator for real; "
             "the tracer guard is observed on a method of each kind.",
        note=TB + "That kirin's lowering rejects exactly the statements whose dialect is outside the group is exercised, not proved.",
        technique="Lean 4 decide +kernel over regenerated finite tables + exhaustive behavioural correspondence",
        ref="§3 C17"),
    "C18": dict(
        text="All bounded-lattice laws are theorems about Model/Lattice.lean for elements of any nesting depth over any "
             "strings (structural induction); the model is tied to lattice.py by running is_subseteq/join/meet of the real "
             "classes and the model on the same pairs (exhaustive to depth 1 over two names in the thorough tier, plus random "
             "deeper terms), and the laws are also evaluated directly on the real objects as the failing-input oracle.",
        note=TB + "Modelled: kirin's SimpleJoinMixin/SimpleMeetMixin and dataclass equality.",
        technique="Lean 4 theorems by structural induction + differential correspondence with lattice.py",
        ref="§3 C18"),
}


def main():
    checks = []
    for pid in ALL:
        if pid not in CLAIMS:
            continue
        c = CLAIMS[pid]
        checks.append({
            "property_id": pid,
            "quick_cmd": f"./check {pid} --tier quick",
            "thorough_cmd": f"./check {pid} --tier thorough",
            "evidence_file": f"/verif/evidence/{pid}.json",
            "replay_cmd_template": f"./check {pid} --replay {{path}}",
            "engine": "lean-shuttle",
            "level_claimed": {"category": "proof", "text": c["text"], "design_ref": c["ref"]},
            "level_note": c["note"],
            "technique": c["technique"],
        })
    man = {
        "version": 1,
        "setup_cmd": "cd /verif/lean && lake build",
        "hooks": {
            "guard": "BLOQADE_SHUTTLE_VERIF",
            "enable": "no source hooks are needed; checks import /repo/src in-process and set BLOQADE_SHUTTLE_VERIF=1 (unused by the source)",
            "baseline_off_cmd": "cd /repo && env -u BLOQADE_SHUTTLE_VERIF /venv/bin/python -m pytest -ra -q -p no:cacheprovider --timeout=900 --continue-on-collection-errors",
            "source_commits": [],
            "add_only": True,
        },
        "engines": [{
            "name": "lean-shuttle",
            "path": "/verif/lean",
            "serves_properties": [c["property_id"] for c in checks],
            "kind_free_text": "Lean 4 models + theorems (lake project, core-only models), tables regenerated from source, "
                              "compiled line-protocol driver for the correspondence check",
        }],
        "checks": checks,
        "notes": "Entry point ./check <ID> --tier quick|thorough; known findings in known_findings.json; see DESIGN.md.",
        "not_applicable": [
            {"property_id": pid, "reason": "not claimed yet: model and theorems for this property are still being built (see DESIGN.md §6)"}
            for pid in ALL if pid not in CLAIMS
        ],
    }
    (VERIF / "MANIFEST.json").write_text(json.dumps(man, indent=1) + "\n")


if __name__ == "__main__":
    main()
