#!/usr/bin/env python3
"""Confirm a seeded change delivered by a sub-agent and file it under /verif/seeded/<name>/.

usage: seed_confirm.py <dir with patch.diff demo.py notes.md> <name e.g. C01-A> <property> <checks that must catch it...>

In a scratch worktree of /repo: the patch applies; the pinned suite still passes with it;
demo.py prints PASS / exits 0 without the patch and FAIL / exits 1 with it.  Then each named
check is run against the patched worktree (VERIF_REPO) and its verdict recorded."""
import json
import os
import re
import shutil
import subprocess
import sys
from pathlib import Path

src, name, prop, checks = Path(sys.argv[1]), sys.argv[2], sys.argv[3], sys.argv[4:]
wt = f"/tmp/seedconfirm_{os.getpid()}"
run = lambda cmd, **kw: subprocess.run(cmd, shell=True, capture_output=True, text=True, **kw)  # noqa: E731
assert run(f"git -C /repo worktree add -q --detach {wt} HEAD").returncode == 0
env = dict(os.environ, PYTHONPATH=f"{wt}/src")
meta = {"name": name, "property": prop, "source": "independent sub-agent given only the property text and a scratch worktree"}
try:
    d0 = run(f"/venv/bin/python {src}/demo.py", cwd=wt, env=env)
    meta["demo_without_patch"] = {"exit": d0.returncode, "tail": d0.stdout.strip()[-200:]}
    ap = run(f"git -C {wt} apply {src}/patch.diff")
    meta["patch_applies"] = ap.returncode == 0
    t = run("/venv/bin/python -m pytest -q -p no:cacheprovider --timeout=900 2>&1 | tail -1", cwd=wt, env=env)
    meta["suite_with_patch"] = t.stdout.strip()
    d1 = run(f"/venv/bin/python {src}/demo.py", cwd=wt, env=env)
    meta["demo_with_patch"] = {"exit": d1.returncode, "tail": d1.stdout.strip()[-300:]}
    meta["confirmed"] = (meta["patch_applies"] and d0.returncode == 0 and d1.returncode != 0
                         and bool(re.match(r"83 passed", meta["suite_with_patch"])))
    meta["checks"] = {}
    # the checks run from a scratch copy of /verif: the mutant's regenerated tables and Lean build never touch /verif
    vc = f"/tmp/seedverif_{os.getpid()}"
    run(f"rsync -a --exclude .git --exclude replays --exclude findings --exclude seeded /verif/ {vc}/")
    for c in checks:
        r = run(f"./check {c} --tier quick", cwd=vc, env=dict(os.environ, VERIF_REPO=wt))
        lines = [l for l in r.stdout.split("\n") if re.match(r"(OK|VIOLATION|FAILING-INPUT|BROKEN|HARNESS)", l)]
        meta["checks"][c] = {"exit": r.returncode, "verdict": [l[:300] for l in lines][:4]}
finally:
    run(f"git -C /repo worktree remove --force {wt}")
    run(f"rm -rf /tmp/seedverif_{os.getpid()}")
    run("/venv/bin/python /verif/tools/extract.py")
notes = (src / "notes.md").read_text() if (src / "notes.md").exists() else ""
m = re.search(r"(?is)(trigger|manifest)[^\n]*\n(.{0,600})", notes)
meta["needs_to_manifest"] = notes[:1500]
out = Path("/verif/seeded") / name
out.mkdir(parents=True, exist_ok=True)
for f in sorted(src.iterdir()):
    # the patch, the demonstration and whatever it ships (kernels in real source files, import stubs)
    if f.name in ("__pycache__", "meta.json") or f.resolve() == (out / f.name).resolve():
        continue
    if f.is_dir():
        shutil.copytree(f, out / f.name, dirs_exist_ok=True, ignore=shutil.ignore_patterns("__pycache__"))
    else:
        shutil.copy(f, out / f.name)
(out / "meta.json").write_text(json.dumps(meta, indent=1) + "\n")
print(name, "confirmed" if meta["confirmed"] else "NOT CONFIRMED", {c: v["exit"] for c, v in meta["checks"].items()})
