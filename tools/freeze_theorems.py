#!/usr/bin/env python3
"""Record the names of the theorems of every property module in
lean/expected_theorems.json (committed).  The checks compare the theorems found
in the compiled module with this list, so deleting or renaming a property
theorem is reported as a broken obligation rather than going unnoticed."""
import importlib
import json
import re
import subprocess
import sys
from pathlib import Path

VERIF = Path(__file__).resolve().parent.parent
sys.path.insert(0, str(VERIF))
LEAN = VERIF / "lean"


def main():
    out = {}
    for f in sorted((VERIF / "harness" / "props").glob("c[0-9][0-9].py")):
        mod = importlib.import_module(f"harness.props.{f.stem}")
        names = []
        for m in mod.MODULES:
            subprocess.run(["lake", "build", m, "audit"], cwd=LEAN, check=True, capture_output=True)
            p = subprocess.run(["lake", "env", str(LEAN / ".lake/build/bin/audit"), m], cwd=LEAN,
                               capture_output=True, text=True, check=True)
            names += re.findall(r"THEOREM (\S+) AXIOMS", p.stdout)
        out[mod.ID] = sorted(names)
    (LEAN / "expected_theorems.json").write_text(json.dumps(out, indent=1) + "\n")
    print({k: len(v) for k, v in out.items()})


if __name__ == "__main__":
    main()
