from kirin.dialects import ilist
from bloqade.shuttle import gate
from bloqade.shuttle.prelude import move
from bloqade.shuttle.analysis.runtime import RuntimeAnalysis

@move
def pulse(i: int):
    gate.global_rz(0.25)
    return i

@move
def quiet(i: int):
    return i + 1

@move
def mapped(n: int):
    return ilist.map(pulse, ilist.range(n))

@move
def mapped_quiet(n: int):
    return ilist.map(quiet, ilist.range(n))

@move
def each(n: int):
    ilist.for_each(pulse, ilist.range(n))

@move
def folded(n: int):
    def step(acc: int, i: int):
        gate.global_rz(0.5)
        return acc + i
    return ilist.foldl(step, ilist.range(n), 0)

@move
def folded_capture(n: int):
    def step(acc: int, i: int):
        gate.global_rz(0.5)
        return acc + i + n
    return ilist.foldl(step, ilist.range(n), 0)

@move
def quiet_capture(n: int):
    def step(acc: int, i: int):
        return acc + i + n
    return ilist.scan(step, ilist.range(n), 0)

@move
def dyn(f, n: int):
    return ilist.map(f, ilist.range(n))

for k in (mapped, mapped_quiet, each, folded, folded_capture, quiet_capture, dyn):
    try:
        print(k.sym_name, RuntimeAnalysis(move).has_quantum_runtime(k))
    except Exception as e:
        print(k.sym_name, 'refused', type(e).__name__, str(e)[:80])
