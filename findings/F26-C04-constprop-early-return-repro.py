from typing import Any
from bloqade.geometry.dialects import grid
from bloqade.shuttle import gate, spec
from bloqade.shuttle.prelude import move
from bloqade.shuttle.arch import ArchSpec, Layout, ArchSpecInterpreter
from kirin.interp import Interpreter

A = grid.Grid.from_positions([0.0, 2.0, 10.0], [0.0, 10.0])
B = grid.Grid.from_positions([30.0, 31.0, 33.0], [1.0, 4.0])
S = ArchSpec(layout=Layout({"A": A, "B": B}, {"A"}, {"A"}, {"A"}))

@move
def pick(flag: bool, x, y):
    if flag:
        return x
    return y

@move
def plain(flag: bool):
    a = spec.get_static_trap(zone_id="A")
    b = spec.get_static_trap(zone_id="B")
    z = pick(flag, a, b)
    w = z[1:, :]
    return w

@move(arch_spec=S)
def folded(flag: bool):
    a = spec.get_static_trap(zone_id="A")
    b = spec.get_static_trap(zone_id="B")
    z = pick(flag, a, b)
    w = z[1:, :]
    return w

@move(arch_spec=S, fold=False)
def unfolded(flag: bool):
    a = spec.get_static_trap(zone_id="A")
    b = spec.get_static_trap(zone_id="B")
    z = pick(flag, a, b)
    w = z[1:, :]
    return w

for f in (True, False):
    r0 = ArchSpecInterpreter(move, arch_spec=S).run(plain, (f,))
    r1 = Interpreter(move).run(folded, (f,))
    r2 = Interpreter(move).run(unfolded, (f,))
    print(f, r0 == r1, r0 == r2, r0.x_init if hasattr(r0,'x_init') else r0, getattr(r1,'x_init',r1), getattr(r2,'x_init',r2))
folded.print()
