"""A tiny event-logging executor for compiled ``move`` kernels.

It is a spec-carrying interpreter (``ArchSpecInterpreter``) whose method tables
are registered under a private key, so that it can record the device-visible
events (fills, played paths, gates) a kernel executes.  Only public behaviour
of bloqade-shuttle is used.
"""

from dataclasses import dataclass, field
from typing import ClassVar

from kirin import interp, ir

from bloqade.shuttle.arch import ArchSpecInterpreter
from bloqade.shuttle.dialects import gate, init, path

KEY = "c04.seed.demo.events"


@dataclass
class EventLogger(ArchSpecInterpreter):
    keys: ClassVar[list[str]] = [KEY, "spec.interp", "main"]
    events: list = field(default_factory=list, kw_only=True)

    def initialize(self):
        self.events = []
        return super().initialize()


def zone(g):
    """what the device sees of a zone: its sites (positions and vacancies)."""
    vac = getattr(g, "vacancies", None)
    return (
        tuple(float(x) for x in g.x_positions),
        tuple(float(y) for y in g.y_positions),
        tuple(sorted(vac)) if vac else (),
    )


def _tones(t):
    if isinstance(t, slice):
        return ("slice", t.start, t.stop, t.step)
    return tuple(t)


def _action(a):
    name = type(a).__name__
    if hasattr(a, "way_points"):
        return (name, tuple(zone(g) for g in a.way_points))
    return (name, _tones(a.x_tone_indices), _tones(a.y_tone_indices))


@dataclass(frozen=True)
class Group:
    kind: str
    members: tuple


def _path(p):
    if isinstance(p, Group):
        return (p.kind, tuple(_path(m) for m in p.members))
    return (
        "path",
        tuple(p.x_tones),
        tuple(p.y_tones),
        tuple(_action(a) for a in p.path),
    )


@path.dialect.register(key=KEY)
class _PathEvents(interp.MethodTable):
    @interp.impl(path.Play)
    def play(self, it, frame, stmt):
        it.events.append(("play", _path(frame.get(stmt.path))))
        return ()

    @interp.impl(path.Parallel)
    def parallel(self, it, frame, stmt):
        return (Group("parallel", tuple(frame.get_values(stmt.paths))),)

    @interp.impl(path.Auto)
    def auto(self, it, frame, stmt):
        return (Group("auto", tuple(frame.get_values(stmt.paths))),)


@init.dialect.register(key=KEY)
class _InitEvents(interp.MethodTable):
    @interp.impl(init.Fill)
    def fill(self, it, frame, stmt):
        it.events.append(("fill", tuple(zone(g) for g in frame.get(stmt.locations))))
        return ()


@gate.dialect.register(key=KEY)
class _GateEvents(interp.MethodTable):
    @interp.impl(gate.TopHatCZ)
    def cz(self, it, frame, stmt):
        it.events.append(
            ("top_hat_cz", zone(frame.get(stmt.zone)), stmt.upper_buffer, stmt.lower_buffer)
        )
        return ()

    @interp.impl(gate.LocalR)
    def local_r(self, it, frame, stmt):
        it.events.append(
            (
                "local_r",
                frame.get(stmt.axis_angle),
                frame.get(stmt.rotation_angle),
                zone(frame.get(stmt.zone)),
            )
        )
        return ()

    @interp.impl(gate.LocalRz)
    def local_rz(self, it, frame, stmt):
        it.events.append(
            ("local_rz", frame.get(stmt.rotation_angle), zone(frame.get(stmt.zone)))
        )
        return ()

    @interp.impl(gate.GlobalR)
    def global_r(self, it, frame, stmt):
        it.events.append(
            ("global_r", frame.get(stmt.axis_angle), frame.get(stmt.rotation_angle))
        )
        return ()

    @interp.impl(gate.GlobalRz)
    def global_rz(self, it, frame, stmt):
        it.events.append(("global_rz", frame.get(stmt.rotation_angle)))
        return ()


def run_events(mt: ir.Method, arch_spec, args=()):
    """execute ``mt`` with ``arch_spec`` supplied at run time, return its events."""
    it = EventLogger(mt.dialects, arch_spec=arch_spec)
    it.run(mt, args)
    return list(it.events)
