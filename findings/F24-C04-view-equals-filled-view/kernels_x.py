"""Kernel of the pre-existing (unseeded) C04 violation found while preparing the seeds."""

from bloqade.shuttle import filled, gate, spec


def program(flag: bool):
    slm = spec.get_static_trap(zone_id="slm")
    block = slm[0:2, 0:2]  # a view (SubGrid)
    zone = block
    if flag:
        zone = filled.vacate(block, [(1, 1)])  # FilledGrid whose parent is that view
    gate.local_rz(0.5, zone)
