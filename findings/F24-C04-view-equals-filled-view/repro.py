"""UNSEEDED finding (unchanged library): with the spec injected and folding on,
`program(False)` applies local_rz to the *filled* grid although the branch that
builds it is not taken.

Cause: const propagation joins the two branch values with `==`;
`SubGrid.__eq__` (bloqade-geometry, inherited geometry-only comparison) says
`view == FilledGrid(view, ...)` is True while `FilledGrid.__eq__` says the
reverse comparison is False, so `Value(view) <= Value(filled)` holds in the
lattice and the join folds the `if` to the filled grid.

prints the events of both routes; exits 1 if they differ.
"""

import os
import sys

sys.path.insert(0, os.path.dirname(os.path.abspath(__file__)))

from bloqade.geometry.dialects import grid  # noqa: E402

import kernels_x  # noqa: E402
from c04_events import run_events  # noqa: E402
from bloqade.shuttle.arch import ArchSpec, Layout  # noqa: E402
from bloqade.shuttle.prelude import move  # noqa: E402

SLM = grid.Grid.from_positions([0.0, 5.0, 10.0, 15.0], [0.0, 6.0, 12.0])
SPEC = ArchSpec(layout=Layout({"slm": SLM}, {"slm"}, {"slm"}, {"slm"}))

runtime = run_events(move(kernels_x.program), SPEC, (False,))
injected = run_events(move(kernels_x.program, arch_spec=SPEC), SPEC, (False,))
print("spec at run time :", runtime)
print("spec injected    :", injected)
sys.exit(0 if runtime == injected else 1)
