import Shuttle.Drive.C18
import Shuttle.Drive.C01
import Shuttle.Drive.C02
import Shuttle.Drive.C03
import Shuttle.Drive.C05
import Shuttle.Drive.C08
import Shuttle.Drive.C10
import Shuttle.Drive.C12
import Shuttle.Drive.C13
import Shuttle.Drive.C14
import Shuttle.Drive.Lang
/-! Line protocol: each input line is `(<prop> <request>)`; one output line per input line. -/
open Shuttle

def dispatch (line : String) : String :=
  match Sexp.parse line with
  | some (.list [.atom "C18", req]) => Drive.C18.handle req
  | some (.list [.atom "C01", req]) => Drive.C01.handle req
  | some (.list [.atom "C02", req]) => Drive.C02.handle req
  | some (.list [.atom "C03", req]) => Drive.C03.handle req
  | some (.list [.atom "C05", req]) => Drive.C05.handle req
  | some (.list [.atom "C08", req]) => Drive.C08.handle req
  | some (.list [.atom "C10", req]) => Drive.C10.handle req
  | some (.list [.atom "C12", req]) => Drive.C12.handle req
  | some (.list [.atom "C13", req]) => Drive.C13.handle req
  | some (.list [.atom "C14", req]) => Drive.C14.handle req
  | some (.list [.atom "LANG", req]) => Drive.LangD.handle req
  | some _ => "bad-op"
  | none => "bad-parse"

partial def loop (h : IO.FS.Stream) (out : IO.FS.Stream) : IO Unit := do
  let line ← h.getLine
  if line.isEmpty then return ()
  out.putStrLn (dispatch line)
  loop h out

def main : IO Unit := do
  let out ← IO.getStdout
  loop (← IO.getStdin) out
  out.flush
