import Shuttle.Util.Sexp
import Shuttle.Model.Lattice
import Shuttle.Props.C18
