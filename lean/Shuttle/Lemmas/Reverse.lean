import Shuttle.Lemmas.WF
/-! Lemmas for C02 / C11: `inv` is `flip`, reversal is an involution and preserves WF. -/
namespace Shuttle
open Shuttle.Gen.ActionTables (Tag)

/-- The regenerated `inv` table pairs every class with the class of the opposite on/off
kind and the same slice/list form, passing x to x and y to y; way points are reversed;
`reverse_path` has the `[a.inv() for a in reversed(path)]` shape. -/
theorem inv_table_ok :
    (∀ t : Tag, Gen.ActionTables.inv.lookup t =
      some (⟨!t.on, t.xsl, t.ysl⟩, true, true, false, false)) ∧
    Gen.ActionTables.wayInvReverses = true ∧ Gen.ActionTables.reversePathShape = true := by
  refine ⟨?_, by decide, by decide⟩
  intro ⟨a, b, c⟩
  cases a <;> cases b <;> cases c <;> decide

theorem inv_eq_flip (a : Action) : a.inv = some a.flip := by
  cases a with
  | way ws => simp [Action.inv, Action.flip, inv_table_ok.2.1]
  | sw t x y => simp [Action.inv, Action.flip, inv_table_ok.1 t]

theorem mapM_inv (l : List Action) : l.mapM Action.inv = some (l.map Action.flip) := by
  induction l with
  | nil => rfl
  | cons a t ih => simp [List.mapM_cons, inv_eq_flip, ih]

theorem reversePath_eq_flip (p : Path) : reversePath p = some (flipPath p) := by
  simp [reversePath, flipPath, mapM_inv]

theorem flip_flip (a : Action) : a.flip.flip = a := by
  cases a <;> simp [Action.flip]

theorem flipPath_involutive (p : Path) : flipPath (flipPath p) = p := by
  simp [flipPath, List.map_reverse, Function.comp_def, flip_flip]

/-! ### well-formedness under reversal -/

def bstep (a : Action) (σ : WSt) : WSt := wstep σ a.flip

theorem WF_flipPath_fold (p : Path) :
    (flipPath p).foldl wstep .start = p.foldr bstep .start := by
  unfold flipPath
  rw [List.foldl_map, List.foldl_reverse]
  rfl

/-- a forward state and a backward state that can be glued into one well-formed path -/
def compat : WSt → WSt → Bool
  | .start, .start => true
  | .start, .seg _ => true
  | .seg _, .start => true
  | .seg _, .seg _ => true
  | .seg s, .sw s' => s'.getLast? == s.getLast?
  | .sw s, .seg s' => s.getLast? == s'.getLast?
  | _, _ => false

theorem compat_step (σ0 τ : WSt) (a : Action) (h : compat (wstep σ0 a) τ = true) :
    bstep a τ ≠ .bad ∧ compat σ0 (bstep a τ) = true := by
  cases a with
  | sw t x y =>
    cases σ0 <;> simp [wstep, compat] at h
    cases τ <;> simp at h
    simp [bstep, Action.flip, wstep, compat, h]
  | way ws =>
    have hrev : segOK ws.reverse = segOK ws := segOK_reverse ws
    cases σ0 with
    | bad => simp [wstep, compat] at h
    | start =>
      by_cases hok : segOK ws = true
      · cases τ <;> simp [wstep, hok, compat] at h <;>
          simp [bstep, Action.flip, wstep, hrev, hok, compat, List.head?_reverse, h]
      · simp [wstep, hok, compat] at h
    | seg s =>
      by_cases hok : segOK ws = true
      · cases τ <;> simp [wstep, hok, compat] at h <;>
          simp [bstep, Action.flip, wstep, hrev, hok, compat, List.head?_reverse, h]
      · simp [wstep, hok, compat] at h
    | sw s =>
      by_cases hok : (segOK ws && s.getLast? == ws.head?) = true
      · have hok' : segOK ws = true := by simp at hok; exact hok.1
        have hm : s.getLast? = ws.head? := by simp at hok; exact hok.2
        cases τ <;> simp [wstep, hok, compat] at h <;>
          simp [bstep, Action.flip, wstep, hrev, hok', compat, List.head?_reverse,
            List.getLast?_reverse, h, hm]
      · simp [wstep, hok, compat] at h

theorem compat_run (p : Path) : ∀ σ0 τ, compat (p.foldl wstep σ0) τ = true →
    p.foldr bstep τ ≠ .bad ∧ compat σ0 (p.foldr bstep τ) = true := by
  induction p with
  | nil =>
    intro σ0 τ h
    refine ⟨?_, h⟩
    intro hb
    simp only [List.foldr_nil] at hb
    simp only [List.foldl_nil, hb] at h
    cases σ0 <;> simp [compat] at h
  | cons a q ih =>
    intro σ0 τ h
    simp only [List.foldl_cons] at h
    obtain ⟨_, h2⟩ := ih (wstep σ0 a) τ h
    simpa [List.foldr_cons] using compat_step σ0 (q.foldr bstep τ) a h2

theorem WF_flipPath (p : Path) (h : WF p = true) : WF (flipPath p) = true := by
  unfold WF at h ⊢
  rw [WF_flipPath_fold]
  have hc : compat (p.foldl wstep .start) .start = true := by
    cases hσ : p.foldl wstep .start <;> simp [hσ, WSt.accept] at h <;> simp [compat]
  obtain ⟨h1, h2⟩ := compat_run p .start .start hc
  cases hτ : p.foldr bstep .start <;> simp [hτ, compat] at h1 h2 ⊢ <;> simp [WSt.accept]

end Shuttle
