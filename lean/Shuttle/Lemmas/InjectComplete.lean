import Shuttle.Lemmas.Inject
namespace Shuttle.Lang

mutual
/-- the spec lookups that occur in an expression -/
def looksE : Expr → List (LookKind × String)
  | .lit _ => []
  | .var _ => []
  | .prim _ args => looksEs args
  | .look k n => [(k, n)]
  | .call _ args => looksEs args
  | .callV f args => looksE f ++ looksEs args
  | .lam _ => []
def looksEs : List Expr → List (LookKind × String)
  | [] => []
  | e :: es => looksE e ++ looksEs es
end

mutual
def looksS : Stmt → List (LookKind × String)
  | .assign _ e => looksE e
  | .exprS e => looksE e
  | .eff _ args => looksEs args
  | .devcall f args _ => looksE f ++ looksEs args
  | .par body => looksSs body
  | .ifS c t e => looksE c ++ looksSs t ++ looksSs e
  | .forS _ a b st body => looksE a ++ looksE b ++ looksE st ++ looksSs body
  | .assertS c => looksE c
  | .ret e => looksE e
def looksSs : List Stmt → List (LookKind × String)
  | [] => []
  | s :: ss => looksS s ++ looksSs ss
end

/-- every lookup occurring anywhere in a program (all functions, nested blocks included) -/
def looksProg (fns : List Fn) : List (LookKind × String) := fns.flatMap fun f => looksSs f.body

def Undefd (cfg : InjCfg) (l : List (LookKind × String)) : Prop := ∀ p ∈ l, cfg.look p.1 p.2 = none

theorem Undefd.nil (cfg : InjCfg) : Undefd cfg [] := by intro p hp; cases hp
theorem Undefd.append {cfg : InjCfg} {a b} (ha : Undefd cfg a) (hb : Undefd cfg b) : Undefd cfg (a ++ b) := by
  intro p hp; rcases List.mem_append.1 hp with h | h
  · exact ha p h
  · exact hb p h

mutual
theorem looksE_inj (cfg : InjCfg) (hall : ∀ k, cfg.handles k = true) : ∀ e, Undefd cfg (looksE (injE cfg e))
  | .lit _ => by simp [injE, looksE, Undefd]
  | .var _ => by simp [injE, looksE, Undefd]
  | .lam _ => by simp [injE, looksE, Undefd]
  | .prim _ args => by simp only [injE, looksE]; exact looksEs_inj cfg hall args
  | .call _ args => by simp only [injE, looksE]; exact looksEs_inj cfg hall args
  | .callV f args => by
      simp only [injE, looksE]; exact (looksE_inj cfg hall f).append (looksEs_inj cfg hall args)
  | .look k n => by
      simp only [injE, hall k, if_true]
      cases h : cfg.look k n with
      | none => intro p hp; simp [looksE] at hp; subst hp; exact h
      | some v => simp [looksE, Undefd]
theorem looksEs_inj (cfg : InjCfg) (hall : ∀ k, cfg.handles k = true) : ∀ es, Undefd cfg (looksEs (injEs cfg es))
  | [] => by simp [injEs, looksEs, Undefd]
  | e :: es => by simp only [injEs, looksEs]; exact (looksE_inj cfg hall e).append (looksEs_inj cfg hall es)
end

mutual
theorem looksS_inj (cfg : InjCfg) (hall : ∀ k, cfg.handles k = true) : ∀ s, Undefd cfg (looksS (injS cfg s))
  | .assign _ e => by simp only [injS, looksS]; exact looksE_inj cfg hall e
  | .exprS e => by simp only [injS, looksS]; exact looksE_inj cfg hall e
  | .assertS e => by simp only [injS, looksS]; exact looksE_inj cfg hall e
  | .ret e => by simp only [injS, looksS]; exact looksE_inj cfg hall e
  | .eff _ args => by simp only [injS, looksS]; exact looksEs_inj cfg hall args
  | .devcall f args _ => by
      simp only [injS, looksS]; exact (looksE_inj cfg hall f).append (looksEs_inj cfg hall args)
  | .par body => by simp only [injS, looksS]; exact looksSs_inj cfg hall body
  | .ifS c t e => by
      simp only [injS, looksS]
      exact ((looksE_inj cfg hall c).append (looksSs_inj cfg hall t)).append (looksSs_inj cfg hall e)
  | .forS _ a b st body => by
      simp only [injS, looksS]
      exact (((looksE_inj cfg hall a).append (looksE_inj cfg hall b)).append (looksE_inj cfg hall st)).append
        (looksSs_inj cfg hall body)
theorem looksSs_inj (cfg : InjCfg) (hall : ∀ k, cfg.handles k = true) : ∀ ss, Undefd cfg (looksSs (injSs cfg ss))
  | [] => by simp [injSs, looksSs, Undefd]
  | s :: ss => by simp only [injSs, looksSs]; exact (looksS_inj cfg hall s).append (looksSs_inj cfg hall ss)
end

theorem looksProg_inj (cfg : InjCfg) (hall : ∀ k, cfg.handles k = true) (fns : List Fn) :
    Undefd cfg (looksProg (injProg cfg fns)) := by
  intro p hp
  simp only [looksProg, injProg, List.mem_flatMap, List.mem_map] at hp
  obtain ⟨f', ⟨f, _, rfl⟩, hp⟩ := hp
  exact looksSs_inj cfg hall f.body p hp

/-! idempotence: a second run of the pass changes nothing -/
mutual
theorem injE_idem (cfg : InjCfg) : ∀ e, injE cfg (injE cfg e) = injE cfg e
  | .lit _ => by simp [injE]
  | .var _ => by simp [injE]
  | .lam _ => by simp [injE]
  | .prim _ args => by simp only [injE, injEs_idem cfg args]
  | .call _ args => by simp only [injE, injEs_idem cfg args]
  | .callV f args => by simp only [injE, injE_idem cfg f, injEs_idem cfg args]
  | .look k n => by
      by_cases hk : cfg.handles k = true
      · cases h : cfg.look k n with
        | none => simp [injE, hk, h]
        | some v => simp [injE, hk, h]
      · simp [injE, hk]
theorem injEs_idem (cfg : InjCfg) : ∀ es, injEs cfg (injEs cfg es) = injEs cfg es
  | [] => by simp [injEs]
  | e :: es => by simp only [injEs, injE_idem cfg e, injEs_idem cfg es]
end

mutual
theorem injS_idem (cfg : InjCfg) : ∀ s, injS cfg (injS cfg s) = injS cfg s
  | .assign _ e => by simp only [injS, injE_idem]
  | .exprS e => by simp only [injS, injE_idem]
  | .assertS e => by simp only [injS, injE_idem]
  | .ret e => by simp only [injS, injE_idem]
  | .eff _ args => by simp only [injS, injEs_idem]
  | .devcall f args _ => by simp only [injS, injE_idem, injEs_idem]
  | .par body => by simp only [injS, injSs_idem cfg body]
  | .ifS c t e => by simp only [injS, injE_idem, injSs_idem cfg t, injSs_idem cfg e]
  | .forS _ a b st body => by simp only [injS, injE_idem, injSs_idem cfg body]
theorem injSs_idem (cfg : InjCfg) : ∀ ss, injSs cfg (injSs cfg ss) = injSs cfg ss
  | [] => by simp [injSs]
  | s :: ss => by simp only [injSs, injS_idem cfg s, injSs_idem cfg ss]
end

theorem injProg_idem (cfg : InjCfg) (fns : List Fn) : injProg cfg (injProg cfg fns) = injProg cfg fns := by
  simp only [injProg, List.map_map]
  apply List.map_congr_left
  intro f _
  simp [injF, injSs_idem]

end Shuttle.Lang
