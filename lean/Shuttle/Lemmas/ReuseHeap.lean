import Shuttle.Model.ReuseHeap
/-!
# Frame lemmas for the tracer instance with object identity
-/
namespace Shuttle

/-- everything with list id `< L` / action id `< A` is the same object content in `s'` as in `s`; tables only grow -/
structure FrozenAt (L A : Nat) (s s' : HState) : Prop where
  ll : s.lists.length ≤ s'.lists.length
  al : s.acts.length ≤ s'.acts.length
  lists : ∀ j < L, s'.lists[j]? = s.lists[j]?
  acts : ∀ i < A, s'.acts[i]? = s.acts[i]?

theorem FrozenAt.refl (L A : Nat) (s : HState) : FrozenAt L A s s :=
  ⟨Nat.le_refl _, Nat.le_refl _, fun _ _ => rfl, fun _ _ => rfl⟩

theorem FrozenAt.trans {L A : Nat} {a b c : HState} (h1 : FrozenAt L A a b) (h2 : FrozenAt L A b c) : FrozenAt L A a c :=
  ⟨Nat.le_trans h1.ll h2.ll, Nat.le_trans h1.al h2.al,
   fun j hj => (h2.lists j hj).trans (h1.lists j hj), fun i hi => (h2.acts i hi).trans (h1.acts i hi)⟩

theorem FrozenAt.weaken {L A L' A' : Nat} {a b : HState} (h : FrozenAt L A a b) (hl : L' ≤ L) (ha : A' ≤ A) :
    FrozenAt L' A' a b :=
  ⟨h.ll, h.al, fun j hj => h.lists j (Nat.lt_of_lt_of_le hj hl), fun i hi => h.acts i (Nat.lt_of_lt_of_le hi ha)⟩

/-- the list the running call writes to was allocated by this call, and so were all the actions it refers to -/
structure Own (L A : Nat) (s : HState) : Prop where
  lo : L ≤ s.trace
  hi : s.trace < s.lists.length
  refs : ∀ a ∈ s.lists.getD s.trace [], A ≤ a
  lL : L ≤ s.lists.length
  lA : A ≤ s.acts.length

theorem getD_modify_self (l : List (List Nat)) (i : Nat) (f : List Nat → List Nat) (h : i < l.length) :
    (l.modify i f).getD i [] = f (l.getD i []) := by
  simp [List.getD, List.getElem?_modify, h]

theorem hstep_frame (static : Sel → Bool) (L A : Nat) (s s' : HState) (o : Op) (ho : Own L A s)
    (h : hstep static s o = .ok s') : Own L A s' ∧ FrozenAt L A s s' := by
  cases o with
  | setLoc g =>
    simp only [hstep, Except.ok.injEq] at h
    subst h
    refine ⟨⟨ho.lo, by simpa using ho.hi, ?_, by simpa using ho.lL, by simp; exact Nat.le_succ_of_le ho.lA⟩,
            ⟨by simp, by simp, ?_, ?_⟩⟩
    · intro a ha
      simp only [getD_modify_self _ _ _ ho.hi, List.mem_append, List.mem_singleton] at ha
      rcases ha with ha | rfl
      · exact ho.refs a ha
      · exact ho.lA
    · intro j hj
      simp only [List.getElem?_modify]
      have : s.trace ≠ j := by have := ho.lo; omega
      simp [this]
    · intro i hi
      have := ho.lA
      simp only
      rw [List.getElem?_append_left (by omega)]
  | move g =>
    simp only [hstep] at h
    split at h
    · cases h
    · split at h
      · cases h
      · rename_i a ha
        split at h
        · split at h
          · cases h
          · simp only [Except.ok.injEq] at h
            subst h
            have hmem : a ∈ s.lists.getD s.trace [] := List.mem_of_getLast? ha
            refine ⟨⟨ho.lo, ho.hi, ho.refs, ho.lL, by simpa using ho.lA⟩, ⟨Nat.le_refl _, by simp, fun _ _ => rfl, ?_⟩⟩
            intro i hi
            simp only [List.getElem?_modify]
            have : a ≠ i := by have := ho.refs a hmem; omega
            simp [this]
        · cases h
  | turn on x y =>
    simp only [hstep] at h
    split at h
    · cases h
    · split at h
      · cases h
      · simp only [Except.ok.injEq] at h
        subst h
        refine ⟨⟨ho.lo, by simpa using ho.hi, ?_, by simpa using ho.lL, by simp; have := ho.lA; omega⟩,
                ⟨by simp, by simp, ?_, ?_⟩⟩
        · intro a ha
          simp only [getD_modify_self _ _ _ ho.hi, List.mem_append, List.mem_cons, List.not_mem_nil, or_false] at ha
          rcases ha with ha | rfl | rfl
          · exact ho.refs a ha
          · exact ho.lA
          · exact Nat.le_succ_of_le ho.lA
        · intro j hj
          simp only [List.getElem?_modify]
          have : s.trace ≠ j := by have := ho.lo; omega
          simp [this]
        · intro i hi
          have := ho.lA
          simp only
          rw [List.getElem?_append_left (by omega)]

theorem hrun_frame (static : Sel → Bool) (L A : Nat) : ∀ (ops : List Op) (s s' : HState) (r : Except TErr HState),
    Own L A s → hrun static s ops = (r, s') → Own L A s' ∧ FrozenAt L A s s' := by
  intro ops
  induction ops with
  | nil =>
    intro s s' r ho h
    simp only [hrun, Prod.mk.injEq] at h
    obtain ⟨_, rfl⟩ := h
    exact ⟨ho, FrozenAt.refl _ _ _⟩
  | cons o os ih =>
    intro s s' r ho h
    simp only [hrun] at h
    split at h
    · simp only [Prod.mk.injEq] at h
      obtain ⟨_, rfl⟩ := h
      exact ⟨ho, FrozenAt.refl _ _ _⟩
    · rename_i s1 hs
      obtain ⟨ho1, f1⟩ := hstep_frame static L A s s1 o ho hs
      obtain ⟨ho2, f2⟩ := ih s1 s' r ho1 h
      exact ⟨ho2, f1.trans f2⟩

end Shuttle

namespace Shuttle

/-- every reference in every list object points to an existing action object -/
def WFH (s : HState) : Prop := ∀ l ∈ s.lists, ∀ a ∈ l, a < s.acts.length

theorem mem_modify {l : List (List Nat)} {i : Nat} {f : List Nat → List Nat} {x : List Nat}
    (h : x ∈ l.modify i f) : x ∈ l ∨ ∃ y ∈ l, x = f y := by
  obtain ⟨j, hj, rfl⟩ := List.mem_iff_getElem.1 h
  have hj' : j < l.length := by simpa using hj
  have h1 : (l.modify i f)[j]? = some ((l.modify i f)[j]) := List.getElem?_eq_getElem hj
  have h2 : (l.modify i f)[j]? = some (if i = j then f l[j] else l[j]) := by
    rw [List.getElem?_modify, List.getElem?_eq_getElem hj']; rfl
  have h3 : (l.modify i f)[j] = if i = j then f l[j] else l[j] := Option.some.inj (h1.symm.trans h2)
  by_cases e : i = j
  · right; exact ⟨l[j], List.getElem_mem hj', by rw [h3, if_pos e]⟩
  · left; rw [h3, if_neg e]; exact List.getElem_mem hj'

theorem hstep_wf (static : Sel → Bool) (s s' : HState) (o : Op) (hw : WFH s) (h : hstep static s o = .ok s') : WFH s' := by
  cases o with
  | setLoc g =>
    simp only [hstep, Except.ok.injEq] at h
    subst h
    intro l hl a ha
    simp only [List.length_append, List.length_singleton]
    rcases mem_modify hl with hl | ⟨y, hy, rfl⟩
    · exact Nat.lt_succ_of_lt (hw l hl a ha)
    · rcases List.mem_append.1 ha with ha | ha
      · exact Nat.lt_succ_of_lt (hw y hy a ha)
      · simp at ha; omega
  | move g =>
    simp only [hstep] at h
    split at h
    · cases h
    · split at h
      · cases h
      · split at h
        · split at h
          · cases h
          · simp only [Except.ok.injEq] at h
            subst h
            intro l hl a ha
            simpa using hw l hl a ha
        · cases h
  | turn on x y =>
    simp only [hstep] at h
    split at h
    · cases h
    · split at h
      · cases h
      · simp only [Except.ok.injEq] at h
        subst h
        intro l hl a ha
        simp only [List.length_append, List.length_cons, List.length_nil]
        rcases mem_modify hl with hl | ⟨y, hy, rfl⟩
        · have := hw l hl a ha; omega
        · rcases List.mem_append.1 ha with ha | ha
          · have := hw y hy a ha; omega
          · simp at ha; omega

theorem hrun_wf (static : Sel → Bool) : ∀ (ops : List Op) (s s' : HState) (r : Except TErr HState),
    WFH s → hrun static s ops = (r, s') → WFH s' := by
  intro ops
  induction ops with
  | nil => intro s s' r hw h; simp only [hrun, Prod.mk.injEq] at h; obtain ⟨_, rfl⟩ := h; exact hw
  | cons o os ih =>
    intro s s' r hw h
    simp only [hrun] at h
    split at h
    · simp only [Prod.mk.injEq] at h; obtain ⟨_, rfl⟩ := h; exact hw
    · rename_i s1 hs
      exact ih s1 s' r (hstep_wf static s s1 o hw hs) h

/-- what is seen through an old list id does not change while its objects stay frozen -/
theorem view_stable (L A : Nat) (s s' : HState) (lid : Nat) (hf : FrozenAt L A s s') (hl : lid < L)
    (hr : ∀ a ∈ s.lists.getD lid [], a < A) : s'.view lid = s.view lid := by
  unfold HState.view
  have e : s'.lists.getD lid [] = s.lists.getD lid [] := by
    simp only [List.getD, hf.lists lid hl]
  rw [e]
  have hr' := hr
  revert hr'
  generalize s.lists.getD lid [] = l
  intro hr'
  induction l with
  | nil => rfl
  | cons a t ih =>
    simp only [List.filterMap_cons, hf.acts a (hr' a (by simp))]
    rw [ih (fun b hb => hr' b (by simp [hb]))]

end Shuttle

namespace Shuttle

/-! ## the object-level tracer refines the value-level tracer -/

/-- the value-level state a heap state stands for -/
def HState.abs (s : HState) : TState := ⟨s.view s.trace, s.cur⟩

/-- the running trace list refers to distinct, existing action objects -/
structure Tidy (s : HState) : Prop where
  hi : s.trace < s.lists.length
  inc : (s.lists.getD s.trace []).Pairwise (· < ·)
  valid : ∀ a ∈ s.lists.getD s.trace [], a < s.acts.length

theorem filterMap_congr' {α β : Type} {f g : α → Option β} : ∀ (l : List α), (∀ a ∈ l, f a = g a) →
    l.filterMap f = l.filterMap g := by
  intro l
  induction l with
  | nil => intro _; rfl
  | cons a t ih =>
    intro h
    simp only [List.filterMap_cons, h a (by simp)]
    rw [ih (fun b hb => h b (by simp [hb]))]

theorem filterMap_valid (acts : List Action) : ∀ (l : List Nat), (∀ a ∈ l, a < acts.length) →
    l.filterMap (fun a => acts[a]?) = l.map (fun a => acts.getD a default) := by
  intro l
  induction l with
  | nil => intro _; rfl
  | cons a t ih =>
    intro h
    have ha : a < acts.length := h a (by simp)
    simp only [List.filterMap_cons, List.map_cons, List.getElem?_eq_getElem ha, List.getD, Option.getD_some]
    rw [ih (fun b hb => h b (by simp [hb]))]
    simp [List.getD]

theorem view_append_new (acts : List Action) (l : List Nat) (news : List Action) (h : ∀ a ∈ l, a < acts.length) :
    l.filterMap (fun a => (acts ++ news)[a]?) = l.filterMap (fun a => acts[a]?) := by
  induction l with
  | nil => rfl
  | cons a t ih =>
    have ha : a < acts.length := h a (by simp)
    simp only [List.filterMap_cons, List.getElem?_append_left ha]
    rw [ih (fun b hb => h b (by simp [hb]))]

theorem modifyLast_append_singleton {α : Type} (f : α → α) : ∀ (l : List α) (a : α),
    modifyLast f (l ++ [a]) = l ++ [f a] := by
  intro l
  induction l with
  | nil => intro a; rfl
  | cons x t ih =>
    intro a
    cases t with
    | nil => rfl
    | cons y u =>
      simp only [List.cons_append, modifyLast]
      have := ih a
      simp only [List.cons_append] at this
      rw [this]

/-- modifying the object behind the last reference modifies exactly the last element seen -/
theorem view_modify_last (acts : List Action) (f : Action → Action) : ∀ (l : List Nat) (a : Nat),
    (l ++ [a]).Pairwise (· < ·) → (∀ b ∈ l ++ [a], b < acts.length) →
    (l ++ [a]).filterMap (fun b => (acts.modify a f)[b]?) =
      modifyLast f ((l ++ [a]).filterMap (fun b => acts[b]?)) := by
  intro l a hp hv
  have ha : a < acts.length := hv a (by simp)
  have hne : ∀ b ∈ l, b ≠ a := by
    intro b hb
    have := List.pairwise_append.1 hp
    have := this.2.2 b hb a (by simp)
    omega
  have e1 : l.filterMap (fun b => (acts.modify a f)[b]?) = l.filterMap (fun b => acts[b]?) := by
    apply filterMap_congr'
    intro b hb
    simp only [List.getElem?_modify]
    have : a ≠ b := fun e => hne b hb e.symm
    simp [this]
  have e2 : (acts.modify a f)[a]? = some (f acts[a]) := by
    simp [List.getElem?_modify, List.getElem?_eq_getElem ha]
  simp only [List.filterMap_append, e1, List.filterMap_cons, List.filterMap_nil, e2, List.getElem?_eq_getElem ha]
  rw [modifyLast_append_singleton]

end Shuttle

namespace Shuttle

theorem pairwise_snoc {l : List Nat} {n : Nat} (hp : l.Pairwise (· < ·)) (hv : ∀ a ∈ l, a < n) :
    (l ++ [n]).Pairwise (· < ·) := by
  rw [List.pairwise_append]
  exact ⟨hp, by simp, fun a ha b hb => by simp at hb; subst hb; exact hv a ha⟩

theorem hstep_sim (static : Sel → Bool) (s : HState) (o : Op) (ht : Tidy s) :
    match hstep static s o with
    | .ok s' => step static s.abs o = .ok s'.abs ∧ Tidy s'
    | .error e => step static s.abs o = .error e := by
  cases o with
  | setLoc g =>
    simp only [hstep, step, stepSet, HState.abs, Except.ok.injEq, TState.mk.injEq, and_true]
    refine ⟨?_, ⟨by simpa using ht.hi, ?_, ?_⟩⟩
    · simp only [HState.view, getD_modify_self _ _ _ ht.hi, List.filterMap_append, List.filterMap_cons,
        List.filterMap_nil, view_append_new _ _ _ ht.valid]
      simp
    · simp only [getD_modify_self _ _ _ ht.hi]
      exact pairwise_snoc ht.inc ht.valid
    · intro a ha
      simp only [getD_modify_self _ _ _ ht.hi, List.mem_append, List.mem_singleton] at ha
      simp only [List.length_append, List.length_singleton]
      rcases ha with ha | rfl
      · exact Nat.lt_succ_of_lt (ht.valid a ha)
      · exact Nat.lt_succ_self _
  | turn on x y =>
    simp only [hstep, step, stepTurn, HState.abs]
    cases hc : s.cur with
    | none => simp
    | some c =>
      simp only
      cases hr : recordedTag on (static x) (static y) x y with
      | none => simp
      | some t =>
        simp only [Except.ok.injEq, TState.mk.injEq, and_true]
        refine ⟨?_, ⟨by simpa using ht.hi, ?_, ?_⟩⟩
        · simp only [HState.view, getD_modify_self _ _ _ ht.hi, List.filterMap_append, List.filterMap_cons,
            List.filterMap_nil, view_append_new _ _ _ ht.valid]
          simp
        · simp only [getD_modify_self _ _ _ ht.hi]
          have h1 := pairwise_snoc ht.inc ht.valid
          have : s.lists.getD s.trace [] ++ [s.acts.length, s.acts.length + 1] =
              (s.lists.getD s.trace [] ++ [s.acts.length]) ++ [s.acts.length + 1] := by simp
          rw [this]
          apply pairwise_snoc h1
          intro a ha
          rcases List.mem_append.1 ha with ha | ha
          · exact Nat.lt_succ_of_lt (ht.valid a ha)
          · simp at ha; omega
        · intro a ha
          simp only [getD_modify_self _ _ _ ht.hi, List.mem_append, List.mem_cons, List.not_mem_nil, or_false] at ha
          simp only [List.length_append, List.length_cons, List.length_nil]
          rcases ha with ha | rfl | rfl
          · have := ht.valid a ha; omega
          · omega
          · omega
  | move g =>
    simp only [hstep, step, stepMove, HState.abs]
    cases hc : s.cur with
    | none => simp
    | some c =>
      simp only
      cases hl : (s.lists.getD s.trace []).getLast? with
      | none =>
        have : s.lists.getD s.trace [] = [] := List.getLast?_eq_none_iff.1 hl
        simp only [HState.view, this, List.filterMap_nil, List.getLast?_nil]
      | some a =>
        obtain ⟨l0, hl0⟩ := List.getLast?_eq_some_iff.1 hl
        have hav : a < s.acts.length := ht.valid a (by rw [hl0]; simp)
        have hview : s.view s.trace = l0.filterMap (fun b => s.acts[b]?) ++ [s.acts[a]] := by
          simp only [HState.view, hl0, List.filterMap_append, List.filterMap_cons, List.filterMap_nil,
            List.getElem?_eq_getElem hav]
        have hlast : (s.view s.trace).getLast? = some s.acts[a] := by rw [hview]; simp
        simp only [hlast, List.getElem?_eq_getElem hav]
        cases hact : s.acts[a] with
        | sw t x y => simp
        | way ws =>
          simp only
          by_cases hsh : c.shape ≠ g.shape
          · simp [hsh]
          · simp only [hsh, if_false, Except.ok.injEq, TState.mk.injEq, and_true]
            refine ⟨?_, ⟨ht.hi, ht.inc, by simpa using ht.valid⟩⟩
            simp only [HState.view, hl0]
            have hp : (l0 ++ [a]).Pairwise (· < ·) := by rw [← hl0]; exact ht.inc
            have hv : ∀ b ∈ l0 ++ [a], b < s.acts.length := by rw [← hl0]; exact ht.valid
            exact (view_modify_last s.acts (addWay g) l0 a hp hv).symm

end Shuttle

namespace Shuttle

theorem hrun_sim (static : Sel → Bool) : ∀ (ops : List Op) (s : HState), Tidy s →
    match hrun static s ops with
    | (.ok sf, s') => run static s.abs ops = .ok sf.abs ∧ sf = s' ∧ Tidy s'
    | (.error e, _) => run static s.abs ops = .error e := by
  intro ops
  induction ops with
  | nil => intro s ht; simp [hrun, run, ht]
  | cons o os ih =>
    intro s ht
    have h1 := hstep_sim static s o ht
    simp only [hrun, run]
    cases hs : hstep static s o with
    | error e =>
      simp only [hs] at h1
      simp [h1]
    | ok s1 =>
      simp only [hs] at h1
      simp only [h1.1]
      exact ih s1 h1.2

end Shuttle
