import Shuttle.Model.Inject
/-! The injection theorem: running the injected program with no spec available equals
running the original program against the spec. -/
namespace Shuttle.Lang

theorem fn_injProg (cfg : InjCfg) (fns : List Fn) (l l' : LookKind → String → Option Val) (n : String) :
    Ctx.fn ⟨injProg cfg fns, l⟩ n = (Ctx.fn ⟨fns, l'⟩ n).map (injF cfg) := by
  simp only [Ctx.fn, injProg, List.find?_map]
  congr 1

theorem bindArgs_injF (cfg : InjCfg) (f : Fn) (args : List Val) (kw : List String) :
    bindArgs (injF cfg f) args kw = bindArgs f args kw := rfl


/-- **Injection preserves behaviour** (values, events, errors), for every task and fuel,
provided the rule handles every lookup kind. -/
theorem inject_run (cfg : InjCfg) (hall : ∀ k, cfg.handles k = true) (fns : List Fn) :
    ∀ (fuel : Nat) (env : Env) (t : Task),
      run fuel ⟨injProg cfg fns, noLook⟩ env (injT cfg t) = run fuel ⟨fns, cfg.look⟩ env t := by
  intro fuel
  induction fuel with
  | zero => intro env t; rfl
  | succ fuel ih =>
    have hE : ∀ env e, run fuel ⟨injProg cfg fns, noLook⟩ env (.expr (injE cfg e)) =
        run fuel ⟨fns, cfg.look⟩ env (.expr e) := fun env e => ih env (.expr e)
    have hEs : ∀ env es, run fuel ⟨injProg cfg fns, noLook⟩ env (.exprs (injEs cfg es)) =
        run fuel ⟨fns, cfg.look⟩ env (.exprs es) := fun env es => ih env (.exprs es)
    have hS : ∀ env s, run fuel ⟨injProg cfg fns, noLook⟩ env (.stmt (injS cfg s)) =
        run fuel ⟨fns, cfg.look⟩ env (.stmt s) := fun env s => ih env (.stmt s)
    have hB : ∀ env ss, run fuel ⟨injProg cfg fns, noLook⟩ env (.block (injSs cfg ss)) =
        run fuel ⟨fns, cfg.look⟩ env (.block ss) := fun env ss => ih env (.block ss)
    have hL : ∀ env x vals body, run fuel ⟨injProg cfg fns, noLook⟩ env (.loop x vals (injSs cfg body)) =
        run fuel ⟨fns, cfg.look⟩ env (.loop x vals body) := fun env x vals body => ih env (.loop x vals body)
    have hC : ∀ env n args cenv, run fuel ⟨injProg cfg fns, noLook⟩ env (.callFn n args cenv) =
        run fuel ⟨fns, cfg.look⟩ env (.callFn n args cenv) := fun env n args cenv => ih env (.callFn n args cenv)
    have hD : ∀ env ss, run fuel ⟨injProg cfg fns, noLook⟩ env (.devCalls (injSs cfg ss)) =
        run fuel ⟨fns, cfg.look⟩ env (.devCalls ss) := fun env ss => ih env (.devCalls ss)
    intro env t
    cases t with
    | expr e =>
      cases e with
      | lit v => simp [injT, injE, run]
      | var x => simp [injT, injE, run]
      | lam fn => simp [injT, injE, run]
      | look k n =>
        simp only [injT, injE, hall k, if_true]
        cases hl : cfg.look k n with
        | none => simp [run, noLook, hl]
        | some v => simp [run, hl]
      | prim op args => simp only [injT, injE, run, hEs]
      | call fn args => simp only [injT, injE, run, hEs, hC]
      | callV f args => simp only [injT, injE, run, hE, hEs, hC]
    | exprs es =>
      cases es with
      | nil => simp [injT, injEs, run]
      | cons e es => simp only [injT, injEs, run, hE, hEs]
    | callFn n args cenv =>
      simp only [injT, run]
      rw [fn_injProg cfg fns noLook cfg.look n]
      cases Ctx.fn ⟨fns, cfg.look⟩ n with
      | none => rfl
      | some f =>
        simp only [Option.map_some, bindArgs_injF]
        cases bindArgs f args [] with
        | none => rfl
        | some penv =>
          simp only [injF, hB]
    | block ss =>
      cases ss with
      | nil => simp [injT, injSs, run]
      | cons s ss => simp only [injT, injSs, run, hS, hB]
    | loop x vals body =>
      cases vals with
      | nil => simp [injT, run]
      | cons i is => simp only [injT, run, hB, hL]
    | devCalls ss =>
      cases ss with
      | nil => simp [injT, injSs, run]
      | cons s ss =>
        cases s with
        | devcall f args kw =>
          simp only [injT, injSs, injS, run, hE, hEs, hD]
          -- the tweezer kernel is looked up in the injected table
          cases run fuel ⟨fns, cfg.look⟩ env (.expr f) with
          | error e => rfl
          | ok r =>
            obtain ⟨r, env1, evs0⟩ := r
            cases r with
            | val v =>
              cases v with
              | devfn k xt yt rev =>
                simp only []
                cases run fuel ⟨fns, cfg.look⟩ env (.exprs args) with
                | error e => rfl
                | ok r2 =>
                  obtain ⟨r2, env2, evs1⟩ := r2
                  cases r2 with
                  | vals vs =>
                    simp only []
                    rw [fn_injProg cfg fns noLook cfg.look k]
                    cases Ctx.fn ⟨fns, cfg.look⟩ k with
                    | none => rfl
                    | some kf =>
                      simp only [Option.map_some, bindArgs_injF]
                      cases bindArgs kf vs kw with
                      | none => rfl
                      | some penv => simp only [injF, hB]
                  | _ => rfl
              | _ => rfl
            | _ => rfl
        | assign x e => simp [injT, injSs, injS, run]
        | exprS e => simp [injT, injSs, injS, run]
        | eff op args => simp [injT, injSs, injS, run]
        | par body => simp [injT, injSs, injS, run]
        | ifS c t e => simp [injT, injSs, injS, run]
        | forS x a b st body => simp [injT, injSs, injS, run]
        | assertS c => simp [injT, injSs, injS, run]
        | ret e => simp [injT, injSs, injS, run]
    | stmt s =>
      cases s with
      | assign x e => simp only [injT, injS, run, hE]
      | exprS e => simp only [injT, injS, run, hE]
      | eff op args => simp only [injT, injS, run, hEs]
      | devcall f args kw =>
        have := hD env [.devcall f args kw]
        simp only [injSs, injS] at this
        simp only [injT, injS, run, this]
      | par body => simp only [injT, injS, run, hD]
      | ifS c t e =>
        simp only [injT, injS, run, hE]
        cases run fuel ⟨fns, cfg.look⟩ env (.expr c) with
        | error e => rfl
        | ok r =>
          obtain ⟨r, env1, evs0⟩ := r
          cases r with
          | val v =>
            simp only []
            cases truthy v with
            | none => rfl
            | some b => cases b <;> simp only [hB, if_true, if_false, Bool.false_eq_true]
          | _ => rfl
      | forS x a b st body =>
        have := hEs env [a, b, st]
        simp only [injEs] at this
        simp only [injT, injS, run, this, hL]
      | assertS c => simp only [injT, injS, run, hE]
      | ret e => simp only [injT, injS, run, hE]

end Shuttle.Lang
