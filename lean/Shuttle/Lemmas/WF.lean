import Shuttle.Lemmas.Tracer
import Shuttle.Model.Reverse
/-! Lemmas for C11: the tracer keeps its trace well formed; reversal preserves well-formedness. -/
namespace Shuttle

/-! ### segments -/

theorem sameShape_iff (l : List Grid) :
    sameShape l = true ↔ ∀ h, l.head? = some h → ∀ g ∈ l, g.shape = h.shape := by
  cases l with
  | nil => simp [sameShape]
  | cons a t =>
    simp only [sameShape, List.all_eq_true, beq_iff_eq, List.head?_cons, Option.some.injEq,
      List.mem_cons, forall_eq_or_imp]
    constructor
    · intro h x hx; subst hx; exact ⟨rfl, h⟩
    · intro h; exact (h a rfl).2

theorem segOK_iff (l : List Grid) :
    segOK l = true ↔ l ≠ [] ∧ ∀ h, l.head? = some h → ∀ g ∈ l, g.shape = h.shape := by
  simp [segOK, sameShape_iff, List.isEmpty_iff]

theorem segOK_single (g : Grid) : segOK [g] = true := by simp [segOK, sameShape]

theorem segOK_snoc (l : List Grid) (c g : Grid) (h : segOK l = true)
    (hc : l.getLast? = some c) (hs : c.shape = g.shape) : segOK (l ++ [g]) = true := by
  rw [segOK_iff] at h ⊢
  obtain ⟨hne, hall⟩ := h
  refine ⟨by simp, ?_⟩
  intro hd hhd x hx
  have hhd' : l.head? = some hd := by
    cases l with
    | nil => exact absurd rfl hne
    | cons a t => simpa using hhd
  simp only [List.mem_append, List.mem_singleton] at hx
  rcases hx with hx | hx
  · exact hall hd hhd' x hx
  · subst hx
    have hcm : c ∈ l := List.mem_of_getLast? hc
    rw [← hs]; exact hall hd hhd' c hcm

theorem head?_snoc_of_ne {α} (l : List α) (a : α) (h : l ≠ []) : (l ++ [a]).head? = l.head? := by
  cases l with
  | nil => exact absurd rfl h
  | cons x t => rfl

theorem segOK_reverse (l : List Grid) : segOK l.reverse = segOK l := by
  have key : ∀ l : List Grid, segOK l = true → segOK l.reverse = true := by
    intro l h
    rw [segOK_iff] at h ⊢
    obtain ⟨hne, hall⟩ := h
    refine ⟨by simpa using hne, ?_⟩
    intro hd hhd x hx
    obtain ⟨h0, hh0⟩ : ∃ h0, l.head? = some h0 := by
      cases l with
      | nil => exact absurd rfl hne
      | cons a t => exact ⟨a, rfl⟩
    have hdm : hd ∈ l := by
      have : hd ∈ l.reverse := List.mem_of_head? hhd
      simpa using this
    have hxm : x ∈ l := by simpa using hx
    rw [hall h0 hh0 x hxm, hall h0 hh0 hd hdm]
  cases h : segOK l with
  | true => exact key l h
  | false =>
    cases h' : segOK l.reverse with
    | false => rfl
    | true => have := key l.reverse h'; simp [h] at this

/-! ### the tracer keeps the trace well formed -/

/-- invariant of the tracer state -/
def TInv (s : TState) : Prop :=
  (s.trace = [] ∧ s.cur = none) ∨
  ∃ pre seg c, s.trace = pre ++ [.way seg] ∧ (pre.foldl wstep .start) ≠ .bad ∧
    wstep (pre.foldl wstep .start) (.way seg) = .seg seg ∧ segOK seg = true ∧
    seg.getLast? = some c ∧ s.cur = some c

theorem wstep_way_seg (σ : WSt) (ws : List Grid) (h : σ = .start ∨ ∃ s, σ = .seg s)
    (hok : segOK ws = true) : wstep σ (.way ws) = .seg ws := by
  rcases h with h | ⟨s, h⟩ <;> subst h <;> simp [wstep, hok]

theorem TInv_fold {s : TState} (h : TInv s) :
    s.trace.foldl wstep .start = .start ∨ ∃ seg, s.trace.foldl wstep .start = .seg seg := by
  rcases h with ⟨h, _⟩ | ⟨pre, seg, c, h, _, h2, _⟩
  · left; simp [h]
  · right; exact ⟨seg, by simp [h, List.foldl_append, h2]⟩

theorem step_TInv (static : Sel → Bool) (s s' : TState) (o : Op) (h : TInv s)
    (hs : step static s o = .ok s') : TInv s' := by
  cases o with
  | setLoc g =>
    simp [step, stepSet] at hs; subst hs
    right
    refine ⟨s.trace, [g], g, rfl, ?_, ?_, segOK_single g, rfl, rfl⟩
    · rcases TInv_fold h with h | ⟨x, h⟩ <;> simp [h]
    · exact wstep_way_seg _ _ (TInv_fold h) (segOK_single g)
  | turn on x y =>
    rcases h with ⟨ht, hc⟩ | ⟨pre, seg, c, ht, hnb, hw, hok, hl, hc⟩
    · simp [step, stepTurn, hc] at hs
    · simp [step, stepTurn, hc, recordedTag_eq] at hs; subst hs
      right
      refine ⟨s.trace ++ [.sw (refTag on x y) x y], [c], c, by simp, ?_, ?_, segOK_single c, rfl, rfl⟩
      · rw [ht, List.foldl_append, List.foldl_append]
        simp only [List.foldl_cons, List.foldl_nil]
        rw [hw]; simp [wstep]
      · rw [ht, List.foldl_append, List.foldl_append]
        simp only [List.foldl_cons, List.foldl_nil]
        rw [hw]; simp [wstep, segOK_single, hl]
  | move g =>
    rcases h with ⟨ht, hc⟩ | ⟨pre, seg, c, ht, hnb, hw, hok, hl, hc⟩
    · simp [step, stepMove, hc] at hs
    · simp only [step, stepMove, hc, ht, List.getLast?_append, List.getLast?_singleton,
        Option.some_or] at hs
      by_cases hsh : c.shape ≠ g.shape
      · simp [hsh] at hs
      · simp only [hsh, if_false, modifyLast_append_single, addWay] at hs
        simp at hs; subst hs
        have hsh' : c.shape = g.shape := by simpa using hsh
        have hne : seg ≠ [] := ((segOK_iff seg).1 hok).1
        have hok' := segOK_snoc seg c g hok hl hsh'
        right
        refine ⟨pre, seg ++ [g], g, rfl, hnb, ?_, hok', by simp, rfl⟩
        -- the state before the last segment is unchanged; only the segment grew at its end
        generalize pre.foldl wstep .start = σ at hw hnb
        cases σ with
        | start => simp [wstep, hok']
        | seg s0 => simp [wstep, hok']
        | sw s0 =>
          simp only [wstep] at hw ⊢
          by_cases hm : (segOK seg && s0.getLast? == seg.head?) = true
          · have : (segOK (seg ++ [g]) && s0.getLast? == (seg ++ [g]).head?) = true := by
              rw [head?_snoc_of_ne seg g hne]; simp at hm ⊢; exact ⟨hok', hm.2⟩
            rw [if_pos this]
          · simp [hm] at hw
        | bad => exact absurd rfl hnb

theorem run_TInv (static : Sel → Bool) (ops : List Op) : ∀ s s', TInv s →
    run static s ops = .ok s' → TInv s' := by
  induction ops with
  | nil => intro s s' h hr; simp [run] at hr; subst hr; exact h
  | cons o t ih =>
    intro s s' h hr
    simp only [run] at hr
    cases hs : step static s o with
    | error e => simp [hs] at hr
    | ok s₁ => simp [hs] at hr; exact ih s₁ s' (step_TInv static s s₁ o h hs) hr

theorem TInv_init : TInv .init := Or.inl ⟨rfl, rfl⟩

theorem TInv_WF {s : TState} (h : TInv s) : WF s.trace = true := by
  unfold WF
  rcases TInv_fold h with h | ⟨x, h⟩ <;> simp [h, WSt.accept]

end Shuttle
