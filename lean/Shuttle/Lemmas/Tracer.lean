import Shuttle.Model.Tracer
/-! Helper lemmas for C01 / C11 / C15: the simulation between the tracer model and the
reference AOD semantics. -/
namespace Shuttle
open Gen.ActionTables (Tag)

theorem modifyLast_append_single {α} (f : α → α) (l : List α) (a : α) :
    modifyLast f (l ++ [a]) = l ++ [f a] := by
  induction l with
  | nil => rfl
  | cons h t ih =>
    cases t with
    | nil => simp [modifyLast]
    | cons h' t' =>
      simp only [List.cons_append] at ih ⊢
      simp [modifyLast, ih]

/-- The regenerated desugar and tracer tables, composed, record exactly the on/off kind
of the source call and the run-time form of each selector — whatever static
classification `(sx, sy)` type inference came up with. -/
theorem tables_faithful : ∀ on sx sy rx ry : Bool,
    ((Gen.ActionTables.desugar.lookup (on, sx, sy)).bind
      fun st => Gen.ActionTables.tracer.lookup (st, rx, ry)) = some ⟨on, rx, ry⟩ := by
  decide

theorem recordedTag_eq (on sx sy : Bool) (x y : Sel) :
    recordedTag on sx sy x y = some (refTag on x y) := by
  unfold recordedTag desugarTag tracerTag refTag
  exact tables_faithful on sx sy x.isSlice y.isSlice

/-- abstraction relation between tracer state and reference state -/
def Rel (s : TState) : Option RState → Prop
  | none => s.trace = [] ∧ s.cur = none
  | some r => s.trace = r.done ++ [.way r.seg] ∧ r.seg.getLast? = s.cur ∧ r.seg ≠ []

theorem step_sim (static : Sel → Bool) (s : TState) (r : Option RState) (o : Op) (h : Rel s r) :
    match step static s o, rstep r o with
    | .ok s', some r' => Rel s' r'
    | .error _, none => True
    | _, _ => False := by
  cases r with
  | none =>
    obtain ⟨ht, hc⟩ := h
    cases o <;> simp [step, stepSet, stepMove, stepTurn, rstep, hc, ht, Rel]
  | some r =>
    obtain ⟨ht, hc, hne⟩ := h
    cases o with
    | setLoc g => simp [step, stepSet, rstep, Rel, ht]
    | turn on x y =>
      cases hcur : s.cur with
      | none => simp [hcur] at hc; simp [step, stepTurn, rstep, hcur, hc]
      | some c =>
        simp [hcur] at hc
        simp [step, stepTurn, rstep, hcur, hc, Rel, ht, recordedTag_eq]
    | move g =>
      cases hcur : s.cur with
      | none => simp [hcur] at hc; simp [step, stepMove, rstep, hcur, hc]
      | some c =>
        simp [hcur] at hc
        simp only [step, stepMove, rstep, hcur, hc, ht, List.getLast?_append, List.getLast?_singleton]
        simp only [Option.some_or]
        by_cases hs : c.shape ≠ g.shape
        · simp [hs]
        · simp [hs, Rel, modifyLast_append_single, addWay]

theorem run_sim (static : Sel → Bool) (ops : List Op) : ∀ (s : TState) (r : Option RState), Rel s r →
    match run static s ops, rrun r ops with
    | .ok s', some r' => Rel s' r'
    | .error _, none => True
    | _, _ => False := by
  induction ops with
  | nil => intro s r h; simpa [run, rrun] using h
  | cons o os ih =>
    intro s r h
    have := step_sim static s r o h
    simp only [run, rrun]
    cases hs : step static s o <;> cases hr : rstep r o <;> simp [hs, hr] at this ⊢
    exact ih _ _ this

theorem rel_init : Rel .init none := ⟨rfl, rfl⟩

theorem rel_trace {s : TState} {r : Option RState} (h : Rel s r) : s.trace = rout r := by
  cases r with
  | none => exact h.1
  | some r => exact h.1

end Shuttle
