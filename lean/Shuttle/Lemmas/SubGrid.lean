import Shuttle.Model.Grid
import Shuttle.Lemmas.BBox
/-! The positions of a sub-grid with ascending, in-range indices are the selected positions of
its parent (hence a subset of the parent's sites). -/
namespace Shuttle

theorem sumRat_append (a b : List Rat) : sumRat (a ++ b) = sumRat a + sumRat b := by
  induction a with
  | nil => simp only [List.nil_append, sumRat, List.foldl_nil]; grind
  | cons x xs ih =>
    rw [List.cons_append, sumRat_cons, sumRat_cons, ih]; grind

/-- prefix sums: the position with index `i` on an axis starting at `p` -/
def posAt (p : Rat) (sp : List Rat) (i : Nat) : Rat := p + sumRat (sp.take i)

theorem axisPositions_eq_posAt (sp : List Rat) : ∀ p : Rat,
    Grid.axisPositions (some p) sp = (List.range (sp.length + 1)).map (posAt p sp) := by
  induction sp with
  | nil => intro p; simp [Grid.axisPositions, posAt, sumRat]; grind
  | cons s t ih =>
    intro p
    simp only [Grid.axisPositions, ih (p + s)]
    rw [List.length_cons, List.range_succ_eq_map (n := t.length + 1)]
    simp only [List.map_cons, List.map_map]
    congr 1
    · simp [posAt, sumRat]; grind
    · apply List.map_congr_left
      intro i _
      simp only [Function.comp_apply, posAt, List.take_succ_cons, sumRat_cons]
      grind

theorem adjustBound_id (len : Nat) (b : Nat) (h : b ≤ len) : adjustBound (len : Int) 1 (b : Int) = (b : Int) := by
  unfold adjustBound
  have h1 : ¬ ((b : Int) < 0) := by omega
  simp only [h1, if_false]
  by_cases h2 : (b : Int) ≥ (len : Int)
  · simp only [h2, if_true]; have : ¬ ((1 : Int) < 0) := by omega
    simp only [this, if_false]; omega
  · simp [h2]

theorem pySlice1_prefix (sp : List Rat) (b : Nat) (h : b ≤ sp.length) :
    pySlice1 sp none (some (b : Int)) = sp.take b := by
  simp only [pySlice1, adjustBound_id sp.length b h]
  simp

theorem pySlice1_range (sp : List Rat) (a b : Nat) (hab : a ≤ b) (h : b ≤ sp.length) :
    pySlice1 sp (some (a : Int)) (some (b : Int)) = (sp.drop a).take (b - a) := by
  simp only [pySlice1, adjustBound_id sp.length b h, adjustBound_id sp.length a (Nat.le_trans hab h)]
  have : ((b : Int) - (a : Int)).toNat = b - a := by omega
  simp [this]

theorem sum_slice (sp : List Rat) (a b : Nat) (hab : a ≤ b) (h : b ≤ sp.length) :
    sumRat ((sp.drop a).take (b - a)) = sumRat (sp.take b) - sumRat (sp.take a) := by
  have : sp.take b = sp.take a ++ (sp.drop a).take (b - a) := by
    have hb : b = a + (b - a) := by omega
    conv => lhs; rw [hb]
    rw [List.take_add]
  rw [this, sumRat_append]; grind

/-- ascending (non-strictly) list of naturals all ≤ `n` -/
def AscLe (n : Nat) : List Nat → Prop
  | [] => True
  | [a] => a ≤ n
  | a :: b :: t => a ≤ b ∧ AscLe n (b :: t)

theorem AscLe_head {n a} {t : List Nat} (h : AscLe n (a :: t)) : a ≤ n := by
  induction t generalizing a with
  | nil => exact h
  | cons b t ih => exact Nat.le_trans h.1 (ih h.2)

/-- spacings and positions of a view along one axis -/
theorem sub_axis (sp : List Rat) (p : Rat) : ∀ (a : Nat) (t : List Nat), AscLe sp.length (a :: t) →
    Grid.axisPositions (some (posAt p sp a)) (Grid.subSpacing sp ((a :: t).map Int.ofNat)) =
      (a :: t).map (posAt p sp) := by
  intro a t
  induction t generalizing a with
  | nil => intro _; simp [Grid.subSpacing, Grid.axisPositions]
  | cons b t ih =>
    intro h
    obtain ⟨hab, hrest⟩ := h
    have hb : b ≤ sp.length := AscLe_head hrest
    simp only [List.map_cons, Grid.subSpacing, Grid.axisPositions]
    have hstep : posAt p sp a + sumRat (pySlice1 sp (some (Int.ofNat a)) (some (Int.ofNat b))) = posAt p sp b := by
      have := pySlice1_range sp a b hab hb
      simp only [Int.ofNat_eq_natCast] at this ⊢
      rw [this, sum_slice sp a b hab hb]
      simp only [posAt]; grind
    rw [hstep]
    have := ih b hrest
    simp only [List.map_cons] at this
    rw [this]

theorem subInit_eq (sp : List Rat) (p : Rat) (a : Nat) (t : List Nat) (h : a ≤ sp.length) :
    Grid.subInit (some p) sp ((a :: t).map Int.ofNat) = some (posAt p sp a) := by
  simp only [List.map_cons, Grid.subInit, Int.ofNat_eq_natCast, pySlice1_prefix sp a h, posAt]

/-- **positions of a view**: with ascending in-range index lists on both axes the x / y
positions of `g.subGrid xi yi` are the selected positions of `g` -/
theorem subGrid_positions (g v : Grid) (px py : Rat) (xi yi : List Nat)
    (hx : g.xInit = some px) (hy : g.yInit = some py)
    (hxi : AscLe g.xSpacing.length xi) (hyi : AscLe g.ySpacing.length yi)
    (h : g.subGrid (xi.map Int.ofNat) (yi.map Int.ofNat) = some v) :
    v.xPositions = xi.map (posAt px g.xSpacing) ∧ v.yPositions = yi.map (posAt py g.ySpacing) := by
  unfold Grid.subGrid at h
  cases xi with
  | nil => simp at h
  | cons a t =>
    cases yi with
    | nil => simp at h
    | cons b u =>
      simp only [List.map_cons, List.isEmpty_cons, Bool.false_eq_true, or_self, if_false, Option.some.injEq] at h
      subst h
      have e1 := subInit_eq g.xSpacing px a t (AscLe_head hxi)
      have e2 := subInit_eq g.ySpacing py b u (AscLe_head hyi)
      simp only [List.map_cons] at e1 e2
      constructor
      · simp only [Grid.xPositions, hx, e1]
        have := sub_axis g.xSpacing px a t hxi
        simpa only [List.map_cons] using this
      · simp only [Grid.yPositions, hy, e2]
        have := sub_axis g.ySpacing py b u hyi
        simpa only [List.map_cons] using this

theorem posAt_mem (p : Rat) (sp : List Rat) (i : Nat) (h : i ≤ sp.length) :
    posAt p sp i ∈ Grid.axisPositions (some p) sp := by
  rw [axisPositions_eq_posAt]
  exact List.mem_map.2 ⟨i, by simp; omega, rfl⟩

theorem AscLe_all {n : Nat} : ∀ {l : List Nat}, AscLe n l → ∀ i ∈ l, i ≤ n
  | [], _, i, hi => by simp at hi
  | [a], h, i, hi => by simp at hi; subst hi; exact h
  | a :: b :: t, h, i, hi => by
    simp only [List.mem_cons] at hi
    rcases hi with rfl | hi
    · exact AscLe_head h
    · exact AscLe_all h.2 i (by simpa using hi)

/-- **every site of a view is a site of its parent** (ascending in-range indices) -/
theorem subGrid_sites_subset (g v : Grid) (px py : Rat) (xi yi : List Nat)
    (hx : g.xInit = some px) (hy : g.yInit = some py)
    (hxi : AscLe g.xSpacing.length xi) (hyi : AscLe g.ySpacing.length yi)
    (h : g.subGrid (xi.map Int.ofNat) (yi.map Int.ofNat) = some v) :
    ∀ s ∈ v.positions, s ∈ g.positions := by
  obtain ⟨ex, ey⟩ := subGrid_positions g v px py xi yi hx hy hxi hyi h
  intro s hs
  simp only [Grid.positions, List.mem_flatMap, List.mem_map] at hs ⊢
  obtain ⟨x, hxm, y, hym, rfl⟩ := hs
  rw [ex] at hxm; rw [ey] at hym
  obtain ⟨i, hi, rfl⟩ := List.mem_map.1 hxm
  obtain ⟨j, hj, rfl⟩ := List.mem_map.1 hym
  refine ⟨_, ?_, _, ?_, rfl⟩
  · simpa [Grid.xPositions, hx] using posAt_mem px g.xSpacing i (AscLe_all hxi i hi)
  · simpa [Grid.yPositions, hy] using posAt_mem py g.ySpacing j (AscLe_all hyi j hj)

end Shuttle
