import Shuttle.Lemmas.AOD
/-!
# Where the spots of a grid are: placement by tone id
-/
namespace Shuttle.AOD
open Shuttle

/-- position of tone `id` along one axis -/
def lookupAxis (tones : List Int) (pos : List Rat) (id : Int) : Rat :=
  ((tones.idxOf? id).bind (pos[·]?)).getD 0

/-- where spot `sp` sits on grid `g` -/
def place (xt yt : List Int) (g : Grid) (sp : Spot) : Site :=
  (lookupAxis xt g.xPositions sp.1, lookupAxis yt g.yPositions sp.2)

theorem axisPositions_length : ∀ (sp : List Rat) (p : Rat), (Grid.axisPositions (some p) sp).length = sp.length + 1 := by
  intro sp
  induction sp with
  | nil => intro p; simp [Grid.axisPositions]
  | cons s ss ih => intro p; simp [Grid.axisPositions, ih]

theorem xPositions_length (g : Grid) : g.xPositions.length = g.numX := by
  unfold Grid.xPositions Grid.numX
  cases h : g.xInit with
  | none => simp [Grid.axisPositions]
  | some p => simp [axisPositions_length]

theorem yPositions_length (g : Grid) : g.yPositions.length = g.numY := by
  unfold Grid.yPositions Grid.numY
  cases h : g.yInit with
  | none => simp [Grid.axisPositions]
  | some p => simp [axisPositions_length]

theorem idxOf_bind_some (id : Int) : ∀ (tones : List Int) (pos : List Rat), id ∈ tones → tones.length = pos.length →
    ∃ p, (tones.idxOf? id).bind (pos[·]?) = some p := by
  intro tones
  induction tones with
  | nil => intro pos h; simp at h
  | cons a t ih =>
    intro pos hm hl
    cases pos with
    | nil => simp at hl
    | cons p q =>
      by_cases e : a = id
      · subst e; exact ⟨p, by simp [List.idxOf?_cons]⟩
      · have hm' : id ∈ t := by
          rcases List.mem_cons.1 hm with h | h
          · exact absurd h.symm e
          · exact h
        obtain ⟨r, hr⟩ := ih q hm' (by simpa using hl)
        refine ⟨r, ?_⟩
        simp only [List.idxOf?_cons, beq_iff_eq, e, if_false]
        cases hi : t.idxOf? id with
        | none => simp [hi] at hr
        | some k => simpa [hi] using hr

theorem spotPos_place (xt yt : List Int) (g : Grid) (sp : Spot) (hs : shapeOK xt yt g = true)
    (hx : sp.1 ∈ xt) (hy : sp.2 ∈ yt) : spotPos xt yt g sp = some (place xt yt g sp) := by
  simp only [shapeOK, Bool.and_eq_true, beq_iff_eq] at hs
  obtain ⟨px, hpx⟩ := idxOf_bind_some sp.1 xt g.xPositions hx (by rw [xPositions_length]; exact hs.1.symm)
  obtain ⟨py, hpy⟩ := idxOf_bind_some sp.2 yt g.yPositions hy (by rw [yPositions_length]; exact hs.2.symm)
  unfold spotPos place lookupAxis
  rw [hpx, hpy]
  cases hi : xt.idxOf? sp.1 with
  | none => simp [hi] at hpx
  | some i =>
    cases hj : yt.idxOf? sp.2 with
    | none => simp [hj] at hpy
    | some j =>
      simp only [hi, hj, Option.bind_some] at hpx hpy
      simp [hpx, hpy]

theorem map_lookupAxis : ∀ (tones : List Int) (pos : List Rat), tones.Nodup → tones.length = pos.length →
    tones.map (lookupAxis tones pos) = pos := by
  intro tones
  induction tones with
  | nil => intro pos _ hl; cases pos with | nil => rfl | cons _ _ => simp at hl
  | cons a t ih =>
    intro pos hn hl
    cases pos with
    | nil => simp at hl
    | cons p q =>
      have hn' := List.nodup_cons.1 hn
      simp only [List.map_cons]
      congr 1
      · simp [lookupAxis, List.idxOf?_cons]
      · refine Eq.trans ?_ (ih q hn'.2 (by simpa using hl))
        apply List.map_congr_left
        intro b hb
        have hne : a ≠ b := by intro e; subst e; exact hn'.1 hb
        simp only [lookupAxis, List.idxOf?_cons, beq_iff_eq, hne, if_false]
        cases hi : t.idxOf? b with
        | none => simp
        | some k => simp

/-- with every tone selected the placed spots are exactly the grid's positions, in the grid's order -/
theorem cross_map_place (xt yt : List Int) (g : Grid) (hs : shapeOK xt yt g = true) (hxn : xt.Nodup) (hyn : yt.Nodup) :
    (cross xt yt).map (place xt yt g) = g.positions := by
  simp only [shapeOK, Bool.and_eq_true, beq_iff_eq] at hs
  have ex := map_lookupAxis xt g.xPositions hxn (by rw [xPositions_length]; exact hs.1.symm)
  have ey := map_lookupAxis yt g.yPositions hyn (by rw [yPositions_length]; exact hs.2.symm)
  unfold cross Grid.positions place
  rw [List.map_flatMap]
  conv => rhs; rw [← ex, ← ey]
  rw [List.flatMap_map]
  simp [List.map_map, Function.comp_def]

end Shuttle.AOD
