import Shuttle.Model.Lang
/-!
# The reference evaluator is monotone in its fuel

If a run succeeds with some fuel it succeeds with the same result with any larger fuel: the
evaluator defines one partial function (value, environment, events) of a task, and
"for every fuel on which the evaluator succeeds" in the theorems of C04/C06/C09/C16 never
speaks about two different results.
-/
namespace Shuttle.Lang

theorem run_mono_succ (c : Ctx) : ∀ (k : Nat) (env : Env) (t : Task) (r : Res × Env × List Event),
    run k c env t = .ok r → run (k + 1) c env t = .ok r := by
  intro k
  induction k with
  | zero => intro env t r h; simp [run] at h
  | succ k ih =>
    intro env t r h
    cases t with
    | expr e =>
      cases e with
      | lit v => simpa [run] using h
      | var x => simpa [run] using h
      | look kd n => simpa [run] using h
      | lam fn => simpa [run] using h
      | prim op args =>
        rw [run] at h ⊢
        split at h
        · rename_i vs e1 evs1 h1
          rw [ih _ _ _ h1]
          exact h
        · cases h
        · cases h
      | call fn args =>
        rw [run] at h ⊢
        split at h
        · rename_i vs e1 evs1 h1
          rw [ih _ _ _ h1]
          try simp only
          split at h
          · rename_i v e2 evs2 h2
            rw [ih _ _ _ h2]
            exact h
          · cases h
          · cases h
        · cases h
        · cases h
      | callV f args =>
        rw [run] at h ⊢
        split at h
        · rename_i fn cenv e0 evs0 h0
          rw [ih _ _ _ h0]
          try simp only
          split at h
          · rename_i vs e1 evs1 h1
            rw [ih _ _ _ h1]
            try simp only
            split at h
            · rename_i v e2 evs2 h2
              rw [ih _ _ _ h2]
              exact h
            · cases h
            · cases h
          · cases h
          · cases h
        · cases h
        · cases h
    | exprs es =>
      cases es with
      | nil => simpa [run] using h
      | cons e es =>
        rw [run] at h ⊢
        split at h
        · rename_i v e1 evs1 h1
          rw [ih _ _ _ h1]
          try simp only
          split at h
          · rename_i vs e2 evs2 h2
            rw [ih _ _ _ h2]
            exact h
          · cases h
          · cases h
        · cases h
        · cases h
    | callFn name args cenv =>
      rw [run] at h ⊢
      split at h
      · cases h
      · rename_i f hf
        try simp only [hf]
        split at h
        · cases h
        · rename_i penv hb
          try simp only [hb]
          split at h
          · rename_i v e1 evs1 h1
            rw [ih _ _ _ h1]
            exact h
          · rename_i e1 evs1 h1
            rw [ih _ _ _ h1]
            exact h
          · cases h
          · cases h
    | block ss =>
      cases ss with
      | nil => simpa [run] using h
      | cons s ss =>
        rw [run] at h ⊢
        split at h
        · rename_i e1 evs1 h1
          rw [ih _ _ _ h1]
          try simp only
          split at h
          · rename_i r' e2 evs2 h2
            rw [ih _ _ _ h2]
            exact h
          · cases h
        · rename_i v e1 evs1 h1
          rw [ih _ _ _ h1]
          exact h
        · cases h
        · cases h
    | loop x vals body =>
      cases vals with
      | nil => simpa [run] using h
      | cons i is =>
        rw [run] at h ⊢
        split at h
        · rename_i e1 evs1 h1
          rw [ih _ _ _ h1]
          try simp only
          split at h
          · rename_i r' e2 evs2 h2
            rw [ih _ _ _ h2]
            exact h
          · cases h
        · rename_i v e1 evs1 h1
          rw [ih _ _ _ h1]
          exact h
        · cases h
        · cases h
    | devCalls ss =>
      cases ss with
      | nil => simpa [run] using h
      | cons s ss =>
        cases s with
        | devcall f args kw =>
          rw [run] at h ⊢
          split at h
          · rename_i k' xt yt rev e0 evs0 h0
            rw [ih _ _ _ h0]
            try simp only
            split at h
            · rename_i vs e1 evs1 h1
              rw [ih _ _ _ h1]
              try simp only
              split at h
              · cases h
              · rename_i kf hkf
                try simp only [hkf]
                split at h
                · cases h
                · rename_i penv hb
                  try simp only [hb]
                  split at h
                  · rename_i rr ee kevs h2
                    rw [ih _ _ _ h2]
                    try simp only
                    split at h
                    · cases h
                    · rename_i p hp
                      try simp only [hp]
                      split at h
                      · rename_i ps e3 evs3 h3
                        rw [ih _ _ _ h3]
                        exact h
                      · cases h
                      · cases h
                  · cases h
            · cases h
            · cases h
          · cases h
          · cases h
        | _ => simp [run] at h
    | stmt s =>
      cases s with
      | assign x e =>
        rw [run] at h ⊢
        split at h
        · rename_i v e1 evs1 h1
          rw [ih _ _ _ h1]; exact h
        · cases h
        · cases h
      | exprS e =>
        rw [run] at h ⊢
        split at h
        · rename_i v e1 evs1 h1
          rw [ih _ _ _ h1]; exact h
        · cases h
        · cases h
      | eff op args =>
        rw [run] at h ⊢
        split at h
        · rename_i vs e1 evs1 h1
          rw [ih _ _ _ h1]; exact h
        · cases h
        · cases h
      | devcall f args kw =>
        rw [run] at h ⊢
        split at h
        · rename_i p e1 evs1 h1
          rw [ih _ _ _ h1]; exact h
        · cases h
        · cases h
      | par body =>
        rw [run] at h ⊢
        split at h
        · rename_i ps e1 evs1 h1
          rw [ih _ _ _ h1]; exact h
        · cases h
        · cases h
      | ifS cnd t e =>
        rw [run] at h ⊢
        split at h
        · rename_i v e1 evs1 h1
          rw [ih _ _ _ h1]
          try simp only
          split at h
          · cases h
          · rename_i b hb
            try simp only [hb]
            split at h
            · rename_i r' e2 evs2 h2
              rw [ih _ _ _ h2]; exact h
            · cases h
        · cases h
        · cases h
      | forS x a b st body =>
        rw [run] at h ⊢
        split at h
        · rename_i va vb vs e1 evs1 h1
          rw [ih _ _ _ h1]
          try simp only
          split at h
          · cases h
          · rename_i is his
            try simp only [his]
            split at h
            · rename_i r' e2 evs2 h2
              rw [ih _ _ _ h2]; exact h
            · cases h
        · cases h
        · cases h
      | assertS cnd =>
        rw [run] at h ⊢
        split at h
        · rename_i v e1 evs1 h1
          rw [ih _ _ _ h1]; exact h
        · cases h
        · cases h
      | ret e =>
        rw [run] at h ⊢
        split at h
        · rename_i v e1 evs1 h1
          rw [ih _ _ _ h1]; exact h
        · cases h
        · cases h

/-- more fuel never changes a successful result -/
theorem run_mono (c : Ctx) (k k' : Nat) (hk : k ≤ k') (env : Env) (t : Task) (r : Res × Env × List Event)
    (h : run k c env t = .ok r) : run k' c env t = .ok r := by
  induction hk with
  | refl => exact h
  | step _ ih => exact run_mono_succ c _ env t r ih

/-- two successful runs of one task agree, whatever their fuels -/
theorem run_deterministic (c : Ctx) (k k' : Nat) (env : Env) (t : Task) (r r' : Res × Env × List Event)
    (h : run k c env t = .ok r) (h' : run k' c env t = .ok r') : r = r' := by
  have h1 := run_mono c k (max k k') (Nat.le_max_left _ _) env t r h
  have h2 := run_mono c k' (max k k') (Nat.le_max_right _ _) env t r' h'
  rw [h1] at h2
  exact Except.ok.inj h2

end Shuttle.Lang
