import Shuttle.Model.Layout
/-! Lemmas for the bounding box: positions of a grid axis lie between its first and last
position; running min/max are tight. -/
namespace Shuttle
open Layout

theorem foldl_add (l : List Rat) : ∀ a : Rat, l.foldl (· + ·) a = a + l.foldl (· + ·) 0 := by
  induction l with
  | nil => intro a; simp only [List.foldl_nil]; grind
  | cons x t ih =>
    intro a
    simp only [List.foldl_cons]
    rw [ih (a + x), ih (0 + x)]
    grind

theorem sumRat_cons (a : Rat) (l : List Rat) : sumRat (a :: l) = a + sumRat l := by
  unfold sumRat
  simp only [List.foldl_cons]
  rw [foldl_add]
  grind

theorem sumRat_nonneg (l : List Rat) (h : ∀ s ∈ l, 0 ≤ s) : 0 ≤ sumRat l := by
  induction l with
  | nil => simp [sumRat]
  | cons a t ih =>
    rw [sumRat_cons]
    have h1 : 0 ≤ a := h a (by simp)
    have h2 : 0 ≤ sumRat t := ih (fun s hs => h s (by simp [hs]))
    grind

/-- every position of an axis lies between the first and the last one -/
theorem axisPositions_bounds (sp : List Rat) : ∀ p : Rat, (∀ s ∈ sp, 0 ≤ s) →
    (∀ x ∈ Grid.axisPositions (some p) sp, p ≤ x ∧ x ≤ p + sumRat sp) ∧
    p ∈ Grid.axisPositions (some p) sp ∧ (p + sumRat sp) ∈ Grid.axisPositions (some p) sp := by
  induction sp with
  | nil => intro p _; simp only [Grid.axisPositions, sumRat, List.foldl_nil, List.mem_singleton, forall_eq]; grind
  | cons s t ih =>
    intro p h
    have hs : 0 ≤ s := h s (by simp)
    have ht : ∀ x ∈ t, 0 ≤ x := fun x hx => h x (by simp [hx])
    obtain ⟨h1, h2, h3⟩ := ih (p + s) ht
    have hsum := sumRat_nonneg t ht
    rw [sumRat_cons]
    simp only [Grid.axisPositions, List.mem_cons, forall_eq_or_imp, true_or, true_and]
    refine ⟨⟨by grind, ?_⟩, ?_⟩
    · intro x hx
      obtain ⟨hx1, hx2⟩ := h1 x hx
      grind
    · right
      have : p + (s + sumRat t) = p + s + sumRat t := by grind
      rw [this]; exact h3

theorem foldl_optMin_some (l : List Rat) : ∀ a : Rat,
    ∃ m, l.foldl optMin (some a) = some m ∧ m ≤ a ∧ (∀ v ∈ l, m ≤ v) ∧ (m = a ∨ m ∈ l) := by
  induction l with
  | nil => intro a; exact ⟨a, rfl, by grind, by simp, Or.inl rfl⟩
  | cons x t ih =>
    intro a
    simp only [List.foldl_cons, optMin]
    obtain ⟨m, h1, h2, h3, h4⟩ := ih (min a x)
    refine ⟨m, h1, by grind, ?_, ?_⟩
    · intro v hv
      simp only [List.mem_cons] at hv
      rcases hv with rfl | hv
      · grind
      · exact h3 v hv
    · rcases h4 with h4 | h4
      · by_cases hax : a ≤ x
        · left; grind
        · right; simp only [List.mem_cons]; left; grind
      · right; simp [h4]

/-- the running minimum is a lower bound and is attained -/
theorem foldMin_spec (l : List Rat) (m : Rat) (h : foldMin l = some m) :
    (∀ v ∈ l, m ≤ v) ∧ m ∈ l := by
  cases l with
  | nil => simp [foldMin] at h
  | cons x t =>
    simp only [foldMin, List.foldl_cons, optMin] at h
    obtain ⟨m', h1, h2, h3, h4⟩ := foldl_optMin_some t x
    rw [h1] at h; cases h
    refine ⟨?_, ?_⟩
    · intro v hv
      simp only [List.mem_cons] at hv
      rcases hv with rfl | hv
      · exact h2
      · exact h3 v hv
    · rcases h4 with h4 | h4 <;> simp [h4]

theorem foldl_optMax_some (l : List Rat) : ∀ a : Rat,
    ∃ m, l.foldl optMax (some a) = some m ∧ a ≤ m ∧ (∀ v ∈ l, v ≤ m) ∧ (m = a ∨ m ∈ l) := by
  induction l with
  | nil => intro a; exact ⟨a, rfl, by grind, by simp, Or.inl rfl⟩
  | cons x t ih =>
    intro a
    simp only [List.foldl_cons, optMax]
    obtain ⟨m, h1, h2, h3, h4⟩ := ih (max a x)
    refine ⟨m, h1, by grind, ?_, ?_⟩
    · intro v hv
      simp only [List.mem_cons] at hv
      rcases hv with rfl | hv
      · grind
      · exact h3 v hv
    · rcases h4 with h4 | h4
      · by_cases hax : x ≤ a
        · left; grind
        · right; simp only [List.mem_cons]; left; grind
      · right; simp [h4]

theorem foldMax_spec (l : List Rat) (m : Rat) (h : foldMax l = some m) :
    (∀ v ∈ l, v ≤ m) ∧ m ∈ l := by
  cases l with
  | nil => simp [foldMax] at h
  | cons x t =>
    simp only [foldMax, List.foldl_cons, optMax] at h
    obtain ⟨m', h1, h2, h3, h4⟩ := foldl_optMax_some t x
    rw [h1] at h; cases h
    refine ⟨?_, ?_⟩
    · intro v hv
      simp only [List.mem_cons] at hv
      rcases hv with rfl | hv
      · exact h2
      · exact h3 v hv
    · rcases h4 with h4 | h4 <;> simp [h4]

end Shuttle
