import Shuttle.Lemmas.AODPlace
import Shuttle.Model.StdMoves
/-!
# Lemmas about the library move models: selectors over `ilist.range` tones, reference traces
-/
namespace Shuttle.StdMoves
open Shuttle Shuttle.AOD
open Shuttle.Gen.ActionTables (Tag)

theorem progression_one (k : Nat) : ∀ (m : Nat), (progression (m : Int) 1 k).map Int.toNat = List.range' m k := by
  induction k with
  | zero => intro m; simp [progression]
  | succ k ih =>
    intro m
    simp only [progression, List.map_cons, Int.toNat_natCast, List.range'_succ]
    congr 1
    have : (m : Int) + 1 = ((m + 1 : Nat) : Int) := by omega
    rw [this]
    exact ih (m + 1)

theorem indices_all (n : Nat) : (⟨none, none, none⟩ : PySlice).indices n = some (List.range n) := by
  unfold PySlice.indices
  simp only [Option.getD_none]
  have h1 : ¬ ((1 : Int) = 0) := by decide
  have h2 : ¬ ((1 : Int) < 0) := by decide
  have h3 : (1 : Int) > 0 := by decide
  simp only [h1, h2, h3, if_false, if_true]
  congr 1
  by_cases hn : (0 : Int) < (n : Int)
  · simp only [hn, if_true]
    have : (((n : Int) - 0 - 1) / 1 + 1).toNat = n := by
      rw [Int.ediv_one]; omega
    rw [this]
    have := progression_one n 0
    simpa [List.range_eq_range'] using this
  · have : n = 0 := by omega
    subst this
    simp [progression]

theorem filterMap_getElem?_range {α : Type} : ∀ (l : List α), (List.range l.length).filterMap (l[·]?) = l := by
  intro l
  induction l with
  | nil => simp
  | cons a t ih =>
    rw [List.length_cons, List.range_succ_eq_map, List.filterMap_cons]
    simp only [List.getElem?_cons_zero, List.filterMap_map]
    congr 1

theorem select_all (tones : List Int) : select tones ALL = some tones := by
  simp [select, ALL, indices_all, filterMap_getElem?_range]

theorem tonesOf_nodup (n : Nat) : (tonesOf n).Nodup := by
  unfold tonesOf
  apply List.Pairwise.map (R := fun a b => a ≠ b)
  · intro a b h e; exact h (Int.ofNat.inj e)
  · exact List.nodup_range

theorem tonesOf_length (n : Nat) : (tonesOf n).length = n := by simp [tonesOf]

/-- a run of `move`s extends the open segment -/
theorem rrun_moves : ∀ (gs : List Grid) (done : List Action) (seg : List Grid) (c : Grid) (tail : List Op),
    seg.getLast? = some c → (∀ g ∈ gs, g.shape = c.shape) →
    rrun (some ⟨done, seg⟩) (gs.map Op.move ++ tail) = rrun (some ⟨done, seg ++ gs⟩) tail := by
  intro gs
  induction gs with
  | nil => intro done seg c tail _ _; simp
  | cons g gs ih =>
    intro done seg c tail hc hs
    have hg : g.shape = c.shape := hs g (by simp)
    simp only [List.map_cons, List.cons_append, rrun, rstep, hc]
    have : ¬ (c.shape ≠ g.shape) := by simp [hg]
    simp only [this, if_false]
    rw [ih done (seg ++ [g]) g tail (by simp) (by intro g' h'; rw [hs g' (by simp [h']), hg])]
    simp

/-- set, switch on, then a run of moves: the trace of a kernel that picks up and carries -/
theorem pick_carry_refPath (g0 : Grid) (gs : List Grid) (sx sy : Sel) (hs : ∀ g ∈ gs, g.shape = g0.shape) :
    refPath ([Op.setLoc g0, Op.turn true sx sy] ++ gs.map Op.move) =
      some [.way [g0], .sw (refTag true sx sy) sx sy, .way (g0 :: gs)] := by
  unfold refPath
  simp only [List.cons_append, List.nil_append, rrun, rstep, List.getLast?_singleton]
  have := rrun_moves gs [.way [g0], .sw (refTag true sx sy) sx sy] [g0] g0 [] (by simp) hs
  simp only [List.append_nil] at this
  rw [this]
  simp [rrun, rout]

end Shuttle.StdMoves
