import Shuttle.Lemmas.SubGrid
/-! Views of views (`SubGrid.get_view` re-indexes through the parent): with ascending in-range
index lists the sites of the new view are sites of the view it was taken from. -/
namespace Shuttle

/-- a grid value that is either a plain grid with both axes present, or a view of such a
grid through ascending in-range index lists (what every view built from ascending index
lists looks like) -/
def WFView (gv : GridV) : Prop :=
  match gv.view with
  | none => ∃ px py, gv.val.xInit = some px ∧ gv.val.yInit = some py
  | some (p, pxi, pyi) =>
    ∃ px py nxs nys, p.xInit = some px ∧ p.yInit = some py ∧
      pxi = nxs.map Int.ofNat ∧ pyi = nys.map Int.ofNat ∧
      AscLe p.xSpacing.length nxs ∧ AscLe p.ySpacing.length nys ∧ nxs ≠ [] ∧ nys ≠ [] ∧
      p.subGrid pxi pyi = some gv.val

/-- ascending list of positions into a list of length `n` (all `< n`) -/
def AscLt (n : Nat) (l : List Nat) : Prop := l ≠ [] ∧ AscLe (n - 1) l ∧ 0 < n

theorem pyIndex_ofNat {α} (l : List α) (k : Nat) (h : k < l.length) :
    pyIndex l (Int.ofNat k) = some l[k] := by
  have h1 : ¬ ((k : Int) < 0) := by omega
  have h3 : ¬ ((l.length : Int) ≤ (k : Int)) := by omega
  have h4 : (0 : Int) ≤ (k : Int) := by omega
  simp [pyIndex, h1, h3, h4, h]

/-- composing ascending index lists -/
def compose (outer : List Nat) (ks : List Nat) : List Nat := ks.map fun k => outer.getD k 0

theorem mapM_pyIndex (outer ks : List Nat) (h : ∀ k ∈ ks, k < outer.length) :
    (ks.map Int.ofNat).mapM (pyIndex (outer.map Int.ofNat)) = some ((compose outer ks).map Int.ofNat) := by
  induction ks with
  | nil => rfl
  | cons k t ih =>
    have hk : k < outer.length := h k (by simp)
    have ht := ih (fun x hx => h x (by simp [hx]))
    simp only [List.map_cons, List.mapM_cons, compose] at ht ⊢
    rw [pyIndex_ofNat _ k (by simpa using hk)]
    simp only [List.getElem_map, Option.bind_eq_bind, Option.bind_some]
    rw [ht]
    simp [List.getD_eq_getElem?_getD, List.getElem?_eq_getElem hk]

theorem AscLe_getD_le (n : Nat) : ∀ (outer : List Nat), AscLe n outer → ∀ i j, i ≤ j → j < outer.length →
    outer.getD i 0 ≤ outer.getD j 0
  | [], _, i, j, _, hj => by simp at hj
  | [a], _, i, j, hij, hj => by
    have : j = 0 := by simpa using hj
    subst this; have : i = 0 := by omega
    subst this; exact Nat.le_refl _
  | a :: b :: t, h, i, j, hij, hj => by
    cases j with
    | zero => have : i = 0 := by omega
              subst this; exact Nat.le_refl _
    | succ j' =>
      cases i with
      | zero =>
        have h2 := AscLe_getD_le n (b :: t) h.2 0 j' (Nat.zero_le _) (by simpa using hj)
        simp only [List.getD_cons_zero, List.getD_cons_succ] at h2 ⊢
        exact Nat.le_trans h.1 h2
      | succ i' =>
        have := AscLe_getD_le n (b :: t) h.2 i' j' (by omega) (by simpa using hj)
        simpa only [List.getD_cons_succ] using this

theorem AscLe_compose (n : Nat) (outer : List Nat) (ho : AscLe n outer) :
    ∀ ks : List Nat, AscLe (outer.length - 1) ks → 0 < outer.length → AscLe n (compose outer ks)
  | [], _, _ => trivial
  | [k], h, hpos => by
    have hk : k < outer.length := by have : k ≤ outer.length - 1 := h; omega
    simp only [compose, List.map_cons, List.map_nil, AscLe]
    have := AscLe_all ho (outer.getD k 0) (by
      rw [List.getD_eq_getElem?_getD, List.getElem?_eq_getElem hk]; simp)
    exact this
  | k :: k' :: t, h, hpos => by
    have hrest := AscLe_compose n outer ho (k' :: t) h.2 hpos
    have hk' : k' < outer.length := by
      have := AscLe_head h.2; omega
    simp only [compose, List.map_cons] at hrest ⊢
    exact ⟨AscLe_getD_le n outer ho k k' h.1 hk', hrest⟩

theorem compose_mem (outer ks : List Nat) (h : ∀ k ∈ ks, k < outer.length) :
    ∀ c ∈ compose outer ks, c ∈ outer := by
  intro c hc
  simp only [compose, List.mem_map] at hc
  obtain ⟨k, hk, rfl⟩ := hc
  have := h k hk
  rw [List.getD_eq_getElem?_getD, List.getElem?_eq_getElem this]
  simp

/-- **a view of a view**: with ascending in-range index lists the result is again a
well-formed view and each of its sites is a site of the view it was taken from -/
theorem getView_view_subset (gv r : GridV) (hwf : WFView gv) (ks js : List Nat)
    (hks : AscLt gv.val.numX ks) (hjs : AscLt gv.val.numY js)
    (h : gv.getView (ks.map Int.ofNat) (js.map Int.ofNat) = some r) :
    WFView r ∧ ∀ s ∈ r.val.positions, s ∈ gv.val.positions := by
  unfold GridV.getView at h
  cases hv : gv.view with
  | none =>
    simp only [hv] at h
    unfold WFView at hwf
    simp only [hv] at hwf
    obtain ⟨px, py, hx, hy⟩ := hwf
    cases hs : gv.val.subGrid (ks.map Int.ofNat) (js.map Int.ofNat) with
    | none => simp [hs] at h
    | some v =>
      simp [hs] at h; subst h
      have nx : gv.val.numX = gv.val.xSpacing.length + 1 := by simp [Grid.numX, hx]
      have ny : gv.val.numY = gv.val.ySpacing.length + 1 := by simp [Grid.numY, hy]
      have hk : AscLe gv.val.xSpacing.length ks := by have := hks.2.1; rwa [nx] at this
      have hj : AscLe gv.val.ySpacing.length js := by have := hjs.2.1; rwa [ny] at this
      refine ⟨?_, subGrid_sites_subset gv.val v px py ks js hx hy hk hj hs⟩
      unfold WFView
      exact ⟨px, py, ks, js, hx, hy, rfl, rfl, hk, hj, hks.1, hjs.1, hs⟩
  | some pv =>
    obtain ⟨p, pxi, pyi⟩ := pv
    unfold WFView at hwf
    simp only [hv] at hwf h
    obtain ⟨px, py, nxs, nys, hx, hy, rfl, rfl, hnx, hny, hne1, hne2, hsub⟩ := hwf
    -- the view's own positions are the parent's at nxs / nys
    obtain ⟨ex, ey⟩ := subGrid_positions p gv.val px py nxs nys hx hy hnx hny hsub
    have lenx : gv.val.numX = nxs.length := by
      have : gv.val.xPositions.length = nxs.length := by rw [ex]; simp
      unfold Grid.subGrid at hsub
      cases nxs with
      | nil => exact absurd rfl hne1
      | cons a t =>
        cases nys with
        | nil => exact absurd rfl hne2
        | cons b u =>
          simp only [List.map_cons, List.isEmpty_cons, Bool.false_eq_true, or_self, if_false, Option.some.injEq] at hsub
          rw [← hsub]
          simp only [Grid.numX, Grid.subInit, hx]
          have : ∀ (l : List Int), (Grid.subSpacing p.xSpacing l).length = l.length - 1 := by
            intro l; induction l with
            | nil => rfl
            | cons c r ih => cases r with
              | nil => rfl
              | cons d r' => simp only [Grid.subSpacing, List.length_cons] at ih ⊢; omega
          simp only [this, List.length_cons, List.length_map]; omega
    have leny : gv.val.numY = nys.length := by
      unfold Grid.subGrid at hsub
      cases nxs with
      | nil => exact absurd rfl hne1
      | cons a t =>
        cases nys with
        | nil => exact absurd rfl hne2
        | cons b u =>
          simp only [List.map_cons, List.isEmpty_cons, Bool.false_eq_true, or_self, if_false, Option.some.injEq] at hsub
          rw [← hsub]
          simp only [Grid.numY, Grid.subInit, hy]
          have : ∀ (l : List Int), (Grid.subSpacing p.ySpacing l).length = l.length - 1 := by
            intro l; induction l with
            | nil => rfl
            | cons c r ih => cases r with
              | nil => rfl
              | cons d r' => simp only [Grid.subSpacing, List.length_cons] at ih ⊢; omega
          simp only [this, List.length_cons, List.length_map]; omega
    have hkl : ∀ k ∈ ks, k < nxs.length := by
      intro k hk
      have := AscLe_all hks.2.1 k hk
      have := hks.2.2
      omega
    have hjl : ∀ k ∈ js, k < nys.length := by
      intro k hk
      have := AscLe_all hjs.2.1 k hk
      have := hjs.2.2
      omega
    rw [mapM_pyIndex nxs ks hkl, mapM_pyIndex nys js hjl] at h
    simp only [Option.bind_eq_bind, Option.bind_some] at h
    cases hs : p.subGrid ((compose nxs ks).map Int.ofNat) ((compose nys js).map Int.ofNat) with
    | none => simp [hs] at h
    | some v =>
      simp [hs] at h; subst h
      have hcx : AscLe p.xSpacing.length (compose nxs ks) := by
        apply AscLe_compose _ nxs hnx ks
        · have := hks.2.1; rwa [lenx] at this
        · have := hks.2.2; omega
      have hcy : AscLe p.ySpacing.length (compose nys js) := by
        apply AscLe_compose _ nys hny js
        · have := hjs.2.1; rwa [leny] at this
        · have := hjs.2.2; omega
      obtain ⟨rx, ry⟩ := subGrid_positions p v px py _ _ hx hy hcx hcy hs
      refine ⟨?_, ?_⟩
      · unfold WFView
        refine ⟨px, py, compose nxs ks, compose nys js, hx, hy, rfl, rfl, hcx, hcy, ?_, ?_, hs⟩
        · intro e; simp only [compose, List.map_eq_nil_iff] at e; exact hks.1 e
        · intro e; simp only [compose, List.map_eq_nil_iff] at e; exact hjs.1 e
      · intro s hs'
        simp only [Grid.positions, List.mem_flatMap, List.mem_map] at hs' ⊢
        obtain ⟨x, hxm, y, hym, rfl⟩ := hs'
        rw [rx] at hxm; rw [ry] at hym
        obtain ⟨c, hc, rfl⟩ := List.mem_map.1 hxm
        obtain ⟨d, hd, rfl⟩ := List.mem_map.1 hym
        refine ⟨_, ?_, _, ?_, rfl⟩
        · rw [ex]; exact List.mem_map.2 ⟨c, compose_mem nxs ks hkl c hc, rfl⟩
        · rw [ey]; exact List.mem_map.2 ⟨d, compose_mem nys js hjl d hd, rfl⟩

end Shuttle
