import Shuttle.Model.Runtime
/-!
# Soundness of the quantum-runtime analysis model: answer `no` ⇒ no device-visible event

Invariant (a logical relation over closure values): every closure the evaluator ever holds
is for a function whose body the analysis has walked with answer `no`, under a stack all of
whose entries have the same property.  The proof is an induction on the evaluator's fuel.
-/
namespace Shuttle.Lang

theorem both_false {x y : AOut} : both x y = .ok false ↔ x = .ok false ∧ y = .ok false := by
  unfold both
  cases x with
  | error u => simp
  | ok a =>
    cases y with
    | error u => simp
    | ok b => cases a <;> cases b <;> simp

theorem orB_false {x : AOut} {b : Bool} : orB x b = .ok false ↔ x = .ok false ∧ b = false := by
  unfold orB
  cases x with
  | error u => simp
  | ok a => cases a <;> cases b <;> simp

/-- every entry of the analysis stack is a function whose body is being walked with answer `no` -/
def StackOK (fns : List Fn) : List String → Prop
  | [] => True
  | m :: rest =>
    (∃ f fuel, fns.find? (·.name == m) = some f ∧ ana fns fuel (m :: rest) (.block f.body) = .ok false) ∧ StackOK fns rest

/-- the body of `name` has been walked with answer `no` -/
def BodyOK (fns : List Fn) (name : String) : Prop :=
  ∃ f stack fuel, fns.find? (·.name == name) = some f ∧ StackOK fns stack ∧ ana fns fuel stack (.block f.body) = .ok false

theorem stack_mem (fns : List Fn) : ∀ (stack : List String), StackOK fns stack → ∀ m ∈ stack, BodyOK fns m := by
  intro stack
  induction stack with
  | nil => intro _ m hm; simp at hm
  | cons a rest ih =>
    intro h m hm
    rcases List.mem_cons.1 hm with rfl | hm
    · have h2 := h.2
      obtain ⟨⟨f, fuel, hf, ha⟩, _⟩ := h
      exact ⟨f, m :: rest, fuel, hf, ⟨⟨f, fuel, hf, ha⟩, h2⟩, ha⟩
    · exact ih h.2 m hm

theorem fn_ok (fns : List Fn) (stack : List String) (af : Nat) (name : String) (hs : StackOK fns stack)
    (h : ana fns af stack (.fn name) = .ok false) : BodyOK fns name := by
  cases af with
  | zero => simp [ana] at h
  | succ af =>
    simp only [ana] at h
    split at h
    · rename_i hm; exact stack_mem fns stack hs name hm
    · split at h
      · cases h
      · rename_i f hf
        exact ⟨f, name :: stack, af, hf, ⟨⟨f, af, hf, h⟩, hs⟩, h⟩

/-- values all of whose closures are for walked functions -/
inductive ValOK (fns : List Fn) : Val → Prop
  | none : ValOK fns .none
  | int (i) : ValOK fns (.int i)
  | flt (q) : ValOK fns (.flt q)
  | bool (b) : ValOK fns (.bool b)
  | str (s) : ValOK fns (.str s)
  | slice (s) : ValOK fns (.slice s)
  | grid (g) : ValOK fns (.grid g)
  | devfn (k xt yt r) : ValOK fns (.devfn k xt yt r)
  | path (p) : ValOK fns (.path p)
  | meas : ValOK fns .meas
  | list (l) : (∀ v ∈ l, ValOK fns v) → ValOK fns (.list l)
  | clos (fn env) : BodyOK fns fn → (∀ p ∈ env, ValOK fns p.2) → ValOK fns (.clos fn env)

def EnvOK (fns : List Fn) (env : Env) : Prop := ∀ p ∈ env, ValOK fns p.2

mutual
theorem fo_ok (fns : List Fn) : ∀ (v : Val), v.fo = true → ValOK fns v
  | .list l, h => ValOK.list l (foList_ok fns l (by simpa [Val.fo] using h))
  | .clos _ _, h => by simp [Val.fo] at h
  | .none, _ => .none
  | .int i, _ => .int i
  | .flt q, _ => .flt q
  | .bool b, _ => .bool b
  | .str s, _ => .str s
  | .slice s, _ => .slice s
  | .grid g, _ => .grid g
  | .devfn k xt yt r, _ => .devfn k xt yt r
  | .path p, _ => .path p
  | .meas, _ => .meas
theorem foList_ok (fns : List Fn) : ∀ (l : List Val), foList l = true → ∀ v ∈ l, ValOK fns v
  | [], _ => by intro v hv; simp at hv
  | a :: t, h => fun v hv =>
    have h' : a.fo = true ∧ foList t = true := by simpa [foList] using h
    match List.mem_cons.1 hv with
    | .inl e => e ▸ fo_ok fns a h'.1
    | .inr hv => foList_ok fns t h'.2 v hv
end

theorem envOK_set (fns : List Fn) (env : Env) (x : String) (v : Val) (he : EnvOK fns env) (hv : ValOK fns v) :
    EnvOK fns (env.set x v) := by
  intro p hp
  simp only [Env.set, List.mem_cons, List.mem_filter] at hp
  rcases hp with rfl | hp
  · exact hv
  · exact he p hp.1

theorem lookup_mem : ∀ (env : Env) (x : String) (v : Val), env.lookup x = some v → (x, v) ∈ env := by
  intro env
  induction env with
  | nil => intro x v h; simp at h
  | cons p rest ih =>
    intro x v h
    obtain ⟨k, w⟩ := p
    simp only [List.lookup] at h
    split at h
    · rename_i heq
      simp only [beq_iff_eq] at heq
      cases h; subst heq; simp
    · exact List.mem_cons_of_mem _ (ih x v h)

theorem envOK_get (fns : List Fn) (env : Env) (x : String) (v : Val) (he : EnvOK fns env) (h : env.get x = some v) :
    ValOK fns v := by
  unfold Env.get at h
  exact he _ (lookup_mem env x v h)

end Shuttle.Lang


namespace Shuttle.Lang

theorem pyIndex_mem {α : Type} (l : List α) (i : Int) (v : α) (h : pyIndex l i = some v) : v ∈ l := by
  unfold pyIndex at h
  simp only at h
  split at h
  · split at h
    · cases h
    · exact List.mem_of_getElem? h
  · split at h
    · cases h
    · exact List.mem_of_getElem? h

theorem arith_ok (fns : List Fn) (op : String) (a b v : Val) (h : arith op a b = some v) : ValOK fns v := by
  unfold arith at h
  split at h
  · cases hx : asRat a <;> cases hy : asRat b <;> simp only [hx, hy, Option.bind_eq_bind, Option.bind_some, Option.bind_none] at h
    all_goals first | cases h | skip
    split at h <;> first | (cases h; constructor) | cases h
  · cases hx : asInt a <;> cases hy : asInt b <;> simp only [hx, hy, Option.bind_eq_bind, Option.bind_some, Option.bind_none] at h
    all_goals first | cases h | skip
    split at h
    all_goals first | (cases h; constructor) | cases h | skip
    all_goals (split at h <;> first | (cases h; constructor) | cases h)

theorem compare_ok (fns : List Fn) (op : String) (a b v : Val) (h : compare op a b = some v) : ValOK fns v := by
  unfold compare at h
  cases hx : asRat a <;> cases hy : asRat b <;> simp only [hx, hy, Option.bind_eq_bind, Option.bind_some, Option.bind_none] at h
  all_goals first | cases h | skip
  split at h <;> first | (cases h; constructor) | cases h

theorem pv_ok (fns : List Fn) (p : PV) : ValOK fns p.toVal := by
  cases p with
  | ints l => exact ValOK.list _ (by intro v hv; obtain ⟨i, _, rfl⟩ := List.mem_map.1 hv; constructor)
  | flts l => exact ValOK.list _ (by intro v hv; obtain ⟨i, _, rfl⟩ := List.mem_map.1 hv; constructor)
  | _ => constructor

theorem primPass_ok (fns : List Fn) (op : String) (vs : List Val) (v : Val) (h : primPass op vs = some v)
    (hv : ∀ a ∈ vs, ValOK fns a) : ValOK fns v := by
  unfold primPass at h
  split at h
  · rename_i a b
    cases ht : truthy a <;> simp only [ht, Option.bind_some, Option.bind_none] at h
    · cases h
    · split at h <;> (cases h; exact hv _ (by simp))
  · rename_i a b
    cases ht : truthy a <;> simp only [ht, Option.bind_some, Option.bind_none] at h
    · cases h
    · split at h <;> (cases h; exact hv _ (by simp))
  · cases h; exact ValOK.list _ hv
  · rename_i l i
    cases hi : asInt i <;> simp only [hi, Option.bind_some, Option.bind_none] at h
    · cases h
    · have hm := pyIndex_mem _ _ _ h
      have hl : ValOK fns (.list l) := hv _ (by simp)
      cases hl with
      | list _ hall => exact hall v hm
  · cases h

theorem prim_ok (fns : List Fn) (op : String) (vs : List Val) (v : Val) (h : prim op vs = some v)
    (hv : ∀ a ∈ vs, ValOK fns a) : ValOK fns v := by
  unfold prim at h
  split at h
  · split at h
    · exact arith_ok fns _ _ _ _ h
    · cases h
  · split at h
    · split at h
      · exact compare_ok fns _ _ _ _ h
      · cases h
    · split at h
      · exact primPass_ok fns op vs v h hv
      · cases hp : primNew op vs with
        | none => simp [hp] at h
        | some p =>
          simp only [hp, Option.map_some, Option.some.injEq] at h
          subst h
          exact pv_ok fns p

end Shuttle.Lang

namespace Shuttle.Lang

/-- an effect statement the analysis does not mark can only be an AOD operation (never device-visible) -/
theorem effect_isOp (op : String) (vs : List Val) (ev : Event) (h : effect op vs = some ev)
    (hq : quantumEff op = false) : ev.isOp = true := by
  unfold effect at h
  split at h
  · cases h; rfl
  · cases h; rfl
  · rename_i x y
    cases hx : asSel x <;> cases hy : asSel y <;> simp only [hx, hy, Option.bind_eq_bind, Option.bind_some, Option.bind_none] at h
    all_goals first | cases h | skip
    rfl
  · rename_i x y
    cases hx : asSel x <;> cases hy : asSel y <;> simp only [hx, hy, Option.bind_eq_bind, Option.bind_some, Option.bind_none] at h
    all_goals first | cases h | skip
    rfl
  · exact absurd hq (by decide)
  · exact absurd hq (by decide)
  · exact absurd hq (by decide)
  · exact absurd hq (by decide)
  · exact absurd hq (by decide)
  · exact absurd hq (by decide)
  · exact absurd hq (by decide)
  · cases h

theorem bindArgs_nil_mem (f : Fn) (args : List Val) (penv : Env) (h : bindArgs f args [] = some penv) :
    ∀ p ∈ penv, p.2 ∈ args := by
  unfold bindArgs at h
  simp only [permuteValues, List.length_nil, Nat.sub_zero, List.take_length, List.isEmpty_nil, if_true,
    Option.bind_eq_bind, Option.bind_some] at h
  split at h
  · cases h
  · cases h
    intro p hp
    exact (List.of_mem_zip hp).2

end Shuttle.Lang

namespace Shuttle.Lang

def NoQ (evs : List Event) : Prop := ∀ ev ∈ evs, ev.isOp = true

theorem NoQ.nil : NoQ [] := by intro ev h; simp at h
theorem NoQ.append {a b : List Event} (ha : NoQ a) (hb : NoQ b) : NoQ (a ++ b) := by
  intro ev h
  rcases List.mem_append.1 h with h | h
  · exact ha ev h
  · exact hb ev h

def ResOK (fns : List Fn) : Res → Prop
  | .val v => ValOK fns v
  | .vals vs => ∀ v ∈ vs, ValOK fns v
  | .returned v => ValOK fns v
  | .normal => True
  | .paths _ => True

/-- the analysis walked this piece of code with answer `no`, under a stack of walked functions -/
def AOK (fns : List Fn) (t : ATask) : Prop := ∃ af st, StackOK fns st ∧ ana fns af st t = .ok false

def TaskOK (fns : List Fn) : Task → Prop
  | .expr e => AOK fns (.expr e)
  | .exprs es => AOK fns (.exprs es)
  | .stmt s => AOK fns (.stmt s)
  | .block ss => AOK fns (.block ss)
  | .loop _ _ body => AOK fns (.block body)
  | .callFn name args cenv => BodyOK fns name ∧ (∀ v ∈ args, ValOK fns v) ∧ EnvOK fns cenv
  | .devCalls _ => False

theorem quantumPlay_true : quantumPlay = true := by decide

section inversion
variable (fns : List Fn)

theorem aok_lit {v} (h : AOK fns (.expr (.lit v))) : v.fo = true := by
  obtain ⟨af, st, _, h⟩ := h
  cases af with
  | zero => simp [ana] at h
  | succ af =>
    simp only [ana] at h
    split at h
    · assumption
    · cases h

theorem aok_prim {op args} (h : AOK fns (.expr (.prim op args))) : AOK fns (.exprs args) := by
  obtain ⟨af, st, hs, h⟩ := h
  cases af with
  | zero => simp [ana] at h
  | succ af => simp only [ana] at h; exact ⟨af, st, hs, h⟩

theorem aok_call {fn args} (h : AOK fns (.expr (.call fn args))) : AOK fns (.exprs args) ∧ BodyOK fns fn := by
  obtain ⟨af, st, hs, h⟩ := h
  cases af with
  | zero => simp [ana] at h
  | succ af =>
    simp only [ana, both_false] at h
    exact ⟨⟨af, st, hs, h.1⟩, fn_ok fns st af fn hs h.2⟩

theorem aok_callV {f args} (h : AOK fns (.expr (.callV f args))) : AOK fns (.expr f) ∧ AOK fns (.exprs args) := by
  obtain ⟨af, st, hs, h⟩ := h
  cases af with
  | zero => simp [ana] at h
  | succ af =>
    simp only [ana] at h
    split at h
    · cases h
    · rw [both_false] at h
      exact ⟨⟨af, st, hs, h.1⟩, ⟨af, st, hs, h.2⟩⟩

theorem aok_lam {fn} (h : AOK fns (.expr (.lam fn))) : BodyOK fns fn := by
  obtain ⟨af, st, hs, h⟩ := h
  cases af with
  | zero => simp [ana] at h
  | succ af => simp only [ana] at h; exact fn_ok fns st af fn hs h

theorem aok_exprs_cons {e es} (h : AOK fns (.exprs (e :: es))) : AOK fns (.expr e) ∧ AOK fns (.exprs es) := by
  obtain ⟨af, st, hs, h⟩ := h
  cases af with
  | zero => simp [ana] at h
  | succ af =>
    simp only [ana, both_false] at h
    exact ⟨⟨af, st, hs, h.1⟩, ⟨af, st, hs, h.2⟩⟩

theorem aok_block_cons {s ss} (h : AOK fns (.block (s :: ss))) : AOK fns (.stmt s) ∧ AOK fns (.block ss) := by
  obtain ⟨af, st, hs, h⟩ := h
  cases af with
  | zero => simp [ana] at h
  | succ af =>
    simp only [ana, both_false] at h
    exact ⟨⟨af, st, hs, h.1⟩, ⟨af, st, hs, h.2⟩⟩

theorem aok_assign {x e} (h : AOK fns (.stmt (.assign x e))) : AOK fns (.expr e) := by
  obtain ⟨af, st, hs, h⟩ := h
  cases af with
  | zero => simp [ana] at h
  | succ af => simp only [ana] at h; exact ⟨af, st, hs, h⟩

theorem aok_exprS {e} (h : AOK fns (.stmt (.exprS e))) : AOK fns (.expr e) := by
  obtain ⟨af, st, hs, h⟩ := h
  cases af with
  | zero => simp [ana] at h
  | succ af => simp only [ana] at h; exact ⟨af, st, hs, h⟩

theorem aok_assert {e} (h : AOK fns (.stmt (.assertS e))) : AOK fns (.expr e) := by
  obtain ⟨af, st, hs, h⟩ := h
  cases af with
  | zero => simp [ana] at h
  | succ af => simp only [ana] at h; exact ⟨af, st, hs, h⟩

theorem aok_ret {e} (h : AOK fns (.stmt (.ret e))) : AOK fns (.expr e) := by
  obtain ⟨af, st, hs, h⟩ := h
  cases af with
  | zero => simp [ana] at h
  | succ af => simp only [ana] at h; exact ⟨af, st, hs, h⟩

theorem aok_eff {op args} (h : AOK fns (.stmt (.eff op args))) : AOK fns (.exprs args) ∧ quantumEff op = false := by
  obtain ⟨af, st, hs, h⟩ := h
  cases af with
  | zero => simp [ana] at h
  | succ af =>
    simp only [ana, orB_false] at h
    exact ⟨⟨af, st, hs, h.1⟩, h.2⟩

theorem aok_devcall {f args kw} (h : AOK fns (.stmt (.devcall f args kw))) : False := by
  obtain ⟨af, st, hs, h⟩ := h
  cases af with
  | zero => simp [ana] at h
  | succ af =>
    simp only [ana, orB_false, quantumPlay_true] at h
    exact absurd h.2 (by simp)

theorem aok_par {body} (h : AOK fns (.stmt (.par body))) : False := by
  obtain ⟨af, st, hs, h⟩ := h
  cases af with
  | zero => simp [ana] at h
  | succ af =>
    simp only [ana, orB_false, quantumPlay_true] at h
    exact absurd h.2 (by simp)

theorem aok_if {c t e} (h : AOK fns (.stmt (.ifS c t e))) :
    AOK fns (.expr c) ∧ AOK fns (.block t) ∧ AOK fns (.block e) := by
  obtain ⟨af, st, hs, h⟩ := h
  cases af with
  | zero => simp [ana] at h
  | succ af =>
    simp only [ana, both_false] at h
    exact ⟨⟨af, st, hs, h.1⟩, ⟨af, st, hs, h.2.1⟩, ⟨af, st, hs, h.2.2⟩⟩

theorem aok_for {x a b s body} (h : AOK fns (.stmt (.forS x a b s body))) :
    AOK fns (.exprs [a, b, s]) ∧ AOK fns (.block body) := by
  obtain ⟨af, st, hs, h⟩ := h
  cases af with
  | zero => simp [ana] at h
  | succ af =>
    simp only [ana, both_false] at h
    exact ⟨⟨af, st, hs, h.1⟩, ⟨af, st, hs, h.2⟩⟩

end inversion

end Shuttle.Lang

namespace Shuttle.Lang

/-- **Soundness of the analysis model w.r.t. the reference evaluator**, for every fuel, environment and task. -/
theorem sound_run (fns : List Fn) (look : LookKind → String → Option Val)
    (hlook : ∀ k n v, look k n = some v → ValOK fns v) :
    ∀ (k : Nat) (env : Env) (task : Task) (res : Res) (env' : Env) (evs : List Event),
      run k ⟨fns, look⟩ env task = .ok (res, env', evs) → TaskOK fns task → EnvOK fns env →
      NoQ evs ∧ EnvOK fns env' ∧ ResOK fns res := by
  intro k
  induction k with
  | zero => intro env task res env' evs h; simp [run] at h
  | succ k ih =>
    intro env task res env' evs h hT hE
    cases task with
    | devCalls ss => exact absurd hT (by simp [TaskOK])
    | expr e =>
      cases e with
      | lit v =>
        simp only [run, Except.ok.injEq, Prod.mk.injEq] at h
        obtain ⟨rfl, rfl, rfl⟩ := h
        exact ⟨NoQ.nil, hE, fo_ok fns v (aok_lit fns hT)⟩
      | var x =>
        simp only [run] at h
        split at h
        · rename_i v hv
          simp only [Except.ok.injEq, Prod.mk.injEq] at h
          obtain ⟨rfl, rfl, rfl⟩ := h
          exact ⟨NoQ.nil, hE, envOK_get fns env x v hE hv⟩
        · cases h
      | look kd n =>
        simp only [run] at h
        split at h
        · rename_i v hv
          simp only [Except.ok.injEq, Prod.mk.injEq] at h
          obtain ⟨rfl, rfl, rfl⟩ := h
          exact ⟨NoQ.nil, hE, hlook kd n v hv⟩
        · cases h
      | lam fn =>
        simp only [run, Except.ok.injEq, Prod.mk.injEq] at h
        obtain ⟨rfl, rfl, rfl⟩ := h
        exact ⟨NoQ.nil, hE, ValOK.clos fn env (aok_lam fns hT) hE⟩
      | prim op args =>
        simp only [run] at h
        split at h
        · rename_i vs e1 evs1 h1
          obtain ⟨q1, _, r1⟩ := ih env (.exprs args) _ _ _ h1 (aok_prim fns hT) hE
          split at h
          · rename_i v hp
            simp only [Except.ok.injEq, Prod.mk.injEq] at h
            obtain ⟨rfl, rfl, rfl⟩ := h
            exact ⟨q1, hE, prim_ok fns op vs v hp r1⟩
          · cases h
        · cases h
        · cases h
      | call fn args =>
        simp only [run] at h
        have hA := aok_call fns hT
        split at h
        · rename_i vs e1 evs1 h1
          obtain ⟨q1, _, r1⟩ := ih env (.exprs args) _ _ _ h1 hA.1 hE
          split at h
          · rename_i v e2 evs2 h2
            obtain ⟨q2, _, r2⟩ := ih env (.callFn fn vs []) _ _ _ h2 ⟨hA.2, r1, by intro p hp; simp at hp⟩ hE
            simp only [Except.ok.injEq, Prod.mk.injEq] at h
            obtain ⟨rfl, rfl, rfl⟩ := h
            exact ⟨q1.append q2, hE, r2⟩
          · cases h
          · cases h
        · cases h
        · cases h
      | callV f args =>
        simp only [run] at h
        have hA := aok_callV fns hT
        split at h
        · rename_i fn cenv e0 evs0 h0
          obtain ⟨q0, _, r0⟩ := ih env (.expr f) _ _ _ h0 hA.1 hE
          cases r0 with
          | clos _ _ hb hce =>
          split at h
          · rename_i vs e1 evs1 h1
            obtain ⟨q1, _, r1⟩ := ih env (.exprs args) _ _ _ h1 hA.2 hE
            split at h
            · rename_i v e2 evs2 h2
              obtain ⟨q2, _, r2⟩ := ih env (.callFn fn vs cenv) _ _ _ h2 ⟨hb, r1, hce⟩ hE
              simp only [Except.ok.injEq, Prod.mk.injEq] at h
              obtain ⟨rfl, rfl, rfl⟩ := h
              exact ⟨(q0.append q1).append q2, hE, r2⟩
            · cases h
            · cases h
          · cases h
          · cases h
        · cases h
        · cases h
    | exprs es =>
      cases es with
      | nil =>
        simp only [run, Except.ok.injEq, Prod.mk.injEq] at h
        obtain ⟨rfl, rfl, rfl⟩ := h
        exact ⟨NoQ.nil, hE, by intro v hv; simp at hv⟩
      | cons e es =>
        simp only [run] at h
        have hA := aok_exprs_cons fns hT
        split at h
        · rename_i v e1 evs1 h1
          obtain ⟨q1, _, r1⟩ := ih env (.expr e) _ _ _ h1 hA.1 hE
          split at h
          · rename_i vs e2 evs2 h2
            obtain ⟨q2, _, r2⟩ := ih env (.exprs es) _ _ _ h2 hA.2 hE
            simp only [Except.ok.injEq, Prod.mk.injEq] at h
            obtain ⟨rfl, rfl, rfl⟩ := h
            refine ⟨q1.append q2, hE, ?_⟩
            intro w hw
            rcases List.mem_cons.1 hw with rfl | hw
            · exact r1
            · exact r2 w hw
          · cases h
          · cases h
        · cases h
        · cases h
    | callFn name args cenv =>
      simp only [run] at h
      obtain ⟨hb, hargs, hce⟩ := hT
      obtain ⟨f, st, af, hf, hst, ha⟩ := hb
      have hcf : Ctx.fn ⟨fns, look⟩ name = some f := hf
      simp only [hcf] at h
      split at h
      · cases h
      · rename_i penv hbind
        have hpe : EnvOK fns (penv ++ cenv) := by
          intro p hp
          rcases List.mem_append.1 hp with hp | hp
          · exact hargs _ (bindArgs_nil_mem f args penv hbind p hp)
          · exact hce p hp
        split at h
        · rename_i v e1 evs1 h1
          obtain ⟨q1, _, r1⟩ := ih (penv ++ cenv) (.block f.body) _ _ _ h1 ⟨af, st, hst, ha⟩ hpe
          simp only [Except.ok.injEq, Prod.mk.injEq] at h
          obtain ⟨rfl, rfl, rfl⟩ := h
          exact ⟨q1, hE, r1⟩
        · rename_i e1 evs1 h1
          obtain ⟨q1, _, _⟩ := ih (penv ++ cenv) (.block f.body) _ _ _ h1 ⟨af, st, hst, ha⟩ hpe
          simp only [Except.ok.injEq, Prod.mk.injEq] at h
          obtain ⟨rfl, rfl, rfl⟩ := h
          exact ⟨q1, hE, ValOK.none⟩
        · cases h
        · cases h
    | block ss =>
      cases ss with
      | nil =>
        simp only [run, Except.ok.injEq, Prod.mk.injEq] at h
        obtain ⟨rfl, rfl, rfl⟩ := h
        exact ⟨NoQ.nil, hE, trivial⟩
      | cons s ss =>
        simp only [run] at h
        have hA := aok_block_cons fns hT
        split at h
        · rename_i e1 evs1 h1
          obtain ⟨q1, he1, _⟩ := ih env (.stmt s) _ _ _ h1 hA.1 hE
          split at h
          · rename_i r e2 evs2 h2
            obtain ⟨q2, he2, r2⟩ := ih e1 (.block ss) _ _ _ h2 hA.2 he1
            simp only [Except.ok.injEq, Prod.mk.injEq] at h
            obtain ⟨rfl, rfl, rfl⟩ := h
            exact ⟨q1.append q2, he2, r2⟩
          · cases h
        · rename_i v e1 evs1 h1
          obtain ⟨q1, he1, r1⟩ := ih env (.stmt s) _ _ _ h1 hA.1 hE
          simp only [Except.ok.injEq, Prod.mk.injEq] at h
          obtain ⟨rfl, rfl, rfl⟩ := h
          exact ⟨q1, he1, r1⟩
        · cases h
        · cases h
    | loop x vals body =>
      cases vals with
      | nil =>
        simp only [run, Except.ok.injEq, Prod.mk.injEq] at h
        obtain ⟨rfl, rfl, rfl⟩ := h
        exact ⟨NoQ.nil, hE, trivial⟩
      | cons i is =>
        simp only [run] at h
        have hE1 : EnvOK fns (env.set x (.int i)) := envOK_set fns env x _ hE (ValOK.int i)
        split at h
        · rename_i e1 evs1 h1
          obtain ⟨q1, he1, _⟩ := ih _ (.block body) _ _ _ h1 hT hE1
          split at h
          · rename_i r e2 evs2 h2
            obtain ⟨q2, he2, r2⟩ := ih e1 (.loop x is body) _ _ _ h2 hT he1
            simp only [Except.ok.injEq, Prod.mk.injEq] at h
            obtain ⟨rfl, rfl, rfl⟩ := h
            exact ⟨q1.append q2, he2, r2⟩
          · cases h
        · rename_i v e1 evs1 h1
          obtain ⟨q1, he1, r1⟩ := ih _ (.block body) _ _ _ h1 hT hE1
          simp only [Except.ok.injEq, Prod.mk.injEq] at h
          obtain ⟨rfl, rfl, rfl⟩ := h
          exact ⟨q1, he1, r1⟩
        · cases h
        · cases h
    | stmt s =>
      cases s with
      | devcall f args kw => exact (aok_devcall fns hT).elim
      | par body => exact (aok_par fns hT).elim
      | assign x e =>
        simp only [run] at h
        split at h
        · rename_i v e1 evs1 h1
          obtain ⟨q1, _, r1⟩ := ih env (.expr e) _ _ _ h1 (aok_assign fns hT) hE
          simp only [Except.ok.injEq, Prod.mk.injEq] at h
          obtain ⟨rfl, rfl, rfl⟩ := h
          exact ⟨q1, envOK_set fns env x v hE r1, trivial⟩
        · cases h
        · cases h
      | exprS e =>
        simp only [run] at h
        split at h
        · rename_i v e1 evs1 h1
          obtain ⟨q1, _, _⟩ := ih env (.expr e) _ _ _ h1 (aok_exprS fns hT) hE
          simp only [Except.ok.injEq, Prod.mk.injEq] at h
          obtain ⟨rfl, rfl, rfl⟩ := h
          exact ⟨q1, hE, trivial⟩
        · cases h
        · cases h
      | eff op args =>
        simp only [run] at h
        have hA := aok_eff fns hT
        split at h
        · rename_i vs e1 evs1 h1
          obtain ⟨q1, _, _⟩ := ih env (.exprs args) _ _ _ h1 hA.1 hE
          split at h
          · rename_i ev hev
            simp only [Except.ok.injEq, Prod.mk.injEq] at h
            obtain ⟨rfl, rfl, rfl⟩ := h
            refine ⟨q1.append ?_, hE, trivial⟩
            intro ev' h'
            simp only [List.mem_singleton] at h'
            subst h'
            exact effect_isOp op vs _ hev hA.2
          · cases h
        · cases h
        · cases h
      | ifS cnd t e =>
        simp only [run] at h
        have hA := aok_if fns hT
        split at h
        · rename_i v e1 evs1 h1
          obtain ⟨q1, _, _⟩ := ih env (.expr cnd) _ _ _ h1 hA.1 hE
          split at h
          · cases h
          · rename_i b hb
            split at h
            · rename_i r e2 evs2 h2
              have hblk : AOK fns (.block (if b then t else e)) := by
                cases b
                · simpa using hA.2.2
                · simpa using hA.2.1
              obtain ⟨q2, he2, r2⟩ := ih env (.block (if b then t else e)) _ _ _ h2 hblk hE
              simp only [Except.ok.injEq, Prod.mk.injEq] at h
              obtain ⟨rfl, rfl, rfl⟩ := h
              exact ⟨q1.append q2, he2, r2⟩
            · cases h
        · cases h
        · cases h
      | forS x a b st body =>
        simp only [run] at h
        have hA := aok_for fns hT
        split at h
        · rename_i va vb vs e1 evs1 h1
          obtain ⟨q1, _, _⟩ := ih env (.exprs [a, b, st]) _ _ _ h1 hA.1 hE
          split at h
          · cases h
          · rename_i is his
            split at h
            · rename_i r e2 evs2 h2
              obtain ⟨q2, he2, r2⟩ := ih env (.loop x is body) _ _ _ h2 hA.2 hE
              simp only [Except.ok.injEq, Prod.mk.injEq] at h
              obtain ⟨rfl, rfl, rfl⟩ := h
              exact ⟨q1.append q2, he2, r2⟩
            · cases h
        · cases h
        · cases h
      | assertS cnd =>
        simp only [run] at h
        split at h
        · rename_i v e1 evs1 h1
          obtain ⟨q1, _, _⟩ := ih env (.expr cnd) _ _ _ h1 (aok_assert fns hT) hE
          split at h
          · simp only [Except.ok.injEq, Prod.mk.injEq] at h
            obtain ⟨rfl, rfl, rfl⟩ := h
            exact ⟨q1, hE, trivial⟩
          · cases h
        · cases h
        · cases h
      | ret e =>
        simp only [run] at h
        split at h
        · rename_i v e1 evs1 h1
          obtain ⟨q1, _, r1⟩ := ih env (.expr e) _ _ _ h1 (aok_ret fns hT) hE
          simp only [Except.ok.injEq, Prod.mk.injEq] at h
          obtain ⟨rfl, rfl, rfl⟩ := h
          exact ⟨q1, hE, r1⟩
        · cases h
        · cases h

end Shuttle.Lang
