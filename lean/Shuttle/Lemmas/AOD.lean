import Shuttle.Model.AOD
/-!
# Transport lemmas for the AOD simulator

`pickAll_ok`, `dropAll_ok`, `carry_map`: what the three phases of a move do when their
side conditions hold; `transport`: a whole pick / carry / release path; `round_trip`:
forward path, (gate), time-reversed return path (the CZ move's shape).
-/
namespace Shuttle.AOD
open Shuttle
open Shuttle.Gen.ActionTables (Tag)

theorem foldl_erase_mem_of_not_mem (q : Site) :
    ∀ (ps : List Site) (occ : List Site), q ∈ occ → q ∉ ps → q ∈ ps.foldl List.erase occ := by
  intro ps
  induction ps with
  | nil => intro occ h _; exact h
  | cons p ps ih =>
    intro occ h hn
    simp only [List.foldl_cons]
    apply ih
    · exact (List.mem_erase_of_ne (by intro e; subst e; exact hn (by simp))).2 h
    · intro hq; exact hn (by simp [hq])

theorem foldl_erase_not_mem (q : Site) :
    ∀ (ps : List Site) (occ : List Site), occ.Nodup → q ∈ ps → q ∉ ps.foldl List.erase occ := by
  intro ps
  induction ps with
  | nil => intro occ _ h; simp at h
  | cons p ps ih =>
    intro occ hn h
    simp only [List.foldl_cons]
    by_cases hq : q ∈ ps
    · exact ih _ (hn.erase p) hq
    · have : q = p := by simpa [hq] using h
      subst this
      intro hm
      have hsub : ∀ (l : List Site) (o : List Site), q ∈ l.foldl List.erase o → q ∈ o := by
        intro l
        induction l with
        | nil => intro o h; exact h
        | cons a l ihl => intro o h; exact List.mem_of_mem_erase (ihl _ h)
      exact (List.Nodup.mem_erase_iff hn).1 (hsub _ _ hm) |>.1 rfl

theorem pickAll_ok (xt yt : List Int) (g : Grid) (f : Spot → Site) :
    ∀ (spots : List Spot) (s : State),
      (∀ sp ∈ spots, spotPos xt yt g sp = some (f sp)) →
      (spots.map f).Nodup →
      (∀ sp ∈ spots, f sp ∈ s.occ) →
      (∀ sp ∈ spots, ∀ h ∈ s.held, h.2 ≠ f sp) →
      pickAll xt yt g spots s =
        .ok { s with occ := (spots.map f).foldl List.erase s.occ,
                     held := s.held ++ spots.map (fun sp => (sp, f sp)) } := by
  intro spots
  induction spots with
  | nil => intro s _ _ _ _; simp [pickAll]
  | cons sp rest ih =>
    intro s hpos hnd hocc hheld
    have hp : spotPos xt yt g sp = some (f sp) := hpos sp (by simp)
    have hnd' : (rest.map f).Nodup := (List.nodup_cons.1 (by simpa using hnd)).2
    have hnotin : f sp ∉ rest.map f := (List.nodup_cons.1 (by simpa using hnd)).1
    unfold pickAll
    simp only [hp]
    have hm : f sp ∈ s.occ := hocc sp (by simp)
    simp only [hm, if_true]
    have hany : (s.held.any fun h => h.2 == f sp) = false := by
      rw [List.any_eq_false]
      intro h hh
      have := hheld sp (by simp) h hh
      simpa using this
    simp only [hany]
    rw [ih]
    · simp [List.append_assoc]
    · intro sp' h'; exact hpos sp' (by simp [h'])
    · exact hnd'
    · intro sp' h'
      have hne : f sp' ≠ f sp := by
        intro e; apply hnotin; rw [← e]; exact List.mem_map_of_mem h'
      exact (List.mem_erase_of_ne hne).2 (hocc sp' (by simp [h']))
    · intro sp' h' h hh
      simp only [List.mem_append, List.mem_singleton] at hh
      rcases hh with hh | hh
      · exact hheld sp' (by simp [h']) h hh
      · subst hh
        intro e; apply hnotin; simp only at e; rw [e]; exact List.mem_map_of_mem h'

theorem dropAll_ok (sites : List Site) :
    ∀ (l : List (Spot × Site)) (s : State), s.held = l →
      (l.map Prod.snd).Nodup → (∀ h ∈ l, h.2 ∈ sites) → (∀ h ∈ l, h.2 ∉ s.occ) →
      dropAll sites l s = .ok { s with occ := s.occ ++ l.map Prod.snd, held := [] } := by
  intro l
  induction l with
  | nil => intro s hs _ _ _; cases s; simp_all [dropAll]
  | cons a rest ih =>
    intro s hs hnd hsite hvac
    obtain ⟨sp, p⟩ := a
    unfold dropAll
    have c1 : p ∈ sites := hsite (sp, p) (by simp)
    have c2 : p ∉ s.occ := hvac (sp, p) (by simp)
    have c3 : (sp, p) ∈ s.held := by rw [hs]; simp
    simp only [c1, c2, c3, not_false_eq_true, and_self, if_true]
    have hnd' : p ∉ rest.map Prod.snd ∧ (rest.map Prod.snd).Nodup := by
      have : (p :: rest.map Prod.snd).Nodup := hnd
      exact List.nodup_cons.1 this
    rw [ih]
    · simp [List.append_assoc]
    · simp [hs]
    · exact hnd'.2
    · intro h hh; exact hsite h (by simp [hh])
    · intro h hh
      simp only [List.mem_append, List.mem_singleton, not_or]
      refine ⟨hvac h (by simp [hh]), ?_⟩
      intro e; apply hnd'.1; rw [← e]; exact List.mem_map_of_mem hh

theorem carry_map (xt yt : List Int) (g : Grid) (f0 f : Spot → Site) :
    ∀ (spots : List Spot), (∀ sp ∈ spots, spotPos xt yt g sp = some (f sp)) →
      carry xt yt g (spots.map fun sp => (sp, f0 sp)) = some (spots.map fun sp => (sp, f sp)) := by
  intro spots
  induction spots with
  | nil => intro _; simp [carry]
  | cons sp rest ih =>
    intro h
    have := ih (fun sp' h' => h sp' (by simp [h']))
    unfold carry at this ⊢
    simp only [List.map_cons, List.mapM_cons, h sp (by simp), Option.map_some]
    simp only [this]
    rfl

theorem dedup_go (l : List Int) : ∀ (acc : List Int), (acc ++ l).Nodup →
    l.foldl (fun acc a => if a ∈ acc then acc else acc ++ [a]) acc = acc ++ l := by
  induction l with
  | nil => intro acc _; simp
  | cons a l ih =>
    intro acc h
    simp only [List.foldl_cons]
    have : a ∉ acc := by
      intro ha
      have := List.nodup_append.1 h
      exact this.2.2 a ha a (by simp) rfl
    simp only [this, if_false]
    rw [ih]
    · simp
    · simpa using h

theorem dedup_nodup (l : List Int) (h : l.Nodup) : dedup l = l := by
  unfold dedup
  simpa using dedup_go l [] (by simpa using h)

theorem mem_cross {X Y : List Int} {sp : Spot} : sp ∈ cross X Y ↔ sp.1 ∈ X ∧ sp.2 ∈ Y := by
  obtain ⟨a, b⟩ := sp
  simp [cross]

end Shuttle.AOD

namespace Shuttle.AOD
open Shuttle
open Shuttle.Gen.ActionTables (Tag)

/-- atoms held by the spots `spots`, each at `f spot` -/
def heldAt (spots : List Spot) (f : Spot → Site) : List (Spot × Site) := spots.map fun sp => (sp, f sp)

theorem heldAt_snd (spots : List Spot) (f : Spot → Site) : (heldAt spots f).map Prod.snd = spots.map f := by
  simp [heldAt]

/-- a waypoint action that starts where the held atoms are carries them to its last grid -/
theorem step_way (sites : List Site) (xt yt : List Int) (s : State) (cur : Option Grid) (g0 gl : Grid) (rest : List Grid)
    (spots : List Spot) (f0 fl : Spot → Site)
    (hheld : s.held = heldAt spots f0)
    (hshape : (g0 :: rest).all (shapeOK xt yt) = true)
    (hlast : (g0 :: rest).getLast? = some gl)
    (h0 : ∀ sp ∈ spots, spotPos xt yt g0 sp = some (f0 sp))
    (hl : ∀ sp ∈ spots, spotPos xt yt gl sp = some (fl sp)) :
    stepAction sites xt yt s cur (.way (g0 :: rest)) = .ok ({ s with held := heldAt spots fl }, some gl) := by
  have c0 : carry xt yt g0 (heldAt spots f0) = some (heldAt spots f0) := carry_map xt yt g0 f0 f0 spots h0
  have cl : carry xt yt gl (heldAt spots f0) = some (heldAt spots fl) := carry_map xt yt gl f0 fl spots hl
  simp only [stepAction, hshape, Bool.not_true, Bool.false_eq_true, if_false, hlast, hheld, c0, cl, bne_self_eq_false]

/-- switching on with nothing active picks the atoms under the selected spots -/
theorem step_on (sites : List Site) (xt yt : List Int) (s : State) (g : Grid) (t : Tag) (ht : t.on = true)
    (sx sy : Sel) (xs ys : List Int) (hx : select xt sx = some xs) (hy : select yt sy = some ys)
    (hxn : xs.Nodup) (hyn : ys.Nodup) (hxin : ∀ x ∈ xs, x ∈ xt) (hyin : ∀ y ∈ ys, y ∈ yt) (f : Spot → Site)
    (hh : s.held = []) (hX : s.X = []) (hY : s.Y = [])
    (hpos : ∀ sp ∈ cross xs ys, spotPos xt yt g sp = some (f sp))
    (hnd : ((cross xs ys).map f).Nodup) (hocc : ∀ sp ∈ cross xs ys, f sp ∈ s.occ) :
    stepAction sites xt yt s (some g) (.sw t sx sy) =
      .ok (⟨((cross xs ys).map f).foldl List.erase s.occ, heldAt (cross xs ys) f, xs, ys⟩, some g) := by
  have hfilter : ((cross xs ys).filter fun sp => sp.1 ∈ xt && sp.2 ∈ yt && !(s.held.any fun h => h.1 == sp)) = cross xs ys := by
    rw [List.filter_eq_self]
    intro sp hsp
    have := mem_cross.1 hsp
    simp [hh, hxin _ this.1, hyin _ this.2]
  simp only [stepAction, hx, hy, ht, if_true, hX, hY, List.nil_append, dedup_nodup xs hxn, dedup_nodup ys hyn, hfilter]
  rw [pickAll_ok xt yt g f (cross xs ys) { occ := s.occ, held := s.held, X := xs, Y := ys } hpos hnd hocc
    (by intro sp _ h hm; simp [hh] at hm)]
  simp [hh, heldAt]

/-- switching the same tones off releases every held atom -/
theorem step_off (sites : List Site) (xt yt : List Int) (s : State) (g : Grid) (t : Tag) (ht : t.on = false)
    (sx sy : Sel) (xs ys : List Int) (hx : select xt sx = some xs) (hy : select yt sy = some ys) (f : Spot → Site)
    (hh : s.held = heldAt (cross xs ys) f) (hX : s.X = xs) (hY : s.Y = ys)
    (hnd : ((cross xs ys).map f).Nodup) (hsite : ∀ sp ∈ cross xs ys, f sp ∈ sites)
    (hvac : ∀ sp ∈ cross xs ys, f sp ∉ s.occ) :
    stepAction sites xt yt s (some g) (.sw t sx sy) =
      .ok (⟨s.occ ++ (cross xs ys).map f, [], [], []⟩, some g) := by
  have hXf : (s.X.filter (· ∉ xs)) = [] := by
    rw [hX, List.filter_eq_nil_iff]; intro a ha; simpa using ha
  have hYf : (s.Y.filter (· ∉ ys)) = [] := by
    rw [hY, List.filter_eq_nil_iff]; intro a ha; simpa using ha
  have hoff : (s.held.filter fun h => !(h.1.1 ∈ ([] : List Int) && h.1.2 ∈ ([] : List Int))) = s.held := by
    rw [List.filter_eq_self]; intro a _; simp
  simp only [stepAction, hx, hy, ht, Bool.false_eq_true, if_false, hXf, hYf, hoff]
  rw [dropAll_ok sites s.held { occ := s.occ, held := s.held, X := [], Y := [] } rfl]
  · simp [hh, heldAt]
  · rw [hh, heldAt_snd]; exact hnd
  · intro h hm
    rw [hh] at hm
    simp only [heldAt, List.mem_map] at hm
    obtain ⟨sp, hsp, rfl⟩ := hm
    exact hsite sp hsp
  · intro h hm
    rw [hh] at hm
    simp only [heldAt, List.mem_map] at hm
    obtain ⟨sp, hsp, rfl⟩ := hm
    exact hvac sp hsp

end Shuttle.AOD

namespace Shuttle.AOD
open Shuttle
open Shuttle.Gen.ActionTables (Tag)

/-- **Transport**: a path that sets the tweezers on `g0`, switches the selected tones on, moves along
`g0 :: rest` (ending on `gl`), switches the same tones off — from a state with nothing active — takes the atoms
under the selected spots of `g0` to the corresponding spots of `gl` and leaves everything else where it was. -/
theorem transport (sites occ : List Site) (xt yt : List Int) (sx sy : Sel) (xs ys : List Int) (ton toff : Tag)
    (g0 gl : Grid) (rest : List Grid) (f0 fl : Spot → Site)
    (hton : ton.on = true) (htoff : toff.on = false)
    (hx : select xt sx = some xs) (hy : select yt sy = some ys)
    (hxn : xs.Nodup) (hyn : ys.Nodup) (hxin : ∀ x ∈ xs, x ∈ xt) (hyin : ∀ y ∈ ys, y ∈ yt)
    (hshape : (g0 :: rest).all (shapeOK xt yt) = true) (hlast : (g0 :: rest).getLast? = some gl)
    (h0 : ∀ sp ∈ cross xs ys, spotPos xt yt g0 sp = some (f0 sp))
    (hl : ∀ sp ∈ cross xs ys, spotPos xt yt gl sp = some (fl sp))
    (hsrc : ((cross xs ys).map f0).Nodup) (hocc : ∀ sp ∈ cross xs ys, f0 sp ∈ occ)
    (hdst : ((cross xs ys).map fl).Nodup) (hsite : ∀ sp ∈ cross xs ys, fl sp ∈ sites)
    (hvac : ∀ sp ∈ cross xs ys, fl sp ∉ ((cross xs ys).map f0).foldl List.erase occ) :
    playPath sites (State.init occ)
        ⟨xt, yt, [.way [g0], .sw ton sx sy, .way (g0 :: rest), .sw toff sx sy, .way [gl]]⟩
      = .ok ⟨((cross xs ys).map f0).foldl List.erase occ ++ (cross xs ys).map fl, [], [], []⟩ := by
  have hs0 : shapeOK xt yt g0 = true := by
    simp only [List.all_cons, Bool.and_eq_true] at hshape; exact hshape.1
  have hsl : shapeOK xt yt gl = true := by
    have := List.mem_of_getLast? hlast
    exact List.all_eq_true.1 hshape gl this
  simp only [playPath, runActions]
  rw [step_way sites xt yt (State.init occ) none g0 g0 [] [] f0 f0 rfl (by simp [hs0]) rfl (by simp) (by simp)]
  simp only
  rw [step_on sites xt yt _ g0 ton hton sx sy xs ys hx hy hxn hyn hxin hyin f0 rfl rfl rfl h0 hsrc hocc]
  simp only
  rw [step_way sites xt yt _ (some g0) g0 gl rest (cross xs ys) f0 fl rfl hshape hlast h0 hl]
  simp only
  rw [step_off sites xt yt _ gl toff htoff sx sy xs ys hx hy fl rfl rfl rfl hdst hsite hvac]
  simp only
  rw [step_way sites xt yt _ (some gl) gl gl [] [] fl fl rfl (by simp [hsl]) rfl (by simp) (by simp)]
  simp [heldAt, State.init]

/-- **Round trip** (the CZ move's shape): a forward path that picks at `g0` and carries to `ge` without releasing,
then a return path that starts at `ge`, carries back to `g0` and releases: every atom is back where it started,
nothing else moved. -/
theorem round_trip (sites occ : List Site) (xt yt : List Int) (sx sy : Sel) (xs ys : List Int) (ton toff : Tag)
    (g0 ge : Grid) (rest back : List Grid) (f0 fe : Spot → Site)
    (hton : ton.on = true) (htoff : toff.on = false)
    (hx : select xt sx = some xs) (hy : select yt sy = some ys)
    (hxn : xs.Nodup) (hyn : ys.Nodup) (hxin : ∀ x ∈ xs, x ∈ xt) (hyin : ∀ y ∈ ys, y ∈ yt)
    (hshape : (g0 :: rest).all (shapeOK xt yt) = true) (hlast : (g0 :: rest).getLast? = some ge)
    (hshape' : (ge :: back).all (shapeOK xt yt) = true) (hlast' : (ge :: back).getLast? = some g0)
    (h0 : ∀ sp ∈ cross xs ys, spotPos xt yt g0 sp = some (f0 sp))
    (he : ∀ sp ∈ cross xs ys, spotPos xt yt ge sp = some (fe sp))
    (hsrc : ((cross xs ys).map f0).Nodup) (hocc : ∀ sp ∈ cross xs ys, f0 sp ∈ occ)
    (hsite : ∀ sp ∈ cross xs ys, f0 sp ∈ sites) (hoccnd : occ.Nodup) :
    playAll sites (State.init occ)
        [⟨xt, yt, [.way [g0], .sw ton sx sy, .way (g0 :: rest)]⟩,
         ⟨xt, yt, [.way (ge :: back), .sw toff sx sy, .way [g0]]⟩]
      = .ok ⟨((cross xs ys).map f0).foldl List.erase occ ++ (cross xs ys).map f0, [], [], []⟩ := by
  have hs0 : shapeOK xt yt g0 = true := by
    simp only [List.all_cons, Bool.and_eq_true] at hshape; exact hshape.1
  have hvac : ∀ sp ∈ cross xs ys, f0 sp ∉ ((cross xs ys).map f0).foldl List.erase occ := by
    intro sp hsp
    exact foldl_erase_not_mem _ _ _ hoccnd (List.mem_map_of_mem hsp)
  simp only [playAll, playPath, runActions]
  rw [step_way sites xt yt (State.init occ) none g0 g0 [] [] f0 f0 rfl (by simp [hs0]) rfl (by simp) (by simp)]
  simp only
  rw [step_on sites xt yt _ g0 ton hton sx sy xs ys hx hy hxn hyn hxin hyin f0 rfl rfl rfl h0 hsrc hocc]
  simp only
  rw [step_way sites xt yt _ (some g0) g0 ge rest (cross xs ys) f0 fe rfl hshape hlast h0 he]
  simp only
  rw [step_way sites xt yt _ none ge g0 back (cross xs ys) fe f0 rfl hshape' hlast' he h0]
  simp only
  rw [step_off sites xt yt _ g0 toff htoff sx sy xs ys hx hy f0 rfl rfl rfl hsrc hsite hvac]
  simp only
  rw [step_way sites xt yt _ (some g0) g0 g0 [] [] f0 f0 rfl (by simp [hs0]) rfl (by simp) (by simp)]
  simp [heldAt, State.init]

/-- after a round trip the occupied sites are the same set, and still without repetition -/
theorem erase_then_append_perm (occ ps : List Site) (hn : occ.Nodup) (hps : ps.Nodup) (hsub : ∀ p ∈ ps, p ∈ occ) :
    (∀ q, q ∈ ps.foldl List.erase occ ++ ps ↔ q ∈ occ) ∧ (ps.foldl List.erase occ ++ ps).Nodup := by
  have hsubset : ∀ (l o : List Site) (q : Site), q ∈ l.foldl List.erase o → q ∈ o := by
    intro l
    induction l with
    | nil => intro o q h; exact h
    | cons a l ihl => intro o q h; exact List.mem_of_mem_erase (ihl _ _ h)
  have hnd : ∀ (l o : List Site), o.Nodup → (l.foldl List.erase o).Nodup := by
    intro l
    induction l with
    | nil => intro o h; exact h
    | cons a l ihl => intro o h; exact ihl _ (h.erase a)
  constructor
  · intro q
    simp only [List.mem_append]
    constructor
    · rintro (h | h)
      · exact hsubset _ _ _ h
      · exact hsub q h
    · intro h
      by_cases hq : q ∈ ps
      · exact .inr hq
      · exact .inl (foldl_erase_mem_of_not_mem q ps occ h hq)
  · rw [List.nodup_append]
    refine ⟨hnd _ _ hn, hps, ?_⟩
    intro a ha b hb hab
    subst hab
    exact foldl_erase_not_mem a ps occ hn hb ha

end Shuttle.AOD
