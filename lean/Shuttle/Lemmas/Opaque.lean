import Shuttle.Lemmas.Tracer
/-!
# Positions are opaque to the tracer

The tracer (and the well-formedness predicate) use an AOD position only through its shape and
its equality.  Renaming all positions of an operation sequence by a shape-preserving map `φ`
therefore renames the traced path, and (for injective `φ`) preserves well-formedness.  This is
what licenses the harness to send a filled grid — a value the `Grid` model has no constructor
for — as a *position token* (`harness/tweezer.py: filled_token`).
-/
namespace Shuttle
open Gen.ActionTables (Tag)

def Op.mapPos (φ : Grid → Grid) : Op → Op
  | .setLoc g => .setLoc (φ g)
  | .move g => .move (φ g)
  | .turn on x y => .turn on x y

def Action.mapPos (φ : Grid → Grid) : Action → Action
  | .way ws => .way (ws.map φ)
  | .sw t x y => .sw t x y

def Path.mapPos (φ : Grid → Grid) (p : Path) : Path := p.map (Action.mapPos φ)

def TState.mapPos (φ : Grid → Grid) (s : TState) : TState :=
  ⟨s.trace.map (Action.mapPos φ), s.cur.map φ⟩

theorem modifyLast_map {α β} (f : α → α) (g : β → β) (m : α → β) (hc : ∀ a, m (f a) = g (m a)) :
    ∀ l : List α, (modifyLast f l).map m = modifyLast g (l.map m)
  | [] => rfl
  | [a] => by simp [modifyLast, hc]
  | a :: b :: t => by
    have ih := modifyLast_map f g m hc (b :: t)
    simp only [modifyLast, List.map_cons] at ih ⊢
    rw [ih]

theorem addWay_mapPos (φ : Grid → Grid) (g : Grid) (a : Action) :
    (addWay g a).mapPos φ = addWay (φ g) (a.mapPos φ) := by
  cases a <;> simp [addWay, Action.mapPos]

theorem getLast?_isWay_mapPos (φ : Grid → Grid) (tr : List Action) :
    ((tr.map (Action.mapPos φ)).getLast?.map Action.isWay) = tr.getLast?.map Action.isWay := by
  rw [List.getLast?_map]
  cases tr.getLast? with
  | none => rfl
  | some a => cases a <;> rfl

theorem step_mapPos (φ : Grid → Grid) (hφ : ∀ g, (φ g).shape = g.shape) (static : Sel → Bool)
    (s : TState) (o : Op) :
    step static (s.mapPos φ) (o.mapPos φ) = (step static s o).map (TState.mapPos φ) := by
  obtain ⟨tr, cur⟩ := s
  cases o with
  | setLoc g => simp [step, stepSet, Op.mapPos, TState.mapPos, Except.map, Action.mapPos]
  | turn on x y =>
    cases cur with
    | none => simp [step, stepTurn, Op.mapPos, TState.mapPos, Except.map]
    | some c =>
      simp only [step, stepTurn, Op.mapPos, TState.mapPos, Option.map_some]
      cases recordedTag on (static x) (static y) x y with
      | none => simp [Except.map]
      | some t => simp [Except.map, Action.mapPos, TState.mapPos]
  | move g =>
    cases cur with
    | none => simp [step, stepMove, Op.mapPos, TState.mapPos, Except.map]
    | some c =>
      simp only [step, stepMove, Op.mapPos, TState.mapPos, Option.map_some, List.getLast?_map]
      cases hl : tr.getLast? with
      | none => simp [Except.map]
      | some a =>
        cases a with
        | sw t x y => simp [Action.mapPos, Except.map]
        | way ws =>
          simp only [Option.map_some, Action.mapPos, hφ]
          by_cases hs : c.shape = g.shape
          · simp only [hs, ne_eq, not_true_eq_false, ↓reduceIte, Except.map]
            congr 2
            exact (modifyLast_map (addWay g) (addWay (φ g)) (Action.mapPos φ)
              (fun a => addWay_mapPos φ g a) tr).symm
          · simp [hs, Except.map]

theorem run_mapPos (φ : Grid → Grid) (hφ : ∀ g, (φ g).shape = g.shape) (static : Sel → Bool) :
    ∀ (ops : List Op) (s : TState),
      run static (s.mapPos φ) (ops.map (Op.mapPos φ)) = (run static s ops).map (TState.mapPos φ)
  | [], s => rfl
  | o :: os, s => by
    simp only [List.map_cons, run, step_mapPos φ hφ]
    cases step static s o with
    | error e => rfl
    | ok s' => simpa [Except.map] using run_mapPos φ hφ static os s'

/-! ## well-formedness -/

theorem sameShape_map (φ : Grid → Grid) (hφ : ∀ g, (φ g).shape = g.shape) (ws : List Grid) :
    sameShape (ws.map φ) = sameShape ws := by
  cases ws with
  | nil => rfl
  | cons g t => simp [sameShape, List.all_map, Function.comp_def, hφ]

theorem segOK_map (φ : Grid → Grid) (hφ : ∀ g, (φ g).shape = g.shape) (ws : List Grid) :
    segOK (ws.map φ) = segOK ws := by
  simp [segOK, sameShape_map φ hφ]

def WSt.mapPos (φ : Grid → Grid) : WSt → WSt
  | .start => .start
  | .seg s => .seg (s.map φ)
  | .sw s => .sw (s.map φ)
  | .bad => .bad

theorem meet_map (φ : Grid → Grid) (hinj : ∀ a b, φ a = φ b → a = b) (s ws : List Grid) :
    ((s.map φ).getLast? == (ws.map φ).head?) = (s.getLast? == ws.head?) := by
  rw [List.getLast?_map, List.head?_map]
  cases s.getLast? with
  | none => cases ws.head? <;> simp
  | some a =>
    cases ws.head? with
    | none => simp
    | some b =>
      simp only [Option.map_some]
      by_cases h : a = b
      · subst h; simp
      · have : φ a ≠ φ b := fun h' => h (hinj _ _ h')
        rw [beq_eq_false_iff_ne.mpr (show some (φ a) ≠ some (φ b) from fun e => this (Option.some.inj e)),
          beq_eq_false_iff_ne.mpr (show some a ≠ some b from fun e => h (Option.some.inj e))]

theorem wstep_mapPos (φ : Grid → Grid) (hφ : ∀ g, (φ g).shape = g.shape)
    (hinj : ∀ a b, φ a = φ b → a = b) (σ : WSt) (a : Action) :
    wstep (σ.mapPos φ) (a.mapPos φ) = (wstep σ a).mapPos φ := by
  cases σ <;> cases a <;> simp only [wstep, WSt.mapPos, Action.mapPos, segOK_map φ hφ, meet_map φ hinj]
  all_goals (split <;> rfl)

theorem foldl_wstep_mapPos (φ : Grid → Grid) (hφ : ∀ g, (φ g).shape = g.shape)
    (hinj : ∀ a b, φ a = φ b → a = b) :
    ∀ (p : Path) (σ : WSt),
      (p.map (Action.mapPos φ)).foldl wstep (σ.mapPos φ) = (p.foldl wstep σ).mapPos φ
  | [], σ => rfl
  | a :: p, σ => by
    simp only [List.map_cons, List.foldl_cons, wstep_mapPos φ hφ hinj]
    exact foldl_wstep_mapPos φ hφ hinj p _

theorem accept_mapPos (φ : Grid → Grid) (σ : WSt) : (σ.mapPos φ).accept = σ.accept := by
  cases σ <;> rfl

end Shuttle
