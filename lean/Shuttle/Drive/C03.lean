import Shuttle.Util.Sexp
import Shuttle.Model.Sched
namespace Shuttle.Drive.C03
open Shuttle Shuttle.Sched

def kind? : Sexp → Option Kind
  | .atom "parallel" => some .parallel
  | .atom "auto" => some .auto
  | _ => none

partial def src? : Sexp → Option Src
  | .list [.atom "call", n] => (Sexp.nat? n).map .call
  | .list [.atom "invoke", n] => (Sexp.nat? n).map .invoke
  | .list (.atom "region" :: k :: body) => do some (.region (← kind? k) (← body.mapM src?))
  | .list [.atom "other", n] => (Sexp.nat? n).map .other
  | .list (.atom "ctrl" :: n :: bodies) => do
    some (.ctrl (← Sexp.nat? n) (← bodies.mapM fun b => match b with
      | .list l => l.mapM src?
      | _ => none))
  | _ => none

def showKind : Kind → String
  | .parallel => "parallel"
  | .auto => "auto"

partial def showPathE : PathE → String
  | .gen id v => s!"(gen {id} {showBool v})"
  | .group k ms => s!"(group {showKind k}{String.join (ms.map fun m => " " ++ showPathE m)})"

partial def showOut : Out → String
  | .play p => s!"(play {showPathE p})"
  | .other t => s!"(other {t})"
  | .ctrl t bodies => s!"(ctrl {t}{String.join (bodies.map fun b => " " ++ showList showOut b)})"
  | .leftover w => s!"(leftover {w.replace " " "_"})"

/-- `(lower s…)` → the pass model's output; `(spec s…)` → the specification; `(wf s…)` -/
def handle : Sexp → String
  | .list (.atom "lower" :: ss) =>
    match ss.mapM src? with
    | some p => showList showOut (passModel p)
    | none => "bad-input"
  | .list (.atom "spec" :: ss) =>
    match ss.mapM src? with
    | some p => showList showOut (lowerSpec p)
    | none => "bad-input"
  | .list (.atom "wf" :: ss) =>
    match ss.mapM src? with
    | some p => showBool (wf p)
    | none => "bad-input"
  | _ => "bad-op"

end Shuttle.Drive.C03
