import Shuttle.Drive.Codec
namespace Shuttle.Drive.C01
open Shuttle Shuttle.Drive

def showErr : TErr → String
  | .notSet => "err InterpErr"
  | .shape => "err InterpErr"
  | .assert_ => "err Assert"
  | .table => "err Table"

/-- requests:
* `(trace ops)`  — the tracer model (static classification = run-time form)
* `(ref ops)`    — the reference AOD semantics
* `(wf path)`    — C11's predicate
-/
def handle : Sexp → String
  | .list [.atom "trace", ops] =>
    match ops? ops with
    | some (some ops) =>
      match runTrace Sel.isSlice ops with
      | .ok p => "ok " ++ showPath p
      | .error e => showErr e
    | some none => "err Grid"
    | none => "bad-input"
  | .list [.atom "ref", ops] =>
    match ops? ops with
    | some (some ops) =>
      match refPath ops with
      | some p => "ok " ++ showPath p
      | none => "err InterpErr"
    | some none => "err Grid"
    | none => "bad-input"
  | .list [.atom "grid", e] =>
    match gexpr? e with
    | some e => match e.eval with
      | some v => "ok " ++ showGrid v.val
      | none => "err Grid"
    | none => "bad-input"
  | .list [.atom "wf", p] =>
    match path? p with
    | some p => showBool (WF p)
    | none => "bad-input"
  | _ => "bad-op"

end Shuttle.Drive.C01
