import Shuttle.Util.Sexp
import Shuttle.Model.Reverse
import Shuttle.Model.GridExpr
/-! Wire encodings shared by the per-property drivers. -/
namespace Shuttle.Drive
open Shuttle
open Shuttle.Gen.ActionTables (Tag)

def ratList? (s : Sexp) : Option (List Rat) := Sexp.listOf? Sexp.rat? s
def intList? (s : Sexp) : Option (List Int) := Sexp.listOf? Sexp.int? s

/-- `(g (xs…) (ys…) x0 y0)` -/
def grid? : Sexp → Option Grid
  | .list [.atom "g", xs, ys, x0, y0] => do
    some ⟨← ratList? xs, ← ratList? ys, ← Sexp.opt? Sexp.rat? x0, ← Sexp.opt? Sexp.rat? y0⟩
  | _ => none

def showGrid (g : Grid) : String :=
  s!"(g {showList showRat g.xSpacing} {showList showRat g.ySpacing} {showOpt showRat g.xInit} {showOpt showRat g.yInit})"

def slice? : Sexp → Option PySlice
  | .list [.atom "sl", a, b, c] => do
    some ⟨← Sexp.opt? Sexp.int? a, ← Sexp.opt? Sexp.int? b, ← Sexp.opt? Sexp.int? c⟩
  | _ => none

def showSlice (s : PySlice) : String :=
  s!"(sl {showOpt toString s.start} {showOpt toString s.stop} {showOpt toString s.step})"

/-- `(sl a b c)` or `(li i…)` -/
def sel? : Sexp → Option Sel
  | .list (.atom "li" :: l) => (l.mapM Sexp.int?).map Sel.list
  | s => (slice? s).map Sel.slice

def showSel : Sel → String
  | .slice s => showSlice s
  | .list l => "(li" ++ String.join (l.map fun i => " " ++ toString i) ++ ")"

def tag? : Sexp → Option Tag
  | .list [a, b, c] => do some ⟨← Sexp.bool? a, ← Sexp.bool? b, ← Sexp.bool? c⟩
  | _ => none

def showTag (t : Tag) : String := s!"({showBool t.on} {showBool t.xsl} {showBool t.ysl})"

/-- `(way g…)` or `(sw tag selx sely)` -/
def action? : Sexp → Option Action
  | .list (.atom "way" :: gs) => (gs.mapM grid?).map Action.way
  | .list [.atom "sw", t, x, y] => do some (.sw (← tag? t) (← sel? x) (← sel? y))
  | _ => none

def showAction : Action → String
  | .way ws => "(way" ++ String.join (ws.map fun g => " " ++ showGrid g) ++ ")"
  | .sw t x y => s!"(sw {showTag t} {showSel x} {showSel y})"

def path? (s : Sexp) : Option Path := Sexp.listOf? action? s
def showPath (p : Path) : String := showList showAction p

/-- `(i n)`, `(sl a b c)`, `(li i…)` -/
def gindex? : Sexp → Option GIndex
  | .list [.atom "i", n] => (Sexp.int? n).map GIndex.int
  | .list (.atom "li" :: l) => (l.mapM Sexp.int?).map GIndex.list
  | s => (slice? s).map GIndex.slice

partial def gexpr? : Sexp → Option GExpr
  | .list [.atom "from", xs, ys] => do some (.fromPos (← ratList? xs) (← ratList? ys))
  | .list [.atom "shift", e, dx, dy] => do
    some (.shift (← gexpr? e) (← Sexp.rat? dx) (← Sexp.rat? dy))
  | .list [.atom "scale", e, sx, sy] => do
    some (.scale (← gexpr? e) (← Sexp.rat? sx) (← Sexp.rat? sy))
  | .list [.atom "rep", e, xt, yt, xg, yg] => do
    some (.rep (← gexpr? e) (← Sexp.int? xt) (← Sexp.int? yt) (← Sexp.rat? xg) (← Sexp.rat? yg))
  | .list [.atom "sub", e, xi, yi] => do some (.sub (← gexpr? e) (← intList? xi) (← intList? yi))
  | .list [.atom "item", e, ix, iy] => do some (.item (← gexpr? e) (← gindex? ix) (← gindex? iy))
  | s => (grid? s).map GExpr.lit

/-- an operation whose grid operand is still an expression -/
inductive OpE where
  | setLoc (g : GExpr)
  | move (g : GExpr)
  | turn (on : Bool) (x y : Sel)

/-- `(set ge)`, `(move ge)`, `(turn on selx sely)` -/
def opE? : Sexp → Option OpE
  | .list [.atom "set", g] => (gexpr? g).map OpE.setLoc
  | .list [.atom "move", g] => (gexpr? g).map OpE.move
  | .list [.atom "turn", on, x, y] => do some (.turn (← Sexp.bool? on) (← sel? x) (← sel? y))
  | _ => none

/-- evaluate the grid operands; `none` = some grid operation raises -/
def OpE.eval : OpE → Option Op
  | .setLoc g => g.eval.map fun v => .setLoc v.val
  | .move g => g.eval.map fun v => .move v.val
  | .turn on x y => some (.turn on x y)

/-- outer `none`: malformed request; inner `none`: a grid operand fails to evaluate -/
def ops? (s : Sexp) : Option (Option (List Op)) :=
  (Sexp.listOf? opE? s).map fun l => l.mapM OpE.eval

end Shuttle.Drive
