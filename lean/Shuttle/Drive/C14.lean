import Shuttle.Drive.Codec
import Shuttle.Model.StdLib
namespace Shuttle.Drive.C14
open Shuttle Shuttle.Drive

def insertBy {α} (lt : α → α → Bool) (a : α) : List α → List α
  | [] => [a]
  | b :: t => if lt a b then a :: b :: t else b :: insertBy lt a t

def sortBy {α} (lt : α → α → Bool) (l : List α) : List α := l.foldl (fun acc a => insertBy lt a acc) []

def showNamed (l : List (String × Grid)) : String :=
  showList (fun p => s!"({p.1} {showGrid p.2})") (sortBy (fun a b => a.1 < b.1) l)

def showNames (l : List String) : String := showList id (sortBy (· < ·) l)

def showSpec (s : ArchSpec) : String :=
  let fc := showList (fun (p : String × Rat) => s!"({p.1} {showRat p.2})") (sortBy (fun a b => a.1 < b.1) s.floatC)
  let ic := showList (fun (p : String × Int) => s!"({p.1} {p.2})") (sortBy (fun a b => a.1 < b.1) s.intC)
  s!"(spec {showNamed s.layout.staticTraps} {showNames s.layout.fillable} {showNames s.layout.hasCz} " ++
  s!"{showNames s.layout.hasLocal} {showNamed s.layout.specialGrid} {fc} {ic})"

def handle : Sexp → String
  | .list [.atom "single", nx, ny, s] =>
    match Sexp.int? nx, Sexp.int? ny, Sexp.rat? s with
    | some nx, some ny, some s => "ok " ++ showSpec (StdLib.singleZone nx ny s)
    | _, _, _ => "bad-input"
  | .list [.atom "single_old", nx, ny, s] =>
    match Sexp.int? nx, Sexp.int? ny, Sexp.rat? s with
    | some nx, some ny, some s => "ok " ++ showSpec (StdLib.singleZoneOld nx ny s)
    | _, _, _ => "bad-input"
  | .list [.atom "twocol", nx, ny, s, gs] =>
    match Sexp.int? nx, Sexp.int? ny, Sexp.rat? s, Sexp.rat? gs with
    | some nx, some ny, some s, some gs =>
      match StdLib.twoCol nx ny s gs with
      | some sp => "ok " ++ showSpec sp
      | none => "err"
    | _, _, _, _ => "bad-input"
  | .list [.atom "gemini", .atom "base"] =>
    match StdLib.geminiBase with | some sp => "ok " ++ showSpec sp | none => "err"
  | .list [.atom "gemini", .atom "logical"] =>
    match StdLib.geminiLogical with | some sp => "ok " ++ showSpec sp | none => "err"
  | _ => "bad-op"

end Shuttle.Drive.C14
