import Shuttle.Drive.Codec
import Shuttle.Model.Reuse
namespace Shuttle.Drive.C02
open Shuttle Shuttle.Drive

/-- requests:
* `(rev path)`   — model of `reverse_path`
* `(flip path)`  — the specification of time reversal
* `(hist (ops…)…)` — C15: results of a history of `run_trace` calls on one instance
-/
def handle : Sexp → String
  | .list [.atom "rev", p] =>
    match path? p with
    | some p => match reversePath p with
      | some q => "ok " ++ showPath q
      | none => "err Table"
    | none => "bad-input"
  | .list [.atom "flip", p] =>
    match path? p with
    | some p => "ok " ++ showPath (flipPath p)
    | none => "bad-input"
  | .list (.atom "hist" :: calls) =>
    match calls.mapM ops? with
    | some calls =>
      -- a call whose grid operands fail to evaluate raises before/while tracing: an error
      let results := runHistory Sel.isSlice .init (calls.map fun c => c.getD [])
      let shown := (calls.zip results).map fun (c, r) =>
        match c, r with
        | none, _ => "err"
        | some _, .ok p => "(ok " ++ showPath p ++ ")"
        | some _, .error _ => "err"
      "(" ++ " ".intercalate shown ++ ")"
    | none => "bad-input"
  | _ => "bad-op"

end Shuttle.Drive.C02
