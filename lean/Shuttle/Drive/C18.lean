import Shuttle.Util.Sexp
import Shuttle.Model.Lattice
namespace Shuttle.Drive.C18
open Shuttle Zone

partial def zone? : Sexp → Option Zone
  | .atom "bot" => some .notZone
  | .atom "top" => some .unknown
  | .atom "inv" => some .invalid
  | .list [.atom "invid", .atom s] => some (.invalidId s)
  | .list [.atom "spec", .atom s] => some (.spec s)
  | .list [.atom "item", z, i] => do some (.item (← zone? z) (← zone? i))
  | .list [.atom "sub", z, x, y] => do some (.sub (← zone? z) (← zone? x) (← zone? y))
  | _ => none

def showZone : Zone → String
  | .notZone => "bot"
  | .unknown => "top"
  | .invalid => "inv"
  | .invalidId s => s!"(invid {s})"
  | .spec s => s!"(spec {s})"
  | .item z i => s!"(item {showZone z} {showZone i})"
  | .sub z x y => s!"(sub {showZone z} {showZone x} {showZone y})"

/-- `(ops a b)` ↦ `le(a,b) le(b,a) join(a,b) meet(a,b)` -/
def handle : Sexp → String
  | .list [.atom "ops", a, b] =>
    match zone? a, zone? b with
    | some a, some b =>
      s!"{showBool (le a b)} {showBool (le b a)} {showZone (join a b)} {showZone (meet a b)}"
    | _, _ => "bad-input"
  | _ => "bad-op"

end Shuttle.Drive.C18
