import Shuttle.Drive.Codec
import Shuttle.Model.Gen3
namespace Shuttle.Drive.C05
open Shuttle Shuttle.Drive

def showPathVal (p : PathVal) : String :=
  s!"(path (li{String.join (p.xTones.map fun i => " " ++ toString i)}) (li{String.join (p.yTones.map fun i => " " ++ toString i)}) {showPath p.path})"

def showErr : GenErr → String
  | .noSpec => "err"
  | .badTask => "err"
  | .kernel => "err"
  | .args => "err"

def atoms? (s : Sexp) : Option (List String) := Sexp.listOf? Sexp.str? s

/-- request: `(gen route hasSpec kind (xt…) (yt…) (argnames…) (values…) (kwnames…) (bound…) ops)`
* route: `main` | `spec` | `constprop`
* kind: `fwd` | `rev` | `other` | `nonconst` (task not a compile-time constant)
* values: opaque atoms; `_` marks a non-constant input (constprop only)
* bound: the argument tuple Python's own binding rule gives; `ops`: what the kernel does on it
-/
def handle : Sexp → String
  | .list [.atom "gen", .atom route, hasSpec, .atom kind, xt, yt, names, values, kws, bound, ops] =>
    match Sexp.bool? hasSpec, intList? xt, intList? yt, atoms? names, atoms? values, atoms? kws, atoms? bound, ops? ops with
    | some hasSpec, some xt, some yt, some names, some values, some kws, some bound, some ops =>
      let trace : Unit → Unit → List String → Option Path := fun _ _ args =>
        if args == bound then ops.bind refPath else none
      let d : DevFn Unit := ⟨(), names, xt, yt⟩
      let task : Option (TaskVal Unit) := match kind with
        | "fwd" => some (.fwd d) | "rev" => some (.rev d) | "other" => some .other | _ => none
      let sp : Option Unit := if hasSpec then some () else none
      match route with
      | "main" =>
        match task with
        | some t => match genMain trace sp t values kws with
          | .ok p => "ok " ++ showPathVal p | .error e => showErr e
        | none => "bad-input"
      | "spec" =>
        match task with
        | some t => match genSpec trace () t values kws with
          | .ok p => "ok " ++ showPathVal p | .error e => showErr e
        | none => "bad-input"
      | "constprop" =>
        let vals : List (Option String) := values.map fun v => if v == "_" then none else some v
        match genConst trace sp task vals kws with
        | .unfolded => "unfolded"
        | .value p => "ok " ++ showPathVal p
        | .raised _ => "raised"
      | _ => "bad-op"
    | _, _, _, _, _, _, _, _ => "bad-input"
  | .list [.atom "permute", names, values, kws] =>
    match atoms? names, atoms? values, atoms? kws with
    | some n, some v, some k =>
      match permuteValues n v k with
      | some l => "ok (" ++ " ".intercalate l ++ ")"
      | none => "err"
    | _, _, _ => "bad-input"
  | _ => "bad-op"

end Shuttle.Drive.C05
