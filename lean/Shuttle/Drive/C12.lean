import Shuttle.Drive.Codec
import Shuttle.Model.FilledExpr
namespace Shuttle.Drive.C12
open Shuttle Shuttle.Drive

def idx? : Sexp → Option Idx
  | .list [a, b] => do some (← Sexp.int? a, ← Sexp.int? b)
  | _ => none

def idxList? (s : Sexp) : Option (List Idx) := Sexp.listOf? idx? s

partial def xexpr? : Sexp → Option XExpr
  | .list [.atom "from", xs, ys] => do some (.fromPos (← ratList? xs) (← ratList? ys))
  | .list [.atom "shift", e, dx, dy] => do some (.shift (← xexpr? e) (← Sexp.rat? dx) (← Sexp.rat? dy))
  | .list [.atom "scale", e, sx, sy] => do some (.scale (← xexpr? e) (← Sexp.rat? sx) (← Sexp.rat? sy))
  | .list [.atom "rep", e, xt, yt, xg, yg] => do
    some (.rep (← xexpr? e) (← Sexp.int? xt) (← Sexp.int? yt) (← Sexp.rat? xg) (← Sexp.rat? yg))
  | .list [.atom "sub", e, xi, yi] => do some (.sub (← xexpr? e) (← intList? xi) (← intList? yi))
  | .list [.atom "item", e, ix, iy] => do some (.item (← xexpr? e) (← gindex? ix) (← gindex? iy))
  | .list [.atom "vacate", e, l] => do some (.vacate (← xexpr? e) (← idxList? l))
  | .list [.atom "fill", e, l] => do some (.fill (← xexpr? e) (← idxList? l))
  | .list [.atom "parent", e] => do some (.parent (← xexpr? e))
  | s => (grid? s).map XExpr.lit

def insertIdx (p : Idx) : List Idx → List Idx
  | [] => [p]
  | q :: t =>
    if p == q then q :: t
    else if p.1 < q.1 ∨ (p.1 = q.1 ∧ p.2 < q.2) then p :: q :: t
    else q :: insertIdx p t

/-- canonical (sorted, duplicate-free) rendering of a vacancy set -/
def normVac (l : List Idx) : List Idx := l.foldl (fun acc p => insertIdx p acc) []

def showIdx (p : Idx) : String := s!"({p.1} {p.2})"
def showPos (p : Rat × Rat) : String := s!"({showRat p.1} {showRat p.2})"

def showVal : GridOrFilled → String
  | .grid g => "(grid " ++ showGrid g.val ++ ")"
  | .filled f =>
    s!"(filled {showGrid f.parent.val} {showList showIdx (normVac f.vac)} {showList showPos f.positions})"

/-- requests: `(eval e)`; `(eq e1 e2)` (both must evaluate to filled grids) -/
def handle : Sexp → String
  | .list [.atom "eval", e] =>
    match xexpr? e with
    | some e => match e.eval with
      | some v => "ok " ++ showVal v
      | none => "err"
    | none => "bad-input"
  | .list [.atom "eq", a, b] =>
    match xexpr? a, xexpr? b with
    | some a, some b =>
      match a.eval, b.eval with
      | some (.filled x), some (.filled y) => showBool (x.eq y)
      | _, _ => "err"
    | _, _ => "bad-input"
  | _ => "bad-op"

end Shuttle.Drive.C12
