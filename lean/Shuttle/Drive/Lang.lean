import Shuttle.Drive.Codec
import Shuttle.Drive.C05
import Shuttle.Model.Inject
import Shuttle.Model.Runtime
import Shuttle.Model.Visual
/-! Wire format of the program language and the `run` requests. -/
namespace Shuttle.Drive.LangD
open Shuttle Shuttle.Drive Shuttle.Lang

partial def val? : Sexp → Option Val
  | .atom "none" => some .none
  | .atom "T" => some (.bool true)
  | .atom "F" => some (.bool false)
  | .list [.atom "i", n] => (Sexp.int? n).map .int
  | .list [.atom "f", q] => (Sexp.rat? q).map .flt
  | .list [.atom "s", .atom s] => some (.str s)
  | .list (.atom "l" :: vs) => (vs.mapM val?).map .list
  | .list [.atom "grid", e] => do
    let ge ← gexpr? e
    (ge.eval).map .grid
  | s => (slice? s).map .slice

def kind? : Sexp → Option LookKind
  | .atom "trap" => some .trap
  | .atom "special" => some .special
  | .atom "intC" => some .intC
  | .atom "floatC" => some .floatC
  | _ => none

partial def expr? : Sexp → Option Expr
  | .list [.atom "lit", v] => (val? v).map .lit
  | .list [.atom "var", .atom x] => some (.var x)
  | .list (.atom "prim" :: .atom op :: args) => (args.mapM expr?).map (.prim op)
  | .list [.atom "look", k, .atom n] => (kind? k).map fun k => .look k n
  | .list (.atom "call" :: .atom fn :: args) => (args.mapM expr?).map (.call fn)
  | .list (.atom "callv" :: f :: args) => do some (.callV (← expr? f) (← args.mapM expr?))
  | .list [.atom "lam", .atom fn] => some (.lam fn)
  | _ => none

partial def stmt? : Sexp → Option Stmt
  | .list [.atom "assign", .atom x, e] => (expr? e).map (.assign x)
  | .list [.atom "expr", e] => (expr? e).map .exprS
  | .list (.atom "eff" :: .atom op :: args) => (args.mapM expr?).map (.eff op)
  | .list [.atom "devcall", f, .list args, .list kw] => do
    some (.devcall (← expr? f) (← args.mapM expr?) (← kw.mapM Sexp.str?))
  | .list (.atom "par" :: body) => (body.mapM stmt?).map .par
  | .list [.atom "if", c, .list t, .list e] => do some (.ifS (← expr? c) (← t.mapM stmt?) (← e.mapM stmt?))
  | .list [.atom "for", .atom x, a, b, st, .list body] => do
    some (.forS x (← expr? a) (← expr? b) (← expr? st) (← body.mapM stmt?))
  | .list [.atom "assert", c] => (expr? c).map .assertS
  | .list [.atom "ret", e] => (expr? e).map .ret
  | _ => none

def fn? : Sexp → Option Fn
  | .list [.atom "fn", .atom name, tw, .list params, .list body] => do
    some { name := name, tweezer := (← Sexp.bool? tw), params := (← params.mapM Sexp.str?), body := (← body.mapM stmt?) }
  | _ => none

/-- `((kind name val)…)` -/
def lookTable? (s : Sexp) : Option (List (LookKind × String × Val)) :=
  Sexp.listOf? (fun
    | .list [k, .atom n, v] => do some (← kind? k, n, ← val? v)
    | _ => none) s

def tableLook (t : List (LookKind × String × Val)) : LookKind → String → Option Val :=
  fun k n => (t.find? fun e => e.1 == k && e.2.1 == n).map (·.2.2)

partial def showVal : Val → String
  | .none => "none"
  | .int i => toString i
  | .flt q => showRat q
  | .bool b => showBool b
  | .str s => s
  | .slice s => showSlice s
  | .list l => "(" ++ " ".intercalate (l.map showVal) ++ ")"
  | .grid g => showGrid g.val
  | .devfn .. => "<devfn>"
  | .clos .. => "<closure>"
  | .path p => C05.showPathVal p
  | .meas => "<meas>"

def showGrids (l : List Grid) : String := String.join (l.map fun g => " " ++ showGrid g)

def showEvent : Event → String
  | .op o => match o with
    | .setLoc g => s!"(set {showGrid g})"
    | .move g => s!"(move {showGrid g})"
    | .turn on x y => s!"(turn {showBool on} {showSel x} {showSel y})"
  | .fill zs => "(fill" ++ showGrids zs ++ ")"
  | .measure zs => "(measure" ++ showGrids zs ++ ")"
  | .play p => s!"(play {C05.showPathVal p})"
  | .playGroup ps => "(group parallel" ++ String.join (ps.map fun p => " " ++ C05.showPathVal p) ++ ")"
  | .cz g u l => s!"(cz {showGrid g} {showRat u} {showRat l})"
  | .localR g a b => s!"(local_r {showGrid g} {showRat a} {showRat b})"
  | .localRz g a => s!"(local_rz {showGrid g} {showRat a})"
  | .globalR a b => s!"(global_r {showRat a} {showRat b})"
  | .globalRz a => s!"(global_rz {showRat a})"

def showEvents (evs : List Event) : String := showList showEvent evs

def FUEL : Nat := 100000

/-- `(run mode table (fns…) name (args…))`; mode: `spec` | `plain` | `inject` -/
def handle : Sexp → String
  | .list [.atom "run", .atom mode, tbl, .list fns, .atom name, .list args] =>
    match lookTable? tbl, fns.mapM fn?, args.mapM val? with
    | some tbl, some fns, some args =>
      let look := tableLook tbl
      let handles : LookKind → Bool := fun k =>
        let n := match k with | .trap => "trap" | .special => "special" | .intC => "intC" | .floatC => "floatC"
        Gen.InjectKinds.table.any fun e => e.1 == n && e.2.1 == "const_ok"
      let ctx : Option Ctx := match mode with
        | "spec" => some ⟨fns, look⟩
        | "plain" => some ⟨fns, noLook⟩
        | "inject" => some ⟨injProg ⟨handles, look⟩ fns, noLook⟩
        | _ => none
      match ctx with
      | none => "bad-op"
      | some c =>
        match runKernel FUEL c name args with
        | .ok (v, evs) => s!"ok {showVal v} {showEvents evs}"
        | .error .fuel => "fuel"
        | .error .err => "err"
    | _, _, _ => "bad-input"
  -- `(trace table (fns…) name (args…))`: evaluate a tweezer kernel's source, feed the AOD
  -- operations it performs to the tracer model (C01 at kernel level)
  | .list [.atom "trace", tbl, .list fns, .atom name, .list args] =>
    match lookTable? tbl, fns.mapM fn?, args.mapM val? with
    | some tbl, some fns, some args =>
      match runKernel FUEL ⟨fns, tableLook tbl⟩ name args with
      | .ok (_, evs) =>
        match runTrace Sel.isSlice (opsOf evs) with
        | .ok p => "ok " ++ showPath p
        | .error _ => "err"
      | .error .fuel => "fuel"
      | .error .err => "err"
    | _, _, _ => "bad-input"
  -- `(visual table (fns…) name (args…))`: the calls a renderer receives from the path visualizer
  | .list [.atom "visual", tbl, .list fns, .atom name, .list args] =>
    match lookTable? tbl, fns.mapM fn?, args.mapM val? with
    | some tbl, some fns, some args =>
      let traps : List (String × Grid) := tbl.filterMap fun e =>
        match e.1, e.2.2 with
        | .trap, .grid g => some (e.2.1, g.val)
        | _, _ => none
      let showCall : Visual.Call → String := fun c => match c with
        | .renderTraps z n => s!"(render_traps {showGrid z} {n})"
        | .topHatCz z u l => s!"(top_hat_cz {showGrid z} {showRat u} {showRat l})"
        | .localR z => s!"(local_r {showGrid z})"
        | .localRz z => s!"(local_rz {showGrid z})"
        | .globalR => "(global_r)"
        | .globalRz => "(global_rz)"
        | .renderPath p => s!"(render_path {C05.showPathVal p})"
        | .unknown w => s!"(unknown {w})"
      match Visual.visualize FUEL ⟨fns, tableLook tbl⟩ traps name args with
      | .ok calls => "ok " ++ showList showCall calls
      | .error .fuel => "fuel"
      | .error .err => "err"
    | _, _, _ => "bad-input"
  -- `(ana (fns…) name)`: the quantum-runtime analysis model
  | .list [.atom "ana", .list fns, .atom name] =>
    match fns.mapM fn? with
    | some fns =>
      match hasQuantumRuntime fns FUEL name with
      | .ok true => "yes"
      | .ok false => "no"
      | .error _ => "refused"
    | none => "bad-input"
  | _ => "bad-op"

end Shuttle.Drive.LangD
