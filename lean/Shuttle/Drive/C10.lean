import Shuttle.Drive.Codec
import Shuttle.Drive.C18
import Shuttle.Model.ZoneAI
namespace Shuttle.Drive.C10
open Shuttle Shuttle.Drive Shuttle.ZoneAI

def named? : Sexp → Option (String × Grid)
  | .list [.atom n, g] => (grid? g).map fun g => (n, g)
  | _ => none

def zstmt? : Sexp → Option ZStmt
  | .list [.atom "trap", .atom n] => some (.trap n)
  | .list [.atom "cgrid", g] => (grid? g).map .constGrid
  | .list [.atom "csub", g, xi, yi] => do some (.constSub (← grid? g) (← intList? xi) (← intList? yi))
  | .list [.atom "cother"] => some .constOther
  | .list [.atom "sub", v, xi, yi] => do some (.subGrid (← Sexp.nat? v) (← intList? xi) (← intList? yi))
  | .list [.atom "item", v, ix, iy] => do some (.getItem (← Sexp.nat? v) (← gindex? ix) (← gindex? iy))
  | .list [.atom "op", v, dx, dy] => do some (.gridOp (← Sexp.nat? v) (← Sexp.rat? dx) (← Sexp.rat? dy))
  | .list [.atom "other"] => some .other
  | _ => none

def showCVal : CVal → String
  | .grid g => showGrid g.val
  | .other => "other"

/-- `(analyse (static…) (index…) (stmts…))` → abstract values; `(run …)` → concrete values -/
def handle : Sexp → String
  | .list [.atom mode, st, idx, .list prog] =>
    match Sexp.listOf? named? st, Sexp.listOf? named? idx, prog.mapM zstmt? with
    | some st, some idx, some prog =>
      let sp : ZSpec := ⟨st, idx.map fun p => (p.2, p.1)⟩
      match mode with
      | "analyse" => showList C18.showZone (analyse sp prog)
      | "run" => showList showCVal (conRun sp [] prog)
      | _ => "bad-op"
    | _, _, _ => "bad-input"
  | _ => "bad-op"

end Shuttle.Drive.C10
