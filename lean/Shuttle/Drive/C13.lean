import Shuttle.Drive.Codec
import Shuttle.Model.Layout
namespace Shuttle.Drive.C13
open Shuttle Shuttle.Drive

def named? : Sexp → Option (String × Grid)
  | .list [.atom n, g] => (grid? g).map fun g => (n, g)
  | _ => none

def names? (s : Sexp) : Option (List String) := Sexp.listOf? Sexp.str? s

/-- `((name grid)…) (fillable…) (cz…) (local…) ((name grid)…)` -/
def layout? : Sexp → Option Layout
  | .list [st, f, c, l, sp] => do
    some ⟨← Sexp.listOf? named? st, ← names? f, ← names? c, ← names? l, ← Sexp.listOf? named? sp⟩
  | _ => none

def showBBox : Option (Rat × Rat × Rat × Rat) → String
  | some (a, b, c, d) => s!"(bbox {showRat a} {showRat b} {showRat c} {showRat d})"
  | none => "(bbox err)"

/-- requests:
* `(layout L)` → `ok (ids…) bbox` (zone id looked up for every zone's grid, in order) or `err`
* `(eq L1 L2)` → T/F
-/
def handle : Sexp → String
  | .list [.atom "layout", l] =>
    match layout? l with
    | some l =>
      match l.postInit with
      | none => "err"
      | some idx =>
        let ids := l.zones.map fun z => showOpt id (Layout.getZoneId idx z.2)
        s!"ok {showList id ids} {showBBox l.boundingBox}"
    | none => "bad-input"
  | .list [.atom "eq", a, b] =>
    match layout? a, layout? b with
    | some a, some b => showBool (a.eq b)
    | _, _ => "bad-input"
  | _ => "bad-op"

end Shuttle.Drive.C13
