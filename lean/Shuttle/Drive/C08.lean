import Shuttle.Drive.Codec
import Shuttle.Drive.C05
import Shuttle.Model.AOD
namespace Shuttle.Drive.C08
open Shuttle Shuttle.Drive Shuttle.AOD

def site? : Sexp → Option Site
  | .list [a, b] => do some ((← Sexp.rat? a), (← Sexp.rat? b))
  | _ => none

def pathVal? : Sexp → Option PathVal
  | .list [.atom "path", .list (.atom "li" :: xt), .list (.atom "li" :: yt), p] => do
    some ⟨← xt.mapM Sexp.int?, ← yt.mapM Sexp.int?, ← path? p⟩
  | _ => none

def showRat (q : Rat) : String := if q.den == 1 then toString q.num else s!"{q.num}/{q.den}"
def showSite (s : Site) : String := s!"({showRat s.1} {showRat s.2})"

def ratLt (a b : Site) : Bool := a.1 < b.1 || (a.1 == b.1 && a.2 < b.2)

def insertSorted (a : Site) : List Site → List Site
  | [] => [a]
  | b :: r => if ratLt a b then a :: b :: r else b :: insertSorted a r
def sortSites (l : List Site) : List Site := l.foldr insertSorted []

def showReject : Reject → String
  | .shape => "shape" | .jump => "jump" | .pickVacant => "pick-vacant" | .dropBad => "drop-bad"
  | .selector => "selector" | .collide => "collide"

/-- play the paths one at a time to report the index of the rejected one -/
def playIdx (sites : List Site) : State → List PathVal → Nat → Except (Reject × Nat) State
  | s, [], _ => .ok s
  | s, p :: ps, i => match playPath sites s p with
    | .ok s' => playIdx sites s' ps (i + 1)
    | .error e => .error (e, i)

/-- `(exec (site…) (occupied site…) (path…))` -/
def handle : Sexp → String
  | .list [.atom "exec", sites, occ, paths] =>
    match Sexp.listOf? site? sites, Sexp.listOf? site? occ, Sexp.listOf? pathVal? paths with
    | some sites, some occ, some paths =>
      match playIdx sites (State.init occ) paths 0 with
      | .ok s =>
        if s.held.isEmpty then s!"ok {showList showSite (sortSites s.occ)}"
        else s!"holding {s.held.length} {showList showSite (sortSites s.occ)}"
      | .error (e, i) => s!"reject {showReject e} {i}"
    | _, _, _ => "bad-input"
  | _ => "bad-input"
end Shuttle.Drive.C08
