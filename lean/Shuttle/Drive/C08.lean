import Shuttle.Drive.Codec
import Shuttle.Drive.C05
import Shuttle.Model.AOD
import Shuttle.Model.StdMoves
namespace Shuttle.Drive.C08
open Shuttle Shuttle.Drive Shuttle.AOD

def site? : Sexp → Option Site
  | .list [a, b] => do some ((← Sexp.rat? a), (← Sexp.rat? b))
  | _ => none

def pathVal? : Sexp → Option PathVal
  | .list [.atom "path", .list (.atom "li" :: xt), .list (.atom "li" :: yt), p] => do
    some ⟨← xt.mapM Sexp.int?, ← yt.mapM Sexp.int?, ← path? p⟩
  | _ => none

def showRat (q : Rat) : String := if q.den == 1 then toString q.num else s!"{q.num}/{q.den}"
def showSite (s : Site) : String := s!"({showRat s.1} {showRat s.2})"

def ratLt (a b : Site) : Bool := a.1 < b.1 || (a.1 == b.1 && a.2 < b.2)

def insertSorted (a : Site) : List Site → List Site
  | [] => [a]
  | b :: r => if ratLt a b then a :: b :: r else b :: insertSorted a r
def sortSites (l : List Site) : List Site := l.foldr insertSorted []

def showReject : Reject → String
  | .shape => "shape" | .jump => "jump" | .pickVacant => "pick-vacant" | .dropBad => "drop-bad"
  | .selector => "selector" | .collide => "collide"

/-- play the paths one at a time to report the index of the rejected one -/
def playIdx (sites : List Site) : State → List PathVal → Nat → Except (Reject × Nat) State
  | s, [], _ => .ok s
  | s, p :: ps, i => match playPath sites s p with
    | .ok s' => playIdx sites s' ps (i + 1)
    | .error e => .error (e, i)

def showPaths : Option (List PathVal) → String
  | none => "err"
  | some ps => "ok " ++ showList C05.showPathVal ps

def gemini? (gl gr rows cs rs csp gs : Sexp) : Option StdMoves.Gemini := do
  some ⟨← grid? gl, ← grid? gr, ← Sexp.int? rows, ← Sexp.int? cs, ← Sexp.rat? rs, ← Sexp.rat? csp, ← Sexp.rat? gs⟩

/-- the library move models: `(model <move> args…)` -/
def handleModel : List Sexp → String
  | [.atom "wp", wps, pick, drop] =>
    match Sexp.listOf? grid? wps, Sexp.bool? pick, Sexp.bool? drop with
    | some wps, some pick, some drop => showPaths (StdMoves.moveByWaypoints wps pick drop)
    | _, _, _ => "bad-input"
  | [.atom "cz", zone, cx, cy, qx, qy, dx, dy] =>
    match grid? zone, intList? cx, intList? cy, intList? qx, intList? qy, Sexp.rat? dx, Sexp.rat? dy with
    | some z, some cx, some cy, some qx, some qy, some dx, some dy => showPaths (StdMoves.czMove z cx cy qx qy dx dy)
    | _, _, _, _, _, _, _ => "bad-input"
  | [.atom "rearrange", zone, sx, sy, dx, dy] =>
    match grid? zone, intList? sx, intList? sy, intList? dx, intList? dy with
    | some z, some sx, some sy, some dx, some dy => showPaths (StdMoves.rearrange z sx sy dx dy)
    | _, _, _, _, _ => "bad-input"
  | [.atom "vshift", gl, gr, rows, cs, rs, csp, gs, off, col, rs'] =>
    match gemini? gl gr rows cs rs csp gs, Sexp.int? off, Sexp.int? col, intList? rs' with
    | some G, some off, some col, some r => showPaths (StdMoves.verticalShift G off col r)
    | _, _, _, _ => "bad-input"
  | [.atom "gr01", gl, gr, rows, cs, rs, csp, gs, rs'] =>
    match gemini? gl gr rows cs rs csp gs, intList? rs' with
    | some G, some r => showPaths (StdMoves.grZeroToOne G r)
    | _, _ => "bad-input"
  | _ => "bad-input"

/-- `(exec (site…) (occupied site…) (path…))` -/
def handle : Sexp → String
  | .list (.atom "model" :: rest) => handleModel rest
  | .list [.atom "exec", sites, occ, paths] =>
    match Sexp.listOf? site? sites, Sexp.listOf? site? occ, Sexp.listOf? pathVal? paths with
    | some sites, some occ, some paths =>
      match playIdx sites (State.init occ) paths 0 with
      | .ok s =>
        if s.held.isEmpty then s!"ok {showList showSite (sortSites s.occ)}"
        else s!"holding {s.held.length} {showList showSite (sortSites s.occ)}"
      | .error (e, i) => s!"reject {showReject e} {i}"
    | _, _, _ => "bad-input"
  | _ => "bad-input"
end Shuttle.Drive.C08
