/-!
# S-expressions: the wire format of the line protocol

One case per line.  Atoms are maximal runs of characters other than
whitespace and parentheses; lists are parenthesised.  The Python harness
(`harness/sexp.py`) writes and reads exactly the same format.
-/
namespace Shuttle

inductive Sexp where
  | atom (s : String)
  | list (l : List Sexp)
deriving Repr, Inhabited, BEq

namespace Sexp

partial def toStr : Sexp → String
  | atom s => s
  | list l => "(" ++ " ".intercalate (l.map toStr) ++ ")"

instance : ToString Sexp := ⟨toStr⟩

/-- Tokenise: parentheses are their own tokens, whitespace separates. -/
def tokens (s : String) : List String := Id.run do
  let mut out : Array String := #[]
  let mut cur : String := ""
  for c in s.toList do
    if c == '(' || c == ')' then
      if cur != "" then out := out.push cur; cur := ""
      out := out.push (String.singleton c)
    else if c == ' ' || c == '\t' || c == '\n' || c == '\r' then
      if cur != "" then out := out.push cur; cur := ""
    else cur := cur.push c
  if cur != "" then out := out.push cur
  return out.toList

/-- Parse with an explicit stack (total, no fuel needed). -/
def parseTokens (ts : List String) : Option Sexp := Id.run do
  let mut stack : List (Array Sexp) := [#[]]
  for t in ts do
    if t == "(" then
      stack := #[] :: stack
    else if t == ")" then
      match stack with
      | top :: next :: rest => stack := (next.push (.list top.toList)) :: rest
      | _ => return none
    else
      match stack with
      | top :: rest => stack := top.push (.atom t) :: rest
      | [] => return none
  match stack with
  | [top] => if top.size == 1 then some top[0]! else none
  | _ => none

def parse (s : String) : Option Sexp := parseTokens (tokens s)

def int? : Sexp → Option Int
  | atom s => s.toInt?
  | _ => none

def nat? : Sexp → Option Nat
  | atom s => s.toNat?
  | _ => none

def str? : Sexp → Option String
  | atom s => some s
  | _ => none

def bool? : Sexp → Option Bool
  | atom "T" => some true
  | atom "F" => some false
  | _ => none

def list? : Sexp → Option (List Sexp)
  | list l => some l
  | _ => none

def listOf? {α} (f : Sexp → Option α) : Sexp → Option (List α)
  | list l => l.mapM f
  | _ => none

/-- optional value: atom `_` is `none`. -/
def opt? {α} (f : Sexp → Option α) : Sexp → Option (Option α)
  | atom "_" => some none
  | s => (f s).map some

/-- rationals are written `n` or `n/d`. -/
def rat? : Sexp → Option Rat
  | atom s =>
    match s.splitOn "/" with
    | [n] => n.toInt?.map (fun (i : Int) => (i : Rat))
    | [n, d] => do
      let n ← n.toInt?
      let d ← d.toNat?
      if d == 0 then none else some (mkRat n d)
    | _ => none
  | _ => none

end Sexp

def showRat (q : Rat) : String :=
  if q.den == 1 then toString q.num else s!"{q.num}/{q.den}"

def showBool (b : Bool) : String := if b then "T" else "F"

def showList {α} (f : α → String) (l : List α) : String :=
  "(" ++ " ".intercalate (l.map f) ++ ")"

def showOpt {α} (f : α → String) : Option α → String
  | none => "_"
  | some a => f a

end Shuttle
