import Shuttle.Model.Gen3
import Shuttle.Lemmas.Reverse
/-!
# C05 — a device call yields the same path on every evaluation route

The three `gen` copies are modelled by one function `genCore` applied to the *shape* read
from each copy's source (regenerated on every run).  The theorems say: with the shapes
the code has now, every route that returns a path returns the specified one (hence they
agree); when no path can be produced, no route returns one.
-/
namespace Shuttle.Props.C05
open Shuttle
open Shuttle.Gen.GenRoutes (Shape)

/-- what each copy of `gen` must look like -/
def goodShape (s : Shape) (specFrom : String) : Bool :=
  s.specFrom == specFrom && !s.fwdReverse && s.revReverse && s.revUnwraps && s.permuteOk &&
  s.tracesMoveFn && s.reversesWhenReverse && s.xTonesFrom == "x" && s.yTonesFrom == "y" && s.pathIsPath

/-- the three copies, as read from the source now, have the required shape, and each
interpreter key has an implementation -/
theorem C05_shapes :
    goodShape Gen.GenRoutes.main "stmt" = true ∧ goodShape Gen.GenRoutes.constprop "stmt" = true ∧
    goodShape Gen.GenRoutes.spec "interp" = true ∧
    Gen.GenRoutes.registeredKeys = ["constprop", "main", "spec.interp"] := by decide

/-! ### argument permutation -/

/-- `permute_values` returns the positional arguments followed by the remaining parameters
looked up by name — i.e. Python's own binding of `f(*pos, **kw)`, in signature order -/
theorem C05_permute_spec {α} (self : String) (params : List String) (pos : List α)
    (k : String × α) (ks : List (String × α)) :
    permuteValues (self :: params) (pos ++ (k :: ks).map (·.2)) ((k :: ks).map (·.1)) =
      ((params.drop pos.length).mapM fun n => (k :: ks).lookup n).map (pos ++ ·) := by
  unfold permuteValues
  have h1 : (pos ++ (k :: ks).map (·.2)).length - ((k :: ks).map (·.1)).length = pos.length := by simp
  have hz : ∀ l : List (String × α), (l.map (·.1)).zip (l.map (·.2)) = l := by
    intro l; induction l with
    | nil => rfl
    | cons a t ih => simp [ih]
  simp only [h1, List.take_left', List.drop_left', List.drop_succ_cons, hz]
  simp

/-- without keyword arguments the values are passed through unchanged -/
theorem C05_permute_positional_only {α} (argNames : List String) (values : List α) :
    permuteValues argNames values [] = some values := by
  simp [permuteValues]

/-- every positional argument stays in place; every keyword argument lands at the index
of its parameter -/
theorem C05_permute_positional {α} (argNames : List String) (values : List α) (kw : List String)
    (out : List α) (h : permuteValues argNames values kw = some out) (i : Nat)
    (hi : i < values.length - kw.length) : out[i]? = values[i]? := by
  unfold permuteValues at h
  by_cases hk : kw.isEmpty = true
  · simp [hk] at h; subst h
    simp [List.getElem?_take, hi]
  · simp only [hk, Bool.false_eq_true, if_false, Option.map_eq_some_iff] at h
    obtain ⟨l, _, rfl⟩ := h
    rw [List.getElem?_append_left (by simp [List.length_take]; omega)]
    simp [List.getElem?_take, hi]

/-! ### the routes -/

theorem genCore_good {F S V : Type} (shape : Shape) (sf : String) (hs : goodShape shape sf = true)
    (trace : S → F → List V → Option Path) (sp : S) (task : TaskVal F) (inputs : List V)
    (kwargs : List String) :
    genCore shape trace sp task inputs kwargs =
      match task with
      | .other => .error .badTask
      | .fwd d =>
        match permuteValues d.argNames inputs kwargs with
        | none => .error .args
        | some args => match trace sp d.moveFn args with
          | none => .error .kernel
          | some p => .ok ⟨d.xTones, d.yTones, p⟩
      | .rev d =>
        match permuteValues d.argNames inputs kwargs with
        | none => .error .args
        | some args => match trace sp d.moveFn args with
          | none => .error .kernel
          | some p => .ok ⟨d.xTones, d.yTones, flipPath p⟩ := by
  simp only [goodShape, Bool.and_eq_true, beq_iff_eq, Bool.not_eq_true'] at hs
  obtain ⟨⟨⟨⟨⟨⟨⟨⟨⟨h0, h1⟩, h2⟩, h3⟩, h4⟩, h5⟩, h6⟩, h7⟩, h8⟩, h9⟩ := hs
  cases task with
  | other => rfl
  | fwd d =>
    simp only [genCore, h1, h2, h3, h4, h5, h6, h7, h8, h9, pickTones]
    cases hp : permuteValues d.argNames inputs kwargs with
    | none => simp
    | some args => cases ht : trace sp d.moveFn args <;> simp [ht]
  | rev d =>
    simp only [genCore, h1, h2, h3, h4, h5, h6, h7, h8, h9, pickTones]
    cases hp : permuteValues d.argNames inputs kwargs with
    | none => simp
    | some args => cases ht : trace sp d.moveFn args <;> simp [ht, reversePath_eq_flip]

theorem mapM_id_map_some {α} (l : List α) : (l.map some).mapM id = some l := by
  induction l with
  | nil => rfl
  | cons a t ih => simp [List.mapM_cons, ih]

/-- **Routes agree.** With the same spec, task, inputs and keyword names: the plain
interpreter (spec recorded on the statement), the spec-carrying interpreter and constant
folding compute the same result; folding of constant operands yields that very path or
raises exactly when the run-time routes raise. -/
theorem C05_routes_agree {F S V : Type} (trace : S → F → List V → Option Path) (sp : S)
    (task : TaskVal F) (inputs : List V) (kwargs : List String) :
    genMain trace (some sp) task inputs kwargs = genSpec trace sp task inputs kwargs ∧
    genConst trace (some sp) (some task) (inputs.map some) kwargs =
      (match task with
       | .other => .unfolded
       | _ => match genSpec trace sp task inputs kwargs with
         | .ok p => .value p
         | .error e => .raised e) := by
  have hm := genCore_good _ _ C05_shapes.1 trace sp task inputs kwargs
  have hc := genCore_good _ _ C05_shapes.2.1 trace sp task inputs kwargs
  have hs := genCore_good _ _ C05_shapes.2.2.1 trace sp task inputs kwargs
  have e1 : genCore Gen.GenRoutes.main trace sp task inputs kwargs =
      genCore Gen.GenRoutes.spec trace sp task inputs kwargs := hm.trans hs.symm
  have e2 : genCore Gen.GenRoutes.constprop trace sp task inputs kwargs =
      genCore Gen.GenRoutes.spec trace sp task inputs kwargs := hc.trans hs.symm
  refine ⟨by simp only [genMain, genSpec, e1], ?_⟩
  have hmap := mapM_id_map_some inputs
  cases task with
  | other => simp [genConst]
  | fwd d =>
    simp only [genConst, hmap, genSpec, e2]
    cases genCore Gen.GenRoutes.spec trace sp (.fwd d) inputs kwargs <;> rfl
  | rev d =>
    simp only [genConst, hmap, genSpec, e2]
    cases genCore Gen.GenRoutes.spec trace sp (.rev d) inputs kwargs <;> rfl

/-- every path a route returns is the specified one: tones of the device function, the
kernel's trace on the arguments bound in signature order, reversed for a reversed task -/
theorem C05_route_meets_spec {F S V : Type} (trace : S → F → List V → Option Path) (sp : S)
    (task : TaskVal F) (inputs : List V) (kwargs : List String) (p : PathVal)
    (h : genSpec trace sp task inputs kwargs = .ok p) :
    ∃ d args, (task = .fwd d ∨ task = .rev d) ∧ permuteValues d.argNames inputs kwargs = some args ∧
      genSpecification trace sp task args = some p := by
  have hs := genCore_good _ _ C05_shapes.2.2.1 trace sp task inputs kwargs
  simp only [genSpec, hs] at h
  cases task with
  | other => simp at h
  | fwd d =>
    cases hp : permuteValues d.argNames inputs kwargs with
    | none => simp [hp] at h
    | some args =>
      cases ht : trace sp d.moveFn args with
      | none => simp [hp, ht] at h
      | some q => simp [hp, ht] at h; exact ⟨d, args, Or.inl rfl, hp, by simp [genSpecification, ht, h]⟩
  | rev d =>
    cases hp : permuteValues d.argNames inputs kwargs with
    | none => simp [hp] at h
    | some args =>
      cases ht : trace sp d.moveFn args with
      | none => simp [hp, ht] at h
      | some q => simp [hp, ht] at h; exact ⟨d, args, Or.inr rfl, hp, by simp [genSpecification, ht, h]⟩

/-- **No path when none can be produced**: without a spec the plain interpreter raises and
folding leaves the call unfolded; a callee that is not a device function makes the
run-time routes raise and folding leave it unfolded; a failing kernel makes the run-time
routes raise and folding raise. -/
theorem C05_no_path_when_unavailable {F S V : Type} (trace : S → F → List V → Option Path) (sp : S)
    (task : TaskVal F) (inputs : List V) (kwargs : List String) :
    genMain trace none task inputs kwargs = .error .noSpec ∧
    genConst trace none (some task) (inputs.map some) kwargs = .unfolded ∧
    genMain trace (some sp) .other inputs kwargs = .error .badTask ∧
    genSpec trace sp .other inputs kwargs = .error .badTask ∧
    genConst trace (some sp) (some .other) (inputs.map some) kwargs = .unfolded ∧
    (∀ d args, (task = .fwd d ∨ task = .rev d) → permuteValues d.argNames inputs kwargs = some args →
      trace sp d.moveFn args = none →
      genMain trace (some sp) task inputs kwargs = .error .kernel ∧
      genSpec trace sp task inputs kwargs = .error .kernel ∧
      genConst trace (some sp) (some task) (inputs.map some) kwargs = .raised .kernel) := by
  refine ⟨rfl, rfl, ?_, ?_, by simp [genConst], ?_⟩
  · simp [genMain, genCore]
  · simp [genSpec, genCore]
  · intro d args ht hp hk
    obtain ⟨h1, h2⟩ := C05_routes_agree trace sp task inputs kwargs
    have hs := genCore_good _ _ C05_shapes.2.2.1 trace sp task inputs kwargs
    have hsp : genSpec trace sp task inputs kwargs = .error .kernel := by
      rcases ht with rfl | rfl <;> simp [genSpec, hs, hp, hk]
    refine ⟨by rw [h1, hsp], hsp, ?_⟩
    rw [h2, hsp]
    rcases ht with rfl | rfl <;> rfl

/-- folding needs constant operands: one non-constant input leaves the call unfolded -/
theorem C05_fold_needs_constants {F S V : Type} (trace : S → F → List V → Option Path) (sp : Option S)
    (task : Option (TaskVal F)) (inputs : List (Option V)) (kwargs : List String)
    (h : none ∈ inputs ∨ task = none) : genConst trace sp task inputs kwargs = .unfolded := by
  cases sp with
  | none => cases task <;> rfl
  | some s =>
    cases task with
    | none => rfl
    | some t =>
      cases t with
      | other => rfl
      | fwd d | rev d =>
        rcases h with h | h
        · have : inputs.mapM id = none := by
            induction inputs with
            | nil => simp at h
            | cons a tl ih =>
              cases a with
              | none => simp [List.mapM_cons]
              | some v =>
                simp only [List.mem_cons, reduceCtorEq, false_or] at h
                simp [List.mapM_cons, ih h]
          simp [genConst, this]
        · cases h

end Shuttle.Props.C05
