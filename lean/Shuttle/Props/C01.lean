import Shuttle.Lemmas.Tracer
/-!
# C01 — tracing reproduces the reference AOD semantics

For every operation sequence (any length) and whatever static slice/list classification
type inference attributes to the selectors: the tracer returns a path iff the reference
model does, and then the same path; the class tag of every recorded switch is the on/off
kind of the call and the run-time form of each selector.
-/
namespace Shuttle.Props.C01
open Shuttle

/-- `Except` result as an option (the error message is not part of the property) -/
def ok? {ε α} : Except ε α → Option α
  | .ok a => some a
  | .error _ => none

/-- the desugar + tracer dispatch tables regenerated from the source are faithful -/
theorem C01_kind_faithful : ∀ on sx sy : Bool, ∀ x y : Sel,
    recordedTag on sx sy x y = some ⟨on, x.isSlice, y.isSlice⟩ :=
  recordedTag_eq

/-- Main theorem: the tracer equals the reference AOD model on every operation sequence. -/
theorem C01_trace_eq_ref (static : Sel → Bool) (ops : List Op) :
    ok? (runTrace static ops) = refPath ops := by
  have h := run_sim static ops .init none rel_init
  unfold runTrace refPath
  cases hr : run static .init ops <;> cases hq : rrun none ops <;> simp [hr, hq] at h ⊢
  · simp [ok?, Except.map]
  · simp [ok?, Except.map, rel_trace h]

/-- the static classification is irrelevant to the result -/
theorem C01_static_irrelevant (s₁ s₂ : Sel → Bool) (ops : List Op) :
    ok? (runTrace s₁ ops) = ok? (runTrace s₂ ops) := by
  rw [C01_trace_eq_ref, C01_trace_eq_ref]

/-! ### when exactly is there no path -/

/-- the AOD position after an operation sequence (last `set_loc`/`move` operand) -/
def posAfter : Option Grid → List Op → Option Grid
  | p, [] => p
  | _, .setLoc g :: t => posAfter (some g) t
  | _, .move g :: t => posAfter (some g) t
  | p, .turn .. :: t => posAfter p t

/-- an operation that cannot be performed at position `p` -/
def badAt : Option Grid → Op → Bool
  | none, .move _ => true          -- AOD used before any set_loc
  | none, .turn .. => true
  | some c, .move g => c.shape != g.shape   -- shape change
  | _, _ => false

/-- reference-state invariant: the open segment is non-empty -/
def RInv : Option RState → Prop
  | none => True
  | some r => r.seg ≠ []

def rpos : Option RState → Option Grid
  | none => none
  | some r => r.seg.getLast?

theorem rstep_none_iff (r : Option RState) (o : Op) (hr : RInv r) :
    rstep r o = none ↔ badAt (rpos r) o = true := by
  cases r with
  | none => cases o <;> simp [rstep, badAt, rpos]
  | some r' =>
    obtain ⟨c, hc⟩ : ∃ c, r'.seg.getLast? = some c := by
      cases h : r'.seg.getLast? with
      | none => simp [List.getLast?_eq_none_iff] at h; exact absurd h hr
      | some c => exact ⟨c, rfl⟩
    cases o <;> simp [rstep, badAt, rpos, hc]

theorem rstep_inv (r : Option RState) (o : Op) (r' : Option RState) (hr : RInv r)
    (h : rstep r o = some r') : RInv r' ∧ rpos r' = posAfter (rpos r) [o] := by
  cases r with
  | none => cases o <;> simp_all [rstep, RInv, rpos, posAfter]
            all_goals (subst h; simp)
  | some r₀ =>
    cases o with
    | setLoc g => simp [rstep] at h; subst h; simp [RInv, rpos, posAfter]
    | turn on x y =>
      simp only [rstep] at h
      cases hc : r₀.seg.getLast? with
      | none => simp [hc] at h
      | some c => simp [hc] at h; subst h; simp [RInv, rpos, posAfter, hc]
    | move g =>
      simp only [rstep] at h
      cases hc : r₀.seg.getLast? with
      | none => simp [hc] at h
      | some c =>
        simp [hc] at h
        obtain ⟨_, h⟩ := h; subst h; simp [RInv, rpos, posAfter]

theorem posAfter_append (p : Option Grid) (a b : List Op) :
    posAfter p (a ++ b) = posAfter (posAfter p a) b := by
  induction a generalizing p with
  | nil => rfl
  | cons o t ih => cases o <;> simp [posAfter, ih]

theorem rrun_inv (ops : List Op) : ∀ (r r' : Option RState), RInv r → rrun r ops = some r' →
    RInv r' ∧ rpos r' = posAfter (rpos r) ops := by
  induction ops with
  | nil => intro r r' hr h; simp [rrun] at h; subst h; exact ⟨hr, rfl⟩
  | cons o t ih =>
    intro r r' hr h
    simp only [rrun] at h
    cases hs : rstep r o with
    | none => simp [hs] at h
    | some r₁ =>
      simp [hs] at h
      obtain ⟨h1, h2⟩ := rstep_inv r o r₁ hr hs
      obtain ⟨h3, h4⟩ := ih r₁ r' h1 h
      refine ⟨h3, ?_⟩
      rw [h4, h2]
      exact (posAfter_append (rpos r) [o] t).symm

/-- a run fails iff it has a first operation that fails -/
theorem rrun_none_iff (ops : List Op) : ∀ r : Option RState,
    rrun r ops = none ↔ ∃ pre o post r', ops = pre ++ o :: post ∧ rrun r pre = some r' ∧
      rstep r' o = none := by
  induction ops with
  | nil => intro r; simp [rrun]
  | cons o t ih =>
    intro r
    simp only [rrun]
    cases hs : rstep r o with
    | none =>
      simp only [true_iff]
      exact ⟨[], o, t, r, rfl, rfl, hs⟩
    | some r₁ =>
      simp only []
      rw [ih r₁]
      constructor
      · rintro ⟨pre, o', post, r', h1, h2, h3⟩
        exact ⟨o :: pre, o', post, r', by simp [h1], by simp [rrun, hs, h2], h3⟩
      · rintro ⟨pre, o', post, r', h1, h2, h3⟩
        cases pre with
        | nil =>
          simp at h1; obtain ⟨rfl, rfl⟩ := h1
          simp [rrun] at h2; subst h2; simp [hs] at h3
        | cons p pre' =>
          simp at h1; obtain ⟨rfl, rfl⟩ := h1
          simp [rrun, hs] at h2
          exact ⟨pre', o', post, r', rfl, h2, h3⟩

/-- **No path iff misuse**: the reference (hence, by `C01_trace_eq_ref`, the tracer)
yields no path exactly when some operation is reached, after an error-free prefix, that
uses the AOD before any `set_loc` or moves to a grid of a different shape than the
current position. -/
theorem C01_error_iff (ops : List Op) :
    refPath ops = none ↔
      ∃ pre o post, ops = pre ++ o :: post ∧ refPath pre ≠ none ∧
        badAt (posAfter none pre) o = true := by
  unfold refPath
  simp only [Option.map_eq_none_iff, ne_eq]
  rw [rrun_none_iff]
  constructor
  · rintro ⟨pre, o, post, r', h1, h2, h3⟩
    obtain ⟨hi, hp⟩ := rrun_inv pre none r' trivial h2
    refine ⟨pre, o, post, h1, by simp [h2], ?_⟩
    rw [rstep_none_iff r' o hi, hp] at h3
    simpa [rpos] using h3
  · rintro ⟨pre, o, post, h1, h2, h3⟩
    cases hr : rrun none pre with
    | none => exact absurd hr h2
    | some r' =>
      obtain ⟨hi, hp⟩ := rrun_inv pre none r' trivial hr
      refine ⟨pre, o, post, r', h1, hr, ?_⟩
      rw [rstep_none_iff r' o hi, hp]
      simpa [rpos] using h3

theorem C01_tracer_error_iff (static : Sel → Bool) (ops : List Op) :
    ok? (runTrace static ops) = none ↔
      ∃ pre o post, ops = pre ++ o :: post ∧ ok? (runTrace static pre) ≠ none ∧
        badAt (posAfter none pre) o = true := by
  simp only [C01_trace_eq_ref]; exact C01_error_iff ops

/-- non-vacuity: both error kinds and a successful trace with all ingredients -/
example :
    let g : Grid := ⟨[1], [], some 0, some 0⟩
    let h : Grid := ⟨[], [], some 0, some 0⟩
    refPath [.move g] = none ∧ refPath [.turn true (.list [0]) (.list [0])] = none ∧
    refPath [.setLoc g, .move h] = none ∧
    refPath [.setLoc g, .move g, .turn true (.slice ⟨none, none, none⟩) (.list [0]), .move g] =
      some [.way [g, g], .sw ⟨true, true, false⟩ (.slice ⟨none, none, none⟩) (.list [0]), .way [g, g]] := by
  decide

end Shuttle.Props.C01
