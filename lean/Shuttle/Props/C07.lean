import Shuttle.Model.Store
/-!
# C07 — specialising one kernel never affects another kernel or the spec
-/
namespace Shuttle.Props.C07
open Shuttle.Store

variable {Code Spec : Type}

/-- one compilation leaves every existing method other than the root exactly as it was -/
theorem compile_frame (ops : CodeOps Code Spec) (s : Store Code) (root : Nat) (spec : Spec) (m : Nat)
    (hm : m < s.code.length) (hne : m ≠ root) : (compile ops s root spec).get m = s.get m := by
  unfold compile
  cases hr : s.get root with
  | none => rfl
  | some rc =>
    simp only [Store.get]
    rw [List.getElem?_append_left (by simpa using hm)]
    rw [List.getElem?_set_ne (Ne.symm hne)]

/-- a compilation never removes a method -/
theorem compile_length (ops : CodeOps Code Spec) (s : Store Code) (root : Nat) (spec : Spec) :
    s.code.length ≤ (compile ops s root spec).code.length := by
  unfold compile
  cases s.get root with
  | none => exact Nat.le_refl _
  | some rc => simp

/-- **Frame theorem over histories**: after any sequence of compilations (any specs, any
order, any length) every method that was never a root is unchanged -/
theorem C07_frame (ops : CodeOps Code Spec) (hist : List (Nat × Spec)) : ∀ (s : Store Code) (m : Nat),
    m < s.code.length → (∀ p ∈ hist, p.1 ≠ m) → (runHistory ops s hist).get m = s.get m := by
  induction hist with
  | nil => intro s m _ _; rfl
  | cons p rest ih =>
    intro s m hm hne
    obtain ⟨r, sp⟩ := p
    simp only [runHistory]
    have h1 : m ≠ r := fun e => hne (r, sp) (by simp) e.symm
    rw [ih (compile ops s r sp) m (Nat.lt_of_lt_of_le hm (compile_length ops s r sp))
      (fun q hq => hne q (by simp [hq]))]
    exact compile_frame ops s r sp m hm h1

/-- in particular a library subroutine shared by several specialised kernels keeps its
code whatever is compiled before or after -/
theorem C07_shared_unchanged (ops : CodeOps Code Spec) (h₁ h₂ : List (Nat × Spec)) (s : Store Code) (m : Nat)
    (hm : m < s.code.length) (hne : ∀ p ∈ h₁ ++ h₂, p.1 ≠ m) :
    (runHistory ops s (h₁ ++ h₂)).get m = (runHistory ops s (h₂ ++ h₁)).get m := by
  rw [C07_frame ops (h₁ ++ h₂) s m hm hne,
      C07_frame ops (h₂ ++ h₁) s m hm (fun p hp => hne p (by
        simp only [List.mem_append] at hp ⊢; exact hp.symm))]

/-- the root of a compilation is built from *its own* spec: its new code is the spec-rewritten
old code with invocations redirected to the fresh copies -/
theorem C07_root_uses_own_spec (ops : CodeOps Code Spec) (s : Store Code) (root : Nat) (spec : Spec) (rc : Code)
    (h : s.get root = some rc) :
    ∃ ρ : Nat → Nat, (compile ops s root spec).get root = some (ops.redirect ρ (ops.rewrite spec rc)) ∧
      ∀ i, ρ i ≠ i → s.code.length ≤ ρ i := by
  refine ⟨copyMap (reach ops s root (s.code.length + 1) (ops.callees rc) []) s.code.length, ?_, ?_⟩
  · have hr : root < s.code.length := by
      simp only [Store.get] at h
      exact (List.getElem?_eq_some_iff.1 h).1
    unfold compile
    rw [h]
    simp only [Store.get]
    rw [List.getElem?_append_left (by simpa using hr)]
    simp [hr]
  · intro i hi
    simp only [copyMap] at hi ⊢
    cases hk : (reach ops s root (s.code.length + 1) (ops.callees rc) []).idxOf? i with
    | none => simp [hk] at hi
    | some k => simp

/-- the spec is a parameter that compilation only reads: the model has no operation that
could modify it (specs are values); what is checked on the implementation is that the
`ArchSpec` object compares equal to a deep copy taken before the history. -/
theorem C07_spec_is_read_only (ops : CodeOps Code Spec) (s : Store Code) (root : Nat) (spec : Spec) :
    (compile ops s root spec, spec).2 = spec := rfl

/-- non-vacuity: two kernels sharing a subroutine, compiled with two specs in both orders -/
example :
    let ops : CodeOps (List Nat × String) String :=
      { callees := fun c => c.1, rewrite := fun sp c => (c.1, c.2 ++ "@" ++ sp), redirect := fun ρ c => (c.1.map ρ, c.2) }
    let s : Store (List Nat × String) := ⟨[([], "lib"), ([0], "k1"), ([0], "k2")]⟩
    (runHistory ops s [(1, "A"), (2, "B")]).get 0 = some ([], "lib") ∧
    (runHistory ops s [(2, "B"), (1, "A")]).get 0 = some ([], "lib") ∧
    (runHistory ops s [(1, "A"), (2, "B")]).get 1 = some ([3], "k1@A") ∧
    (runHistory ops s [(1, "A"), (2, "B")]).get 2 = some ([4], "k2@B") ∧
    (runHistory ops s [(1, "A"), (2, "B")]).get 3 = some ([], "lib@A") ∧
    (runHistory ops s [(1, "A"), (2, "B")]).get 4 = some ([], "lib@B") := by decide

end Shuttle.Props.C07
