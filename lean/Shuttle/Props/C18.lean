import Shuttle.Model.Lattice
/-!
# C18 — the zone lattice obeys the bounded-lattice laws

Stated for all elements (any nesting depth, any strings).  Proofs are by
structural induction on the lattice elements; nothing is bounded.
-/
namespace Shuttle.Props.C18
open Shuttle Zone

theorem le_refl (a : Zone) : le a a = true := by
  induction a <;> simp_all [le]

theorem bot_le (a : Zone) : le bottom a = true := by simp [bottom, le]

theorem le_top (a : Zone) : le a top = true := by
  cases a <;> simp [top, le]

theorem top_le (a : Zone) : le top a = true → a = top := by
  cases a <;> simp [top, le]

theorem le_bot (a : Zone) : le a bottom = true → a = bottom := by
  cases a <;> simp [bottom, le]

theorem le_trans (a b c : Zone) : le a b = true → le b c = true → le a c = true := by
  induction a generalizing b c with
  | notZone => intros; simp [le]
  | unknown => cases b <;> cases c <;> simp [le]
  | invalid => cases b <;> cases c <;> simp [le]
  | invalidId s => cases b <;> cases c <;> simp_all [le]
  | spec s => cases b <;> cases c <;> simp_all [le]
  | item z i ihz ihi =>
    cases b <;> cases c <;> simp_all [le]
    intro h1 h2 h3 h4
    exact ⟨ihz _ _ h1 h3, ihi _ _ h2 h4⟩
  | sub z x y ihz ihx ihy =>
    cases b <;> cases c <;> simp_all [le]
    intro h1 h2 h3 h4 h5 h6
    exact ⟨⟨ihz _ _ h1 h4, ihx _ _ h2 h5⟩, ihy _ _ h3 h6⟩

theorem le_antisymm (a b : Zone) : le a b = true → le b a = true → a = b := by
  induction a generalizing b with
  | item z i ihz ihi =>
    cases b <;> simp_all [le]
    intro h1 h2 h3 h4
    exact ⟨ihz _ h1 h3, ihi _ h2 h4⟩
  | sub z x y ihz ihx ihy =>
    cases b <;> simp_all [le]
    intro h1 h2 h3 h4 h5 h6
    exact ⟨ihz _ h1 h4, ihx _ h2 h5, ihy _ h3 h6⟩
  | _ => cases b <;> simp_all [le]

/-! ### join -/

theorem simpleJoin_comm (a b : Zone) : simpleJoin a b = simpleJoin b a := by
  unfold simpleJoin
  by_cases h1 : le a b = true <;> by_cases h2 : le b a = true <;> simp [h1, h2]
  exact (le_antisymm a b h1 h2).symm

theorem simpleJoin_ub_left (a b : Zone) : le a (simpleJoin a b) = true := by
  unfold simpleJoin; split
  · assumption
  · split
    · exact le_refl a
    · exact le_top a

theorem simpleJoin_ub_right (a b : Zone) : le b (simpleJoin a b) = true := by
  rw [simpleJoin_comm]; exact simpleJoin_ub_left b a

theorem join_comm (a b : Zone) : join a b = join b a := by
  cases a <;> cases b <;> simp only [join, simpleJoin_comm]
  rename_i s t
  by_cases h : s = t
  · subst h; simp
  · have h' : ¬ t = s := fun e => h e.symm
    simp [h, h']

theorem join_idem (a : Zone) : join a a = a := by
  cases a <;> simp [join, simpleJoin, le_refl]

theorem join_ub_left (a b : Zone) : le a (join a b) = true := by
  cases a <;> cases b <;> simp only [join, simpleJoin_ub_left]
  rename_i s t
  by_cases h : s = t <;> simp [h, le]

theorem join_ub_right (a b : Zone) : le b (join a b) = true := by
  rw [join_comm]; exact join_ub_left b a

/-- the join agrees with the order: `a ⊑ b → a ⊔ b = b`. -/
theorem join_consistent (a b : Zone) : le a b = true → join a b = b := by
  intro h
  cases a <;> cases b <;> simp_all [join, simpleJoin, le]

/-- and conversely `a ⊔ b = b → a ⊑ b`. -/
theorem join_consistent' (a b : Zone) : join a b = b → le a b = true := by
  intro h; have := join_ub_left a b; rwa [h] at this

/-! ### meet -/

theorem meet_comm (a b : Zone) : meet a b = meet b a := by
  unfold meet
  by_cases h1 : le a b = true <;> by_cases h2 : le b a = true <;> simp [h1, h2]
  exact le_antisymm a b h1 h2

theorem meet_idem (a : Zone) : meet a a = a := by simp [meet, le_refl]

theorem meet_lb_left (a b : Zone) : le (meet a b) a = true := by
  unfold meet; split
  · exact le_refl a
  · split
    · assumption
    · exact bot_le a

theorem meet_lb_right (a b : Zone) : le (meet a b) b = true := by
  rw [meet_comm]; exact meet_lb_left b a

theorem meet_consistent (a b : Zone) : le a b = true → meet a b = a := by
  intro h; simp [meet, h]

theorem meet_consistent' (a b : Zone) : meet a b = a → le a b = true := by
  intro h; have := meet_lb_right a b; rwa [h] at this

/-- bounds are absorbing / neutral as in any bounded lattice -/
theorem join_bot (a : Zone) : join bottom a = a := join_consistent _ _ (bot_le a)
theorem join_top (a : Zone) : join a top = top := join_consistent _ _ (le_top a)
theorem meet_bot (a : Zone) : meet bottom a = bottom := meet_consistent _ _ (bot_le a)
theorem meet_top (a : Zone) : meet a top = a := meet_consistent _ _ (le_top a)

/-- The whole statement of C18 as one proposition. -/
theorem C18_bounded_lattice :
    (∀ a, le a a = true) ∧
    (∀ a b c, le a b = true → le b c = true → le a c = true) ∧
    (∀ a b, le a b = true → le b a = true → a = b) ∧
    (∀ a, le bottom a = true) ∧ (∀ a, le a top = true) ∧
    (∀ a b, join a b = join b a) ∧ (∀ a, join a a = a) ∧
    (∀ a b, le a (join a b) = true ∧ le b (join a b) = true) ∧
    (∀ a b, le a b = true ↔ join a b = b) ∧
    (∀ a b, meet a b = meet b a) ∧ (∀ a, meet a a = a) ∧
    (∀ a b, le (meet a b) a = true ∧ le (meet a b) b = true) ∧
    (∀ a b, le a b = true ↔ meet a b = a) :=
  ⟨le_refl, le_trans, le_antisymm, bot_le, le_top, join_comm, join_idem,
   fun a b => ⟨join_ub_left a b, join_ub_right a b⟩,
   fun a b => ⟨join_consistent a b, join_consistent' a b⟩,
   meet_comm, meet_idem,
   fun a b => ⟨meet_lb_left a b, meet_lb_right a b⟩,
   fun a b => ⟨meet_consistent a b, meet_consistent' a b⟩⟩

/-- non-vacuity: the laws are exercised by non-trivial, nested elements. -/
example : le (item (spec "a") (invalidId "x")) (item (spec "a") invalid) = true ∧
    join (invalidId "a") (invalidId "b") = invalid ∧
    join (spec "a") (spec "b") = top ∧
    meet (sub (spec "a") notZone notZone) (sub unknown notZone notZone)
      = sub (spec "a") notZone notZone := by decide

end Shuttle.Props.C18
