import Shuttle.Model.Reuse
/-!
# C15 — a tracer instance can be reused without cross-talk

`C15_fresh_equiv`: for every history of successful and failing traces on one instance
(started in *any* state), each call returns what a fresh instance returns.

Partial: the second half of the property ("paths returned earlier are never modified by
later calls") is about object identity / aliasing, which this value-level model does not
express; it is carried by the correspondence check (earlier results are deep-copied at
return time and re-compared after every later call) and by the regenerated
`TracerShape.returnsCopy` / `initResetsTrace` flags proved true below.
-/
namespace Shuttle.Props.C15
open Shuttle

def ok? {ε α} : Except ε α → Option α
  | .ok a => some a
  | .error _ => none

/-- what the code does at the two places the property depends on (regenerated flags) -/
theorem C15_shape :
    Gen.TracerShape.initResetsTrace = true ∧ Gen.TracerShape.initResetsCur = true ∧
    Gen.TracerShape.returnsCopy = true ∧ Gen.TracerShape.runInitialises = true := by decide

theorem initialize_eq (s : TState) : s.initialize = .init := by
  simp [TState.initialize, C15_shape.1, C15_shape.2.1, TState.init]

theorem go_eq_run (static : Sel → Bool) (ops : List Op) : ∀ s,
    (callOn.go static s ops).1 = (run static s ops).map (·.trace) := by
  induction ops with
  | nil => intro s; simp [callOn.go, run, Except.map]
  | cons o t ih =>
    intro s
    simp only [callOn.go, run]
    cases step static s o with
    | error e => simp [Except.map]
    | ok s' => simpa using ih s'

/-- one call on a used instance = the call on a fresh instance -/
theorem C15_call_fresh (static : Sel → Bool) (s : TState) (ops : List Op) :
    (callOn static s ops).1 = runTrace static ops := by
  simp [callOn, C15_shape.2.2.2, initialize_eq, go_eq_run, runTrace]

/-- **Fresh equivalence for whole histories**, successes and failures mixed, from any
initial instance state. -/
theorem C15_fresh_equiv (static : Sel → Bool) (hist : List (List Op)) : ∀ s : TState,
    runHistory static s hist = hist.map (runTrace static) := by
  induction hist with
  | nil => intro s; rfl
  | cons ops rest ih =>
    intro s
    simp only [runHistory, List.map_cons]
    rw [ih]
    congr 1
    exact C15_call_fresh static s ops

/-- non-vacuity: a history with a failing call in the middle -/
example :
    let g : Grid := ⟨[1], [], some 0, some 0⟩
    (runHistory Sel.isSlice .init [[.setLoc g], [.move g], [.setLoc g, .move g]]).map C15.ok? =
      [some [.way [g]], none, some [.way [g, g]]] := by decide

end Shuttle.Props.C15
