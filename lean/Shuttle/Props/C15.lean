import Shuttle.Model.Reuse
import Shuttle.Lemmas.ReuseHeap
/-!
# C15 — a tracer instance can be reused without cross-talk

`C15_fresh_equiv`: for every history of successful and failing traces on one instance
(started in *any* state), each call returns what a fresh instance returns.

`C15_no_retro_mutation`: the second half of the property ("paths returned earlier are
never modified by later calls") on the model with object identity (Model/ReuseHeap.lean:
list and action objects, in-place `append` / `add_waypoint`, shallow copy on return): what a
caller sees through a returned list is the same after any further history of successful
and failing calls.
-/
namespace Shuttle.Props.C15
open Shuttle

def ok? {ε α} : Except ε α → Option α
  | .ok a => some a
  | .error _ => none

/-- what the code does at the two places the property depends on (regenerated flags) -/
theorem C15_shape :
    Gen.TracerShape.initResetsTrace = true ∧ Gen.TracerShape.initResetsCur = true ∧
    Gen.TracerShape.returnsCopy = true ∧ Gen.TracerShape.runInitialises = true := by decide

theorem initialize_eq (s : TState) : s.initialize = .init := by
  simp [TState.initialize, C15_shape.1, C15_shape.2.1, TState.init]

theorem go_eq_run (static : Sel → Bool) (ops : List Op) : ∀ s,
    (callOn.go static s ops).1 = (run static s ops).map (·.trace) := by
  induction ops with
  | nil => intro s; simp [callOn.go, run, Except.map]
  | cons o t ih =>
    intro s
    simp only [callOn.go, run]
    cases step static s o with
    | error e => simp [Except.map]
    | ok s' => simpa using ih s'

/-- one call on a used instance = the call on a fresh instance -/
theorem C15_call_fresh (static : Sel → Bool) (s : TState) (ops : List Op) :
    (callOn static s ops).1 = runTrace static ops := by
  simp [callOn, C15_shape.2.2.2, initialize_eq, go_eq_run, runTrace]

/-- **Fresh equivalence for whole histories**, successes and failures mixed, from any
initial instance state. -/
theorem C15_fresh_equiv (static : Sel → Bool) (hist : List (List Op)) : ∀ s : TState,
    runHistory static s hist = hist.map (runTrace static) := by
  induction hist with
  | nil => intro s; rfl
  | cons ops rest ih =>
    intro s
    simp only [runHistory, List.map_cons]
    rw [ih]
    congr 1
    exact C15_call_fresh static s ops

/-- non-vacuity: a history with a failing call in the middle -/
example :
    let g : Grid := ⟨[1], [], some 0, some 0⟩
    (runHistory Sel.isSlice .init [[.setLoc g], [.move g], [.setLoc g, .move g]]).map C15.ok? =
      [some [.way [g]], none, some [.way [g, g]]] := by decide



/-! ## results handed out earlier are never modified (object identity) -/

theorem hInit_eq (s : HState) :
    s.initialize = { s with lists := s.lists ++ [[]], trace := s.lists.length, cur := none } := by
  simp [HState.initialize, C15_shape.1, C15_shape.2.1]

/-- a call changes no object that existed before it -/
theorem hcall_frame (static : Sel → Bool) (s s1 : HState) (ops : List Op) (r : Except TErr Nat) (hw : WFH s)
    (h : hcall static s ops = (r, s1)) :
    FrozenAt s.lists.length s.acts.length s s1 ∧ WFH s1 ∧
      ∀ lid, r = .ok lid → lid < s1.lists.length := by
  unfold hcall at h
  simp only [C15_shape.2.2.2, C15_shape.2.2.1, if_true, hInit_eq] at h
  have ho : Own s.lists.length s.acts.length
      { s with lists := s.lists ++ [[]], trace := s.lists.length, cur := none } :=
    ⟨Nat.le_refl _, by simp, by intro a ha; simp [List.getD] at ha, by simp, Nat.le_refl _⟩
  have hw0 : WFH { s with lists := s.lists ++ [[]], trace := s.lists.length, cur := none } := by
    intro l hl a ha
    rcases List.mem_append.1 hl with hl | hl
    · exact hw l hl a ha
    · simp at hl; subst hl; simp at ha
  have f0 : FrozenAt s.lists.length s.acts.length s
      { s with lists := s.lists ++ [[]], trace := s.lists.length, cur := none } :=
    ⟨by simp, Nat.le_refl _, fun j hj => by simp [List.getElem?_append_left hj], fun _ _ => rfl⟩
  generalize hr : hrun static { s with lists := s.lists ++ [[]], trace := s.lists.length, cur := none } ops = res at h
  obtain ⟨rr, s'⟩ := res
  obtain ⟨_, f1⟩ := hrun_frame static _ _ ops _ s' rr ho hr
  have hw1 := hrun_wf static ops _ s' rr hw0 hr
  cases rr with
  | error e =>
    simp only [Prod.mk.injEq] at h
    obtain ⟨rfl, rfl⟩ := h
    exact ⟨f0.trans f1, hw1, by intro lid h; cases h⟩
  | ok x =>
    simp only [Prod.mk.injEq] at h
    obtain ⟨rfl, rfl⟩ := h
    refine ⟨f0.trans (f1.trans ⟨by simp, Nat.le_refl _, ?_, fun _ _ => rfl⟩), ?_, ?_⟩
    · intro j hj
      have : j < s'.lists.length := Nat.lt_of_lt_of_le hj (Nat.le_trans f0.ll f1.ll)
      simp [List.getElem?_append_left this]
    · intro l hl a ha
      rcases List.mem_append.1 hl with hl | hl
      · exact hw1 l hl a ha
      · simp only [List.mem_singleton] at hl
        subst hl
        simp only [List.getD] at ha
        cases hg : s'.lists[s'.trace]? with
        | none => simp [hg] at ha
        | some l' =>
          simp only [hg, Option.getD_some] at ha
          exact hw1 l' (List.mem_of_getElem? hg) a ha
    · intro lid h
      simp only [Except.ok.injEq] at h
      subst h
      simp

/-- a whole further history changes no object that existed before it -/
theorem hhistory_frame (static : Sel → Bool) : ∀ (hist : List (List Op)) (s : HState), WFH s →
    FrozenAt s.lists.length s.acts.length s (hhistory static s hist).2 := by
  intro hist
  induction hist with
  | nil => intro s _; exact FrozenAt.refl _ _ _
  | cons ops rest ih =>
    intro s hw
    simp only [hhistory]
    generalize hc : hcall static s ops = c
    obtain ⟨r, s1⟩ := c
    obtain ⟨f1, hw1, _⟩ := hcall_frame static s s1 ops r hw hc
    have f2 := (ih s1 hw1).weaken f1.ll f1.al
    exact f1.trans f2

/-- **Paths returned earlier are never modified by later calls**: if a call on an instance (in any well-formed state)
returns list object `lid`, then after any further history of calls on the same instance — successful or failing,
any kernels, any arguments — the path seen through `lid` is exactly what it was when it was returned. -/
theorem C15_no_retro_mutation (static : Sel → Bool) (s s1 : HState) (hw : WFH s) (ops : List Op) (lid : Nat)
    (h : hcall static s ops = (.ok lid, s1)) (later : List (List Op)) :
    (hhistory static s1 later).2.view lid = s1.view lid := by
  obtain ⟨_, hw1, hl⟩ := hcall_frame static s s1 ops (.ok lid) hw h
  have hlid := hl lid rfl
  refine view_stable _ _ s1 _ lid (hhistory_frame static later s1 hw1) hlid ?_
  intro a ha
  simp only [List.getD] at ha
  cases hg : s1.lists[lid]? with
  | none => simp [hg] at ha
  | some l' =>
    simp only [hg, Option.getD_some] at ha
    exact hw1 l' (List.mem_of_getElem? hg) a ha

/-- **The object-level tracer refines the value-level one**: what a caller sees through the list a call returns is
exactly `runTrace` of the kernel's operations (and a failing call fails with the same error), from any instance state. -/
theorem C15_heap_refines (static : Sel → Bool) (s : HState) (ops : List Op) :
    match hcall static s ops with
    | (.ok lid, s1) => runTrace static ops = .ok (s1.view lid)
    | (.error e, _) => runTrace static ops = .error e := by
  unfold hcall
  simp only [C15_shape.2.2.2, C15_shape.2.2.1, if_true, hInit_eq]
  have ht : Tidy { s with lists := s.lists ++ [[]], trace := s.lists.length, cur := none } :=
    ⟨by simp, by simp [List.getD], by intro a ha; simp [List.getD] at ha⟩
  have habs : HState.abs { s with lists := s.lists ++ [[]], trace := s.lists.length, cur := none } = TState.init := by
    simp [HState.abs, HState.view, TState.init, List.getD]
  have hs := hrun_sim static ops _ ht
  rw [habs] at hs
  generalize hrun static { s with lists := s.lists ++ [[]], trace := s.lists.length, cur := none } ops = res at hs
  obtain ⟨rr, s'⟩ := res
  cases rr with
  | error e =>
    simp only at hs ⊢
    simp [runTrace, hs, Except.map]
  | ok sf =>
    simp only at hs ⊢
    obtain ⟨h1, rfl, _⟩ := hs
    simp only [runTrace, h1, Except.map, HState.abs, HState.view, Except.ok.injEq]
    simp [List.getD]

theorem wfh_fresh : WFH HState.fresh := by
  intro l hl a ha
  simp [HState.fresh] at hl
  subst hl
  simp at ha

/-- non-vacuity: a call, then a failing call and a call that moves — the first result still reads the same -/
example :
    let g : Grid := ⟨[1], [], some 0, some 0⟩
    let c1 := hcall Sel.isSlice HState.fresh [.setLoc g, .move g]
    c1.1.toOption = some 2 ∧
    (hhistory Sel.isSlice c1.2 [[.move g], [.setLoc g, .move g, .move g]]).2.view 2 = [.way [g, g]] := by
  decide +kernel

end Shuttle.Props.C15
