import Shuttle.Model.Sched
/-!
# C03 — schedule→path lowering preserves calls, grouping, order and arguments

`C03_pass_eq_spec`: on well-formed sources the pass (canonicalise, rewrite calls, rewrite
regions, each post-order) produces exactly the specified lowering, for region trees of any
depth and width.  Further theorems are read off the specification: nothing of the schedule
dialect is left, every call yields exactly one path in source order, plays and other
statements keep their relative order.
-/
namespace Shuttle.Props.C03
open Shuttle.Sched

/-! ### helper equations -/

theorem callsList_append (r : Option Kind) (a b : List Src) :
    callsList r (a ++ b) = callsList r a ++ callsList r b := by
  induction a with
  | nil => simp [callsList]
  | cons x xs ih => simp [callsList, ih]

theorem regionMembers_append (a b : List Mid) :
    regionMembers (a ++ b) = regionMembers a ++ regionMembers b := by
  induction a with
  | nil => simp [regionMembers]
  | cons x xs ih => simp [regionMembers, ih]

theorem spliceSame_cons (k : Kind) (x : Src) (xs : List Src) :
    spliceSame k (x :: xs) = spliceSame k [x] ++ spliceSame k xs := by
  cases x <;> simp [spliceSame]

theorem members_append (k : Kind) (a b : List Src) : members k (a ++ b) = members k a ++ members k b := by
  induction a with
  | nil => simp [members]
  | cons x xs ih => simp [members, ih]

/-! ### the members of a block -/

mutual
theorem membersList_ok : (b : List Src) → (k : Kind) → wfIn k b = true →
    regionMembers (callsList (some k) (spliceSame k (canonList b))) = members k b
  | [], k, _ => by simp [canonList, spliceSame, callsList, regionMembers, members]
  | s :: ss, k, h => by
    simp only [wfIn, Bool.and_eq_true] at h
    have h1 := memberStmt_ok s k h.1
    have h2 := membersList_ok ss k h.2
    simp only [canonList, members]
    rw [spliceSame_cons, callsList_append, regionMembers_append, h1, h2]
theorem memberStmt_ok : (s : Src) → (k : Kind) → wfInStmt k s = true →
    regionMembers (callsList (some k) (spliceSame k [canonStmt s])) = memberOf k s
  | .call id, k, _ => by cases k <;> simp [canonStmt, spliceSame, callsList, callsStmt, regionMembers, regionMember, memberOf]
  | .invoke id, k, h => by
    simp only [wfInStmt, beq_iff_eq] at h
    subst h
    simp [canonStmt, spliceSame, callsList, callsStmt, regionMembers, regionMember, memberOf]
  | .region k' body, k, h => by
    simp only [wfInStmt] at h
    have ih := membersList_ok body k' h
    by_cases hk : k' = k
    · subst hk
      simp only [canonStmt, spliceSame, if_true, List.append_nil, memberOf]
      exact ih
    · simp only [canonStmt, spliceSame, hk, if_false, List.append_nil, callsList, callsStmt, regionMembers,
        regionMember, memberOf, ih]
  | .other t, k, h => by simp [wfInStmt] at h
  | .ctrl t bs, k, h => by simp [wfInStmt] at h
end

/-! ### the whole pass -/

mutual
theorem passList_ok : (p : List Src) → wf p = true →
    regionsList (callsList none (canonList p)) = lowerSpec p
  | [], _ => by simp [canonList, callsList, regionsList, lowerSpec]
  | s :: ss, h => by
    simp only [wf, Bool.and_eq_true] at h
    simp only [canonList, callsList, regionsList, lowerSpec, passStmt_ok s h.1, passList_ok ss h.2]
theorem passStmt_ok : (s : Src) → wfStmt s = true →
    regionsStmt (callsStmt none (canonStmt s)) = lowerStmt s
  | .call id, _ => by simp [canonStmt, callsStmt, regionsStmt, lowerStmt]
  | .invoke id, h => by simp [wfStmt] at h
  | .region k body, h => by
    simp only [wfStmt] at h
    simp only [canonStmt, callsStmt, regionsStmt, lowerStmt, membersList_ok body k h]
  | .other t, _ => by simp [canonStmt, callsStmt, regionsStmt, lowerStmt]
  | .ctrl t bs, h => by
    simp only [wfStmt] at h
    simp only [canonStmt, callsStmt, regionsStmt, lowerStmt, passBodies_ok bs h]
theorem passBodies_ok : (bs : List (List Src)) → wfBodies bs = true →
    regionsBodies (callsBodies (canonBodies bs)) = lowerBodies bs
  | [], _ => by simp [canonBodies, callsBodies, regionsBodies, lowerBodies]
  | b :: bs, h => by
    simp only [wfBodies, Bool.and_eq_true] at h
    simp only [canonBodies, callsBodies, regionsBodies, lowerBodies, passList_ok b h.1, passBodies_ok bs h.2]
end

/-- **The pass computes the specified lowering**, for region trees of any depth and width. -/
theorem C03_pass_eq_spec (p : List Src) (h : wf p = true) : passModel p = lowerSpec p :=
  passList_ok p h

/-! ### what the specification guarantees -/

mutual
/-- the call ids of a source, in source order (left to right, depth first) -/
def callIds : List Src → List Nat
  | [] => []
  | s :: ss => callIdsStmt s ++ callIds ss
def callIdsStmt : Src → List Nat
  | .call id => [id]
  | .invoke id => [id]
  | .region _ body => callIds body
  | .other _ => []
  | .ctrl _ bodies => callIdsBodies bodies
def callIdsBodies : List (List Src) → List Nat
  | [] => []
  | b :: bs => callIds b ++ callIdsBodies bs
end

mutual
def genIdsP : PathE → List Nat
  | .gen id _ => [id]
  | .group _ ms => genIdsPs ms
def genIdsPs : List PathE → List Nat
  | [] => []
  | p :: ps => genIdsP p ++ genIdsPs ps
end

mutual
/-- the ids of the generated paths of a lowered program, in order -/
def genIds : List Out → List Nat
  | [] => []
  | o :: os => genIdsOut o ++ genIds os
def genIdsOut : Out → List Nat
  | .play p => genIdsP p
  | .other _ => []
  | .ctrl _ bodies => genIdsBodies bodies
  | .leftover _ => []
def genIdsBodies : List (List Out) → List Nat
  | [] => []
  | b :: bs => genIds b ++ genIdsBodies bs
end

theorem genIdsPs_append (a b : List PathE) : genIdsPs (a ++ b) = genIdsPs a ++ genIdsPs b := by
  induction a with
  | nil => simp [genIdsPs]
  | cons x xs ih => simp [genIdsPs, ih]

theorem genIds_append (a b : List Out) : genIds (a ++ b) = genIds a ++ genIds b := by
  induction a with
  | nil => simp [genIds]
  | cons x xs ih => simp [genIds, ih]

mutual
theorem members_ids : (b : List Src) → (k : Kind) → wfIn k b = true → genIdsPs (members k b) = callIds b
  | [], k, _ => by simp [members, genIdsPs, callIds]
  | s :: ss, k, h => by
    simp only [wfIn, Bool.and_eq_true] at h
    simp only [members, callIds, genIdsPs_append, memberOf_ids s k h.1, members_ids ss k h.2]
theorem memberOf_ids : (s : Src) → (k : Kind) → wfInStmt k s = true → genIdsPs (memberOf k s) = callIdsStmt s
  | .call id, k, _ => by simp [memberOf, genIdsPs, genIdsP, callIdsStmt]
  | .invoke id, k, _ => by simp [memberOf, genIdsPs, genIdsP, callIdsStmt]
  | .region k' body, k, h => by
    simp only [wfInStmt] at h
    by_cases hk : k' = k
    · subst hk; simp only [memberOf, if_true, callIdsStmt]; exact members_ids body k' h
    · simp only [memberOf, hk, if_false, genIdsPs, genIdsP, List.append_nil, callIdsStmt]
      exact members_ids body k' h
  | .other t, k, h => by simp [wfInStmt] at h
  | .ctrl t bs, k, h => by simp [wfInStmt] at h
end

mutual
theorem lower_ids : (p : List Src) → wf p = true → genIds (lowerSpec p) = callIds p
  | [], _ => by simp [lowerSpec, genIds, callIds]
  | s :: ss, h => by
    simp only [wf, Bool.and_eq_true] at h
    simp only [lowerSpec, callIds, genIds_append, lowerStmt_ids s h.1, lower_ids ss h.2]
theorem lowerStmt_ids : (s : Src) → wfStmt s = true → genIds (lowerStmt s) = callIdsStmt s
  | .call id, _ => by simp [lowerStmt, genIds, genIdsOut, genIdsP, callIdsStmt]
  | .invoke id, h => by simp [wfStmt] at h
  | .region k body, h => by
    simp only [wfStmt] at h
    simp only [lowerStmt, genIds, genIdsOut, genIdsP, List.append_nil, callIdsStmt]
    exact members_ids body k h
  | .other t, _ => by simp [lowerStmt, genIds, genIdsOut, callIdsStmt]
  | .ctrl t bs, h => by
    simp only [wfStmt] at h
    simp only [lowerStmt, genIds, genIdsOut, List.append_nil, callIdsStmt]
    exact lowerBodies_ids bs h
theorem lowerBodies_ids : (bs : List (List Src)) → wfBodies bs = true → genIdsBodies (lowerBodies bs) = callIdsBodies bs
  | [], _ => by simp [lowerBodies, genIdsBodies, callIdsBodies]
  | b :: bs, h => by
    simp only [wfBodies, Bool.and_eq_true] at h
    simp only [lowerBodies, genIdsBodies, callIdsBodies, lower_ids b h.1, lowerBodies_ids bs h.2]
end

/-- **every call yields exactly one path, and the paths come in source order** -/
theorem C03_each_call_once_in_order (p : List Src) (h : wf p = true) :
    genIds (passModel p) = callIds p := by
  rw [C03_pass_eq_spec p h]; exact lower_ids p h

mutual
def noLeftover : List Out → Bool
  | [] => true
  | o :: os => noLeftoverOut o && noLeftover os
def noLeftoverOut : Out → Bool
  | .leftover _ => false
  | .ctrl _ bodies => noLeftoverBodies bodies
  | _ => true
def noLeftoverBodies : List (List Out) → Bool
  | [] => true
  | b :: bs => noLeftover b && noLeftoverBodies bs
end

theorem noLeftover_append (a b : List Out) : noLeftover (a ++ b) = (noLeftover a && noLeftover b) := by
  induction a with
  | nil => simp [noLeftover]
  | cons x xs ih => simp [noLeftover, ih, Bool.and_assoc]

mutual
theorem lower_clean : (p : List Src) → wf p = true → noLeftover (lowerSpec p) = true
  | [], _ => by simp [lowerSpec, noLeftover]
  | s :: ss, h => by
    simp only [wf, Bool.and_eq_true] at h
    simp only [lowerSpec, noLeftover_append, lowerStmt_clean s h.1, lower_clean ss h.2, Bool.and_self]
theorem lowerStmt_clean : (s : Src) → wfStmt s = true → noLeftover (lowerStmt s) = true
  | .call id, _ => by simp [lowerStmt, noLeftover, noLeftoverOut]
  | .invoke id, h => by simp [wfStmt] at h
  | .region k body, _ => by simp [lowerStmt, noLeftover, noLeftoverOut]
  | .other t, _ => by simp [lowerStmt, noLeftover, noLeftoverOut]
  | .ctrl t bs, h => by
    simp only [wfStmt] at h
    simp only [lowerStmt, noLeftover, noLeftoverOut, Bool.and_true]
    exact lowerBodies_clean bs h
theorem lowerBodies_clean : (bs : List (List Src)) → wfBodies bs = true → noLeftoverBodies (lowerBodies bs) = true
  | [], _ => by simp [lowerBodies, noLeftoverBodies]
  | b :: bs, h => by
    simp only [wfBodies, Bool.and_eq_true] at h
    simp only [lowerBodies, noLeftoverBodies, lower_clean b h.1, lowerBodies_clean bs h.2, Bool.and_self]
end

/-- **no schedule block, device call or stray path value survives**: the lowered program
consists of plays, the other statements and control flow only (the `Out` type has no
constructor for regions or calls; `leftover` marks what a rule could not handle) -/
theorem C03_no_schedule_left (p : List Src) (h : wf p = true) : noLeftover (passModel p) = true := by
  rw [C03_pass_eq_spec p h]; exact lower_clean p h

/-- the statements at one nesting level keep their relative order: lowering a
concatenation is the concatenation of the lowerings -/
theorem C03_order (a b : List Src) : lowerSpec (a ++ b) = lowerSpec a ++ lowerSpec b := by
  induction a with
  | nil => simp [lowerSpec]
  | cons x xs ih => simp [lowerSpec, ih]

/-- one statement in, one play out: a call or a block at statement level becomes exactly one `play` -/
theorem C03_one_play (id : Nat) (k : Kind) (body : List Src) :
    lowerStmt (.call id) = [.play (.gen id false)] ∧
    lowerStmt (.region k body) = [.play (.group k (members k body))] := by
  simp [lowerStmt]

/-- non-vacuity (the F3 witness): a nested auto inside nested parallels keeps its own group -/
example :
    let src : List Src := [.region .parallel [.region .parallel [.region .auto [.call 1, .call 2], .call 3], .call 4]]
    wf src = true ∧
    passModel src = [.play (.group .parallel [.group .auto [.gen 1 true, .gen 2 true], .gen 3 false, .gen 4 false])] := by
  constructor <;> rfl

end Shuttle.Props.C03
