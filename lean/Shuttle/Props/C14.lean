import Shuttle.Model.StdLib
import Shuttle.Lemmas.BBox
/-!
# C14 — library builders produce the documented geometry

For all sizes and spacings: the single-zone builder's sites are exactly `(i·s, j·s)`;
the deprecated builder equals its replacement; capability sets only name existing zones.
Gemini (closed terms): shapes, block sizes, blocks are sub-sets of their parent zone,
constants agree with the geometry — by kernel evaluation of the model.
-/
namespace Shuttle.Props.C14
open Shuttle StdLib

/-- positions of an evenly spaced axis -/
theorem axisPositions_replicate (n : Nat) (s : Rat) : ∀ p : Rat,
    Grid.axisPositions (some p) (List.replicate n s) =
      (List.range (n + 1)).map fun (i : Nat) => p + (i : Rat) * s := by
  induction n with
  | zero => intro p; simp only [List.replicate_zero, Grid.axisPositions, List.range_one, List.map_cons, List.map_nil]; congr 1; grind
  | succ k ih =>
    intro p
    simp only [List.replicate_succ, Grid.axisPositions, ih]
    rw [List.range_succ_eq_map (n := k + 1)]
    simp only [List.map_cons, List.map_map]
    congr 1
    · grind
    · apply List.map_congr_left
      intro i _
      simp only [Function.comp_apply]
      have : ((i.succ : Nat) : Rat) = (i : Rat) + 1 := by simp
      rw [this]; grind

/-- **single zone, all sizes**: the x positions are `i·s` for `i < num_x`, the y positions
`j·s` for `j < num_y` -/
theorem C14_single_zone_sites (nx ny : Nat) (s : Rat) (hx : 1 ≤ nx) (hy : 1 ≤ ny) :
    ∃ g, (singleZone nx ny s).layout.staticTraps = [("traps", g)] ∧
      g.xPositions = (List.range nx).map (fun (i : Nat) => (i : Rat) * s) ∧
      g.yPositions = (List.range ny).map (fun (j : Nat) => (j : Rat) * s) := by
  refine ⟨_, rfl, ?_, ?_⟩
  · simp only [Grid.xPositions, rep]
    have : ((nx : Int) - 1).toNat = nx - 1 := by omega
    rw [this, axisPositions_replicate]
    have : nx - 1 + 1 = nx := by omega
    rw [this]
    apply List.map_congr_left; intro i _; grind
  · simp only [Grid.yPositions, rep]
    have : ((ny : Int) - 1).toNat = ny - 1 := by omega
    rw [this, axisPositions_replicate]
    have : ny - 1 + 1 = ny := by omega
    rw [this]
    apply List.map_congr_left; intro i _; grind

/-- the deprecated builder equals its replacement, for all arguments -/
theorem C14_deprecated_eq (nx ny : Int) (s : Rat) : singleZoneOld nx ny s = singleZone nx ny s := rfl

/-- capability sets only name existing zones (single zone and two column, all sizes) -/
def capsOK (s : ArchSpec) : Bool :=
  let names := s.layout.staticTraps.map (·.1)
  s.layout.fillable.all (· ∈ names) && s.layout.hasCz.all (· ∈ names) && s.layout.hasLocal.all (· ∈ names)

theorem C14_single_caps (nx ny : Int) (s : Rat) : capsOK (singleZone nx ny s) = true := by
  simp [capsOK, singleZone]

theorem C14_twocol_caps (nx ny : Int) (s gs : Rat) (sp : ArchSpec) (h : twoCol nx ny s gs = some sp) :
    capsOK sp = true := by
  unfold twoCol at h
  simp only [Option.bind_eq_bind, Option.bind_eq_some_iff] at h
  obtain ⟨l, _, r, _, h⟩ := h
  simp at h; subst h
  simp [capsOK]

/-! ### Gemini: closed terms, decided by kernel evaluation of the model -/

def zoneOf (s : ArchSpec) (n : String) : Option Grid :=
  (s.layout.staticTraps.lookup n).or (s.layout.specialGrid.lookup n)

def subsetSites (a b : Grid) : Bool := a.positions.all (· ∈ b.positions)

def blockOK (s : ArchSpec) (blk parent : String) (nx ny : Nat) : Bool :=
  match zoneOf s blk, zoneOf s parent with
  | some b, some p => subsetSites b p && b.numX == nx && b.numY == ny
  | _, _ => false

/-- documented sizes of the Gemini zones -/
theorem C14_gemini_shapes :
    (geminiLogical.bind fun s => (zoneOf s "gate_zone").map Grid.shape) = some (34, 5) ∧
    (geminiLogical.bind fun s => (zoneOf s "top_reservoir").map Grid.shape) = some (34, 19) ∧
    (geminiLogical.bind fun s => (zoneOf s "bottom_reservoir").map Grid.shape) = some (34, 19) ∧
    (geminiLogical.bind fun s => (zoneOf s "aom_sites").map Grid.shape) = some (17, 5) := by
  decide +kernel

/-- every block is a 7 × 5 view (sub-set of sites) of its parent reservoir / gate zone -/
theorem C14_gemini_blocks :
    (geminiLogical.map fun s =>
      ["GL0_block", "GL1_block", "GR0_block", "GR1_block"].all (blockOK s · "gate_zone" 7 5) &&
      ["SL0_block", "SL1_block", "SR0_block", "SR1_block"].all (blockOK s · "top_reservoir" 7 5) &&
      ["ML0_block", "ML1_block", "MR0_block", "MR1_block"].all (blockOK s · "bottom_reservoir" 7 5) &&
      ["AOM0_block", "AOM1_block"].all (blockOK s · "aom_sites" 7 5) &&
      blockOK s "left_gate_zone_sites" "gate_zone" 17 5 && blockOK s "right_gate_zone_sites" "gate_zone" 17 5 &&
      blockOK s "GL_blocks" "left_gate_zone_sites" 14 5 && blockOK s "GR_blocks" "right_gate_zone_sites" 14 5)
    = some true := by
  decide +kernel

/-- published constants agree with the geometry -/
theorem C14_gemini_constants :
    (geminiLogical.map fun s =>
      (s.intC.lookup "code_size", s.intC.lookup "logical_rows", s.intC.lookup "logical_cols"))
      = some (some 7, some 5, some 2) ∧
    (geminiLogical.map fun s =>
      (s.floatC.lookup "row_separation", s.floatC.lookup "col_separation", s.floatC.lookup "gate_spacing"))
      = some (some 10, some 8, some 2) ∧
    (geminiLogical.bind fun s => (zoneOf s "gate_zone").map fun g => (g.xSpacing.take 3, g.ySpacing.take 1))
      = some ([2, 8, 2], [10]) := by
  refine ⟨?_, ?_, ?_⟩ <;> decide +kernel

theorem C14_gemini_caps :
    (geminiLogical.map capsOK) = some true ∧ (geminiBase.map capsOK) = some true := by
  decide +kernel

/-- non-vacuity: the two-column builder on a concrete size -/
example : (twoCol 2 1 10 2).map (fun s => s.layout.staticTraps.map fun p => (p.1, p.2.xPositions)) =
    some [("traps", [0, 2, 12, 14]), ("left_traps", [0, 12]), ("right_traps", [2, 14])] := by
  decide +kernel

end Shuttle.Props.C14
