import Shuttle.Model.StdLib
import Shuttle.Lemmas.BBox
import Shuttle.Lemmas.SubGrid
/-!
# C14 — library builders produce the documented geometry

For all sizes and spacings: the single-zone builder's sites are exactly `(i·s, j·s)`;
the deprecated builder equals its replacement; capability sets only name existing zones.
Gemini (closed terms): shapes, block sizes, blocks are sub-sets of their parent zone,
constants agree with the geometry — by kernel evaluation of the model.
-/
namespace Shuttle.Props.C14
open Shuttle StdLib

/-- positions of an evenly spaced axis -/
theorem axisPositions_replicate (n : Nat) (s : Rat) : ∀ p : Rat,
    Grid.axisPositions (some p) (List.replicate n s) =
      (List.range (n + 1)).map fun (i : Nat) => p + (i : Rat) * s := by
  induction n with
  | zero => intro p; simp only [List.replicate_zero, Grid.axisPositions, List.range_one, List.map_cons, List.map_nil]; congr 1; grind
  | succ k ih =>
    intro p
    simp only [List.replicate_succ, Grid.axisPositions, ih]
    rw [List.range_succ_eq_map (n := k + 1)]
    simp only [List.map_cons, List.map_map]
    congr 1
    · grind
    · apply List.map_congr_left
      intro i _
      simp only [Function.comp_apply]
      have : ((i.succ : Nat) : Rat) = (i : Rat) + 1 := by simp
      rw [this]; grind

/-- **single zone, all sizes**: the x positions are `i·s` for `i < num_x`, the y positions
`j·s` for `j < num_y` -/
theorem C14_single_zone_sites (nx ny : Nat) (s : Rat) (hx : 1 ≤ nx) (hy : 1 ≤ ny) :
    ∃ g, (singleZone nx ny s).layout.staticTraps = [("traps", g)] ∧
      g.xPositions = (List.range nx).map (fun (i : Nat) => (i : Rat) * s) ∧
      g.yPositions = (List.range ny).map (fun (j : Nat) => (j : Rat) * s) := by
  refine ⟨_, rfl, ?_, ?_⟩
  · simp only [Grid.xPositions, rep]
    have : ((nx : Int) - 1).toNat = nx - 1 := by omega
    rw [this, axisPositions_replicate]
    have : nx - 1 + 1 = nx := by omega
    rw [this]
    apply List.map_congr_left; intro i _; grind
  · simp only [Grid.yPositions, rep]
    have : ((ny : Int) - 1).toNat = ny - 1 := by omega
    rw [this, axisPositions_replicate]
    have : ny - 1 + 1 = ny := by omega
    rw [this]
    apply List.map_congr_left; intro i _; grind

/-- the deprecated builder equals its replacement, for all arguments -/
theorem C14_deprecated_eq (nx ny : Int) (s : Rat) : singleZoneOld nx ny s = singleZone nx ny s := rfl

/-- capability sets only name existing zones (single zone and two column, all sizes) -/
def capsOK (s : ArchSpec) : Bool :=
  let names := s.layout.staticTraps.map (·.1)
  s.layout.fillable.all (· ∈ names) && s.layout.hasCz.all (· ∈ names) && s.layout.hasLocal.all (· ∈ names)

theorem C14_single_caps (nx ny : Int) (s : Rat) : capsOK (singleZone nx ny s) = true := by
  simp [capsOK, singleZone]

theorem C14_twocol_caps (nx ny : Int) (s gs : Rat) (sp : ArchSpec) (h : twoCol nx ny s gs = some sp) :
    capsOK sp = true := by
  unfold twoCol at h
  simp only [Option.bind_eq_bind, Option.bind_eq_some_iff] at h
  obtain ⟨l, _, r, _, h⟩ := h
  simp at h; subst h
  simp [capsOK]

/-! ### Gemini: closed terms, decided by kernel evaluation of the model -/

def zoneOf (s : ArchSpec) (n : String) : Option Grid :=
  (s.layout.staticTraps.lookup n).or (s.layout.specialGrid.lookup n)

def subsetSites (a b : Grid) : Bool := a.positions.all (· ∈ b.positions)

def blockOK (s : ArchSpec) (blk parent : String) (nx ny : Nat) : Bool :=
  match zoneOf s blk, zoneOf s parent with
  | some b, some p => subsetSites b p && b.numX == nx && b.numY == ny
  | _, _ => false

/-- documented sizes of the Gemini zones -/
theorem C14_gemini_shapes :
    (geminiLogical.bind fun s => (zoneOf s "gate_zone").map Grid.shape) = some (34, 5) ∧
    (geminiLogical.bind fun s => (zoneOf s "top_reservoir").map Grid.shape) = some (34, 19) ∧
    (geminiLogical.bind fun s => (zoneOf s "bottom_reservoir").map Grid.shape) = some (34, 19) ∧
    (geminiLogical.bind fun s => (zoneOf s "aom_sites").map Grid.shape) = some (17, 5) := by
  decide +kernel

/-- every block is a 7 × 5 view (sub-set of sites) of its parent reservoir / gate zone -/
theorem C14_gemini_blocks :
    (geminiLogical.map fun s =>
      ["GL0_block", "GL1_block", "GR0_block", "GR1_block"].all (blockOK s · "gate_zone" 7 5) &&
      ["SL0_block", "SL1_block", "SR0_block", "SR1_block"].all (blockOK s · "top_reservoir" 7 5) &&
      ["ML0_block", "ML1_block", "MR0_block", "MR1_block"].all (blockOK s · "bottom_reservoir" 7 5) &&
      ["AOM0_block", "AOM1_block"].all (blockOK s · "aom_sites" 7 5) &&
      blockOK s "left_gate_zone_sites" "gate_zone" 17 5 && blockOK s "right_gate_zone_sites" "gate_zone" 17 5 &&
      blockOK s "GL_blocks" "left_gate_zone_sites" 14 5 && blockOK s "GR_blocks" "right_gate_zone_sites" 14 5)
    = some true := by
  decide +kernel

/-- published constants agree with the geometry -/
theorem C14_gemini_constants :
    (geminiLogical.map fun s =>
      (s.intC.lookup "code_size", s.intC.lookup "logical_rows", s.intC.lookup "logical_cols"))
      = some (some 7, some 5, some 2) ∧
    (geminiLogical.map fun s =>
      (s.floatC.lookup "row_separation", s.floatC.lookup "col_separation", s.floatC.lookup "gate_spacing"))
      = some (some 10, some 8, some 2) ∧
    (geminiLogical.bind fun s => (zoneOf s "gate_zone").map fun g => (g.xSpacing.take 3, g.ySpacing.take 1))
      = some ([2, 8, 2], [10]) := by
  refine ⟨?_, ?_, ?_⟩ <;> decide +kernel

theorem C14_gemini_caps :
    (geminiLogical.map capsOK) = some true ∧ (geminiBase.map capsOK) = some true := by
  decide +kernel

/-- non-vacuity: the two-column builder on a concrete size -/
example : (twoCol 2 1 10 2).map (fun s => s.layout.staticTraps.map fun p => (p.1, p.2.xPositions)) =
    some [("traps", [0, 2, 12, 14]), ("left_traps", [0, 12]), ("right_traps", [2, 14])] := by
  decide +kernel

end Shuttle.Props.C14

namespace Shuttle.Props.C14
open Shuttle StdLib

/-! ### two-column builder, all sizes: the left / right partition -/

theorem sumRat_replicate (s : Rat) : ∀ n : Nat, sumRat (List.replicate n s) = (n : Rat) * s := by
  intro n
  induction n with
  | zero => simp [sumRat]
  | succ k ih => rw [List.replicate_succ, sumRat_cons, ih]; push_cast; grind

theorem posAt_replicate (s : Rat) (m j : Nat) (h : j ≤ m) : posAt 0 (List.replicate m s) j = (j : Rat) * s := by
  simp only [posAt, List.take_replicate, Nat.min_eq_left h, sumRat_replicate]; grind

/-- prefix sums of the two-column spacing `gs, s, gs, s, …, gs` -/
theorem sum_pairs_even (gs s : Rat) : ∀ (k n : Nat), k ≤ n →
    sumRat ((pairs gs s n ++ [gs]).take (2 * k)) = (k : Rat) * (gs + s) := by
  intro k
  induction k with
  | zero => intro n _; simp [sumRat]
  | succ k ih =>
    intro n hn
    cases n with
    | zero => omega
    | succ n =>
      have : 2 * (k + 1) = (2 * k) + 1 + 1 := by omega
      rw [this]
      simp only [pairs, List.cons_append, List.take_succ_cons, sumRat_cons]
      rw [ih n (by omega)]
      push_cast; grind

theorem sum_pairs_odd (gs s : Rat) : ∀ (k n : Nat), k ≤ n →
    sumRat ((pairs gs s n ++ [gs]).take (2 * k + 1)) = (k : Rat) * (gs + s) + gs := by
  intro k
  induction k with
  | zero =>
    intro n _
    cases n with
    | zero => simp [pairs, sumRat]
    | succ n => simp [pairs, sumRat_cons, sumRat]
  | succ k ih =>
    intro n hn
    cases n with
    | zero => omega
    | succ n =>
      have : 2 * (k + 1) + 1 = (2 * k + 1) + 1 + 1 := by omega
      rw [this]
      simp only [pairs, List.cons_append, List.take_succ_cons, sumRat_cons]
      rw [ih n (by omega)]
      push_cast; grind

theorem pairs_length (gs s : Rat) : ∀ n, (pairs gs s n).length = 2 * n
  | 0 => rfl
  | n + 1 => by simp [pairs, pairs_length gs s n]; omega

theorem ascLe_map_range' (n : Nat) (f : Nat → Nat) (hmono : ∀ i, f i ≤ f (i + 1)) :
    ∀ (m a : Nat), (∀ i, i < a + m → f i ≤ n) → AscLe n ((List.range' a m).map f) := by
  intro m
  induction m with
  | zero => intro a _; simp [AscLe]
  | succ m ih =>
    intro a hb
    cases m with
    | zero => simp [List.range', AscLe]; exact hb a (by omega)
    | succ m =>
      have := ih (a + 1) (by intro i hi; exact hb i (by omega))
      simp only [List.range'_succ, List.map_cons] at this ⊢
      exact ⟨hmono a, this⟩

theorem ascLe_map_range (n m : Nat) (f : Nat → Nat) (hmono : ∀ i, f i ≤ f (i + 1)) (hb : ∀ i, i < m → f i ≤ n) :
    AscLe n ((List.range m).map f) := by
  rw [List.range_eq_range']
  exact ascLe_map_range' n f hmono m 0 (by simpa using hb)

theorem range2_even (nx : Nat) : range2 0 ((nx : Int) * 2) = ((List.range nx).map (2 * ·)).map Int.ofNat := by
  unfold range2
  have : (((nx : Int) * 2 - 0 + 1) / 2).toNat = nx := by omega
  rw [this, List.map_map]
  apply List.map_congr_left
  intro k _
  simp

theorem range2_odd (nx : Nat) : range2 1 ((nx : Int) * 2) = ((List.range nx).map (2 * · + 1)).map Int.ofNat := by
  unfold range2
  have : (((nx : Int) * 2 - 1 + 1) / 2).toNat = nx := by omega
  rw [this, List.map_map]
  apply List.map_congr_left
  intro k _
  simp; omega

theorem rangeI_nat (ny : Nat) : rangeI (ny : Int) = (List.range ny).map Int.ofNat := by
  simp [rangeI]

end Shuttle.Props.C14

namespace Shuttle.Props.C14
open Shuttle StdLib

/-- **two-column builder, all sizes**: `left_traps` are the columns at `k·(gate_spacing + spacing)`, `right_traps` the
columns `gate_spacing` to their right (so the two zones partition the column pairs of `traps`, partners exactly
`gate_spacing` apart), and both have the rows `j·spacing`. -/
theorem C14_two_col_sites (nx ny : Nat) (s gs : Rat) (hx : 1 ≤ nx) (hy : 1 ≤ ny) :
    ∃ all left right, twoCol nx ny s gs =
        some { layout := ⟨[("traps", all), ("left_traps", left), ("right_traps", right)], ["left_traps"], ["traps"], ["traps"], []⟩,
               floatC := [], intC := [] } ∧
      left.xPositions = (List.range nx).map (fun (k : Nat) => (k : Rat) * (gs + s)) ∧
      right.xPositions = (List.range nx).map (fun (k : Nat) => (k : Rat) * (gs + s) + gs) ∧
      left.yPositions = (List.range ny).map (fun (j : Nat) => (j : Rat) * s) ∧
      right.yPositions = (List.range ny).map (fun (j : Nat) => (j : Rat) * s) ∧
      (∀ p ∈ left.positions, p ∈ all.positions) ∧ (∀ p ∈ right.positions, p ∈ all.positions) := by
  let all : Grid := ⟨pairs gs s (nx - 1) ++ [gs], List.replicate (ny - 1) s, some 0, some 0⟩
  have hxl : all.xSpacing.length = 2 * nx - 1 := by simp [all, pairs_length]; omega
  have hyl : all.ySpacing.length = ny - 1 := by simp [all]
  have e1 : ((nx : Int) - 1).toNat = nx - 1 := by omega
  have e2 : ((ny : Int) - 1).toNat = ny - 1 := by omega
  have aX0 : AscLe all.xSpacing.length ((List.range nx).map (2 * ·)) :=
    ascLe_map_range _ nx _ (by intro i; omega) (by intro i hi; rw [hxl]; omega)
  have aX1 : AscLe all.xSpacing.length ((List.range nx).map (2 * · + 1)) :=
    ascLe_map_range _ nx _ (by intro i; omega) (by intro i hi; rw [hxl]; omega)
  have aY : AscLe all.ySpacing.length ((List.range ny).map id) :=
    ascLe_map_range _ ny _ (by intro i; simp) (by intro i hi; rw [hyl]; simp; omega)
  simp only [List.map_id] at aY
  -- the two views exist
  have hne : ∀ (m : Nat) (f : Nat → Nat), 1 ≤ m → ((List.range m).map f).map Int.ofNat ≠ [] := by
    intro m f hm h
    have := congrArg List.length h
    simp at this; omega
  have hL : ∃ left, all.subGrid (((List.range nx).map (2 * ·)).map Int.ofNat) ((List.range ny).map Int.ofNat) = some left := by
    unfold Grid.subGrid
    have h1 := hne nx (2 * ·) hx
    have h2 : (List.range ny).map Int.ofNat ≠ [] := by
      intro h; have := congrArg List.length h; simp at this; omega
    simp [List.isEmpty_iff]
    omega
  have hR : ∃ right, all.subGrid (((List.range nx).map (2 * · + 1)).map Int.ofNat) ((List.range ny).map Int.ofNat) = some right := by
    unfold Grid.subGrid
    have h1 := hne nx (2 * · + 1) hx
    have h2 : (List.range ny).map Int.ofNat ≠ [] := by
      intro h; have := congrArg List.length h; simp at this; omega
    simp [List.isEmpty_iff]
    omega
  obtain ⟨left, hleft⟩ := hL
  obtain ⟨right, hright⟩ := hR
  obtain ⟨lx, ly⟩ := subGrid_positions all left 0 0 _ _ rfl rfl aX0 aY hleft
  obtain ⟨rx, ry⟩ := subGrid_positions all right 0 0 _ _ rfl rfl aX1 aY hright
  refine ⟨all, left, right, ?_, ?_, ?_, ?_, ?_, ?_, ?_⟩
  · simp only [twoCol, rep, e1, e2, range2_even, range2_odd, rangeI_nat, Option.bind_eq_bind]
    show (all.subGrid _ _).bind _ = _
    rw [hleft]
    simp only [Option.bind_some]
    show (all.subGrid _ _).bind _ = _
    rw [hright]
    rfl
  · rw [lx, List.map_map]
    apply List.map_congr_left
    intro k hk
    have hk' : k < nx := List.mem_range.1 hk
    simp only [Function.comp_apply, posAt, all, sum_pairs_even gs s k (nx - 1) (by omega)]
    grind
  · rw [rx, List.map_map]
    apply List.map_congr_left
    intro k hk
    have hk' : k < nx := List.mem_range.1 hk
    simp only [Function.comp_apply, posAt, all, sum_pairs_odd gs s k (nx - 1) (by omega)]
    grind
  · rw [ly]
    apply List.map_congr_left
    intro j hj
    have hj' : j < ny := List.mem_range.1 hj
    exact posAt_replicate s (ny - 1) j (by omega)
  · rw [ry]
    apply List.map_congr_left
    intro j hj
    have hj' : j < ny := List.mem_range.1 hj
    exact posAt_replicate s (ny - 1) j (by omega)
  · exact subGrid_sites_subset all left 0 0 _ _ rfl rfl aX0 aY hleft
  · exact subGrid_sites_subset all right 0 0 _ _ rfl rfl aX1 aY hright

end Shuttle.Props.C14
