import Shuttle.Model.Visual
/-!
# C16 — the path visualizer replays events faithfully and in order
-/
namespace Shuttle.Props.C16
open Shuttle Shuttle.Lang Shuttle.Visual

/-- the regenerated dispatch table says what the property demands of every implementation -/
theorem C16_dispatch_ok :
    Gen.VisualDispatch.initRendersTraps = true ∧
    Gen.VisualDispatch.table = [("top_hat_cz", "top_hat_cz"), ("local_r", "local_r"), ("local_rz", "local_rz"),
      ("global_r", "global_r"), ("global_rz", "global_rz"), ("fill", "none"), ("measure", "none"),
      ("play", "render_path"), ("play_group", "render_path_each_in_order")] := by decide

theorem dispatch_vals :
    dispatch "top_hat_cz" = "top_hat_cz" ∧ dispatch "local_r" = "local_r" ∧ dispatch "local_rz" = "local_rz" ∧
    dispatch "global_r" = "global_r" ∧ dispatch "global_rz" = "global_rz" ∧ dispatch "fill" = "none" ∧
    dispatch "measure" = "none" ∧ dispatch "play" = "render_path" ∧
    dispatch "play_group" = "render_path_each_in_order" := by decide

theorem callsOf_eq_renderOf : callsOf = renderOf := by
  obtain ⟨h1, h2, h3, h4, h5, h6, h7, h8, h9⟩ := dispatch_vals
  funext e
  cases e <;> simp [callsOf, renderOf, h1, h2, h3, h4, h5, h6, h7, h8, h9]

/-- **Replay theorem**: the renderer receives one `render_traps` per static trap zone first,
then exactly the translation of the executed event sequence, in execution order — one call
per gate (with its zone and buffers), one per played path, one per member of a played
parallel group in order, nothing for fills and measurements. -/
theorem C16_replay (fuel : Nat) (c : Ctx) (traps : List (String × Grid)) (name : String) (args : List Val)
    (v : Val) (evs : List Event) (h : runKernel fuel c name args = .ok (v, evs)) :
    visualize fuel c traps name args =
      .ok (traps.map (fun p => Call.renderTraps p.2 p.1) ++ evs.flatMap renderOf) := by
  simp only [visualize, h, trapsPrefix, C16_dispatch_ok.1, if_true, callsOf_eq_renderOf]

/-- a program that fails in the evaluator fails in the visualizer too (no partial verdict) -/
theorem C16_error (fuel : Nat) (c : Ctx) (traps : List (String × Grid)) (name : String) (args : List Val)
    (e : Err) (h : runKernel fuel c name args = .error e) :
    visualize fuel c traps name args = .error e := by
  simp [visualize, h]

/-- order is preserved: the calls of a concatenation are the concatenation of the calls -/
theorem C16_order (a b : List Event) :
    (a ++ b).flatMap renderOf = a.flatMap renderOf ++ b.flatMap renderOf := by simp

example :
    let z : Grid := ⟨[1], [], some 0, some 0⟩
    let p : PathVal := ⟨[0], [0], [.way [z]]⟩
    [Event.fill [z], .cz z 3 2, .playGroup [p, p], .globalRz 1].flatMap renderOf =
      [.topHatCz z 3 2, .renderPath p, .renderPath p, .globalRz] := by decide

/-! ### corollaries of the replay theorem: nothing lost, nothing invented, traps first -/

/-- the paths an event plays, in order -/
def playedPaths : Event → List PathVal
  | .play p => [p]
  | .playGroup ps => ps
  | _ => []

/-- the path argument of a `render_path` call -/
def Call.path? : Call → Option PathVal
  | .renderPath p => some p
  | _ => none

theorem renderOf_paths (e : Event) : (renderOf e).filterMap Call.path? = playedPaths e := by
  cases e <;> simp [renderOf, playedPaths, Call.path?, List.filterMap_map, Function.comp_def]

theorem flatMap_filterMap_paths (evs : List Event) :
    (evs.flatMap renderOf).filterMap Call.path? = evs.flatMap playedPaths := by
  induction evs with
  | nil => rfl
  | cons e es ih => simp [List.flatMap_cons, List.filterMap_append, renderOf_paths, ih]

/-- **No path is lost, duplicated, reordered or invented**: the `render_path` calls the renderer
receives are exactly the played paths (group members flattened in group order), in execution
order — for every program, every argument list and every fuel. -/
theorem C16_paths_exact (fuel : Nat) (c : Ctx) (traps : List (String × Grid)) (name : String) (args : List Val)
    (v : Val) (evs : List Event) (h : runKernel fuel c name args = .ok (v, evs)) :
    ∃ calls, visualize fuel c traps name args = .ok calls ∧
      calls.filterMap Call.path? = evs.flatMap playedPaths := by
  refine ⟨_, C16_replay fuel c traps name args v evs h, ?_⟩
  simp [List.filterMap_append, flatMap_filterMap_paths, List.filterMap_map, Function.comp_def, Call.path?]

/-- **Traps first**: the first `traps.length` calls are the `render_traps` calls of the static
zones in table order, and none follows them. -/
theorem C16_traps_first (fuel : Nat) (c : Ctx) (traps : List (String × Grid)) (name : String) (args : List Val)
    (v : Val) (evs : List Event) (h : runKernel fuel c name args = .ok (v, evs)) :
    ∃ calls, visualize fuel c traps name args = .ok calls ∧
      calls.take traps.length = traps.map (fun p => Call.renderTraps p.2 p.1) ∧
      ∀ x ∈ calls.drop traps.length, ∀ z n, x ≠ Call.renderTraps z n := by
  refine ⟨_, C16_replay fuel c traps name args v evs h, ?_, ?_⟩
  · simp
  · have hl : (traps.map (fun p => Call.renderTraps p.2 p.1)).length = traps.length := by simp
    rw [← hl, List.drop_left]
    intro x hx z n
    simp only [List.mem_flatMap] at hx
    obtain ⟨e, _, hxe⟩ := hx
    cases e <;> simp [renderOf] at hxe <;> (try (rcases hxe with ⟨_, _, rfl⟩)) <;> (try subst hxe) <;> simp

/-- the number of calls is determined by the event log: one per static zone, one per gate, one
per played path -/
theorem C16_call_count (evs : List Event) :
    (evs.flatMap renderOf).length = (evs.map fun e => (renderOf e).length).sum := by
  induction evs with
  | nil => rfl
  | cons e es ih => simp [List.flatMap_cons, ih]

example :
    let z : Grid := ⟨[1], [], some 0, some 0⟩
    let p : PathVal := ⟨[0], [0], [.way [z]]⟩
    let q : PathVal := ⟨[1], [0], [.way [z]]⟩
    ([Event.play q, .cz z 3 2, .playGroup [p, q], .fill [z]].flatMap renderOf).filterMap Call.path? = [q, p, q] := by
  decide

end Shuttle.Props.C16
