import Shuttle.Model.ZoneAI
import Shuttle.Lemmas.ViewOfView
/-!
# C10 — zone analysis only attributes values to zones they belong to

`Sound sp a v`: what the abstract value `a` promises about the run-time value `v`.
`C10_transfer_sound`: every transfer function of the analysis keeps that promise, given that
it held for the operands; `C10_program_sound`: hence every hint of a straight-line block
is kept by every value that is actually computed, and a value flagged as coming from an
invalid zone name is never computed.  View statements are required to use ascending
in-range index lists (`StmtOK`); `C10_unsorted_view_escapes` shows that the requirement
cannot be dropped (finding F10, bloqade-geometry).
-/
namespace Shuttle.Props.C10
open Shuttle Shuttle.ZoneAI

/-- the promise of an abstract value -/
def Sound (sp : ZSpec) (a : Zone) (v : CVal) : Prop :=
  match a with
  | .invalid => False                       -- flagged invalid: never computed
  | .invalidId _ => False
  | .spec n => ∃ g gv, (g, n) ∈ sp.zoneIndex ∧ v = .grid gv ∧ gv.val = g     -- exactly that zone's grid
  | a => ∀ n, claims a = some n →            -- a view / sub-grid / item of zone n: all sites are sites of n
      ∃ g gv, (g, n) ∈ sp.zoneIndex ∧ v = .grid gv ∧ ∀ s ∈ gv.val.positions, s ∈ g.positions

def WFVal : CVal → Prop
  | .grid gv => WFView gv
  | .other => True

/-- what is assumed about the spec: static traps are indexed under their own name, and
every indexed grid has both axes (true of every constructed Layout, C13) -/
structure SpecOK (sp : ZSpec) : Prop where
  indexed : ∀ n g, sp.staticTraps.lookup n = some g → (g, n) ∈ sp.zoneIndex
  inits : ∀ g n, (g, n) ∈ sp.zoneIndex → ∃ px py, g.xInit = some px ∧ g.yInit = some py

/-- view statements use ascending in-range index lists (relative to the value they index);
grid constants have both axes -/
def StmtOK (cenv : List CVal) : ZStmt → Prop
  | .constGrid g => ∃ px py, g.xInit = some px ∧ g.yInit = some py
  | .constSub p xi yi => (∃ px py, p.xInit = some px ∧ p.yInit = some py) ∧
      ∃ ks js, xi = ks.map Int.ofNat ∧ yi = js.map Int.ofNat ∧ AscLt p.numX ks ∧ AscLt p.numY js
  | .subGrid v xi yi => ∀ g, cenv[v]? = some (.grid g) →
      ∃ ks js, xi = ks.map Int.ofNat ∧ yi = js.map Int.ofNat ∧ AscLt g.val.numX ks ∧ AscLt g.val.numY js
  | .getItem v ix iy => ∀ g, cenv[v]? = some (.grid g) →
      ∃ ks js, getIndices (g.val.xSpacing.length + 1) ix = some (ks.map Int.ofNat) ∧
        getIndices (g.val.ySpacing.length + 1) iy = some (js.map Int.ofNat) ∧
        AscLt g.val.numX ks ∧ AscLt g.val.numY js
  | _ => True

theorem lookup_mem {α β} [BEq α] [LawfulBEq α] (l : List (α × β)) (a : α) (b : β)
    (h : l.lookup a = some b) : (a, b) ∈ l := by
  induction l with
  | nil => simp at h
  | cons x t ih =>
    obtain ⟨a', b'⟩ := x
    simp only [List.lookup_cons] at h
    by_cases e : a == a'
    · simp only [e] at h
      have : a = a' := by simpa using e
      cases h; subst this; simp
    · simp only [e] at h
      exact List.mem_cons_of_mem _ (ih h)

theorem WFView_inits (gv : GridV) (h : WFView gv) : ∃ px py, gv.val.xInit = some px ∧ gv.val.yInit = some py := by
  unfold WFView at h
  cases hv : gv.view with
  | none => simpa [hv] using h
  | some pv =>
    obtain ⟨p, pxi, pyi⟩ := pv
    simp only [hv] at h
    obtain ⟨px, py, nxs, nys, hx, hy, rfl, rfl, _, _, hne1, hne2, hsub⟩ := h
    unfold Grid.subGrid at hsub
    cases nxs with
    | nil => exact absurd rfl hne1
    | cons a t =>
      cases nys with
      | nil => exact absurd rfl hne2
      | cons b u =>
        simp only [List.map_cons, List.isEmpty_cons, Bool.false_eq_true, or_self, if_false, Option.some.injEq] at hsub
        rw [← hsub]
        simp [Grid.subInit, hx, hy]

theorem WFView_plain (g : Grid) (h : ∃ px py, g.xInit = some px ∧ g.yInit = some py) : WFView (.plain g) := by
  simpa [WFView, GridV.plain] using h

/-- from a kept promise: the sites of the value are sites of the claimed zone -/
theorem Sound_sites (sp : ZSpec) (z : Zone) (gv : GridV) (n : String) (hs : Sound sp z (.grid gv))
    (hc : claims z = some n) : ∃ g, (g, n) ∈ sp.zoneIndex ∧ ∀ s ∈ gv.val.positions, s ∈ g.positions := by
  cases z with
  | spec m =>
    simp only [claims, Option.some.injEq] at hc; subst hc
    obtain ⟨g, gv', hm, he, hv⟩ := hs
    cases he
    exact ⟨g, hm, by intro s hs'; rw [← hv]; exact hs'⟩
  | sub z x y =>
    obtain ⟨g, gv', hm, he, hsub⟩ := hs n hc
    cases he; exact ⟨g, hm, hsub⟩
  | item z i =>
    obtain ⟨g, gv', hm, he, hsub⟩ := hs n hc
    cases he; exact ⟨g, hm, hsub⟩
  | notZone => simp [claims] at hc
  | unknown => simp [claims] at hc
  | invalid => exact absurd hs (by simp [Sound])
  | invalidId m => exact absurd hs (by simp [Sound])

theorem not_invalid_of_sound (sp : ZSpec) (z : Zone) (v : CVal) (h : Sound sp z v) : isInvalid z = false := by
  cases z <;> simp [isInvalid, Sound] at h ⊢

/-- a view of a value that keeps its promise keeps the promise of "view of …" -/
theorem view_sound (sp : ZSpec) (z z' : Zone) (g r : GridV) (hz : Sound sp z (.grid g)) (hw : WFView g)
    (hcl : claims z' = claims z) (hz' : ∀ m, z' ≠ .spec m) (hz'' : z' ≠ .invalid) (hz3 : ∀ m, z' ≠ .invalidId m)
    (ks js : List Nat) (hks : AscLt g.val.numX ks) (hjs : AscLt g.val.numY js)
    (h : g.getView (ks.map Int.ofNat) (js.map Int.ofNat) = some r) :
    Sound sp z' (.grid r) ∧ WFVal (.grid r) := by
  obtain ⟨hwr, hsub⟩ := getView_view_subset g r hw ks js hks hjs h
  refine ⟨?_, hwr⟩
  have key : ∀ n, claims z' = some n →
      ∃ g0 gv, (g0, n) ∈ sp.zoneIndex ∧ CVal.grid r = .grid gv ∧ ∀ s ∈ gv.val.positions, s ∈ g0.positions := by
    intro n hn
    rw [hcl] at hn
    obtain ⟨g0, hm, hs0⟩ := Sound_sites sp z g n hz hn
    exact ⟨g0, r, hm, rfl, fun s hs => hs0 s (hsub s hs)⟩
  cases z' with
  | spec m => exact absurd rfl (hz' m)
  | invalid => exact absurd rfl hz''
  | invalidId m => exact absurd rfl (hz3 m)
  | notZone => exact key
  | unknown => exact key
  | sub a b c => exact key
  | item a b => exact key

/-- **Every transfer function keeps the promise.** -/
theorem C10_transfer_sound (sp : ZSpec) (hsp : SpecOK sp) (aenv : List Zone) (cenv : List CVal)
    (henv : ∀ i v, cenv[i]? = some v → Sound sp (aenv.getD i .notZone) v ∧ WFVal v)
    (s : ZStmt) (v : CVal) (hs : conStep sp cenv s = some v) (hok : StmtOK cenv s) :
    Sound sp (absStep sp aenv s) v ∧ WFVal v := by
  cases s with
  | trap n =>
    simp only [conStep] at hs
    cases hl : sp.staticTraps.lookup n with
    | none => simp [hl] at hs
    | some g =>
      simp [hl] at hs; subst hs
      simp only [absStep, hl, Option.isSome_some, if_true]
      have hm := hsp.indexed n g hl
      exact ⟨⟨g, .plain g, hm, rfl, rfl⟩, WFView_plain g (hsp.inits g n hm)⟩
  | constGrid g =>
    simp only [conStep, Option.some.injEq] at hs; subst hs
    refine ⟨?_, WFView_plain g hok⟩
    simp only [absStep, gridLattice]
    cases hl : sp.zoneIndex.lookup g with
    | none => intro n hn; simp [claims] at hn
    | some n => exact ⟨g, .plain g, lookup_mem _ _ _ hl, rfl, rfl⟩
  | constSub p xi yi =>
    obtain ⟨hin, ks, js, rfl, rfl, hks, hjs⟩ := hok
    simp only [conStep] at hs
    cases hv : GridV.getView (.plain p) (ks.map Int.ofNat) (js.map Int.ofNat) with
    | none => simp [hv] at hs
    | some r =>
      simp [hv] at hs; subst hs
      have hwp := WFView_plain p hin
      have hzp : Sound sp (gridLattice sp p) (.grid (.plain p)) := by
        simp only [gridLattice]
        cases hl : sp.zoneIndex.lookup p with
        | none => intro n hn; simp [claims] at hn
        | some n => exact ⟨p, .plain p, lookup_mem _ _ _ hl, rfl, rfl⟩
      exact view_sound sp (gridLattice sp p) (.sub (gridLattice sp p) .notZone .notZone) (.plain p) r hzp hwp
        (by simp [claims]) (by intro m; simp) (by simp) (by intro m; simp) ks js hks hjs hv
  | constOther =>
    simp only [conStep, Option.some.injEq] at hs; subst hs
    exact ⟨by intro n hn; simp [absStep, claims] at hn, trivial⟩
  | subGrid i xi yi =>
    simp only [conStep] at hs
    cases hc : cenv[i]? with
    | none => simp [hc] at hs
    | some cv =>
      cases cv with
      | other => simp [hc] at hs
      | grid g =>
        simp only [hc] at hs
        obtain ⟨ks, js, rfl, rfl, hks, hjs⟩ := hok g hc
        cases hv : g.getView (ks.map Int.ofNat) (js.map Int.ofNat) with
        | none => simp [hv] at hs
        | some r =>
          simp [hv] at hs; subst hs
          obtain ⟨hz, hw⟩ := henv i (.grid g) hc
          have hni := not_invalid_of_sound sp _ _ hz
          simp only [absStep, hni, Bool.false_eq_true, if_false]
          exact view_sound sp _ (.sub (aenv.getD i .notZone) .notZone .notZone) g r hz hw
            (by simp [claims]) (by intro m; simp) (by simp) (by intro m; simp) ks js hks hjs hv
  | getItem i ix iy =>
    simp only [conStep] at hs
    cases hc : cenv[i]? with
    | none => simp [hc] at hs
    | some cv =>
      cases cv with
      | other => simp [hc] at hs
      | grid g =>
        simp only [hc] at hs
        obtain ⟨ks, js, hx, hy, hks, hjs⟩ := hok g hc
        simp only [GridV.getItem, hx, hy, Option.bind_eq_bind, Option.bind_some] at hs
        cases hv : g.getView (ks.map Int.ofNat) (js.map Int.ofNat) with
        | none => simp [hv] at hs
        | some r =>
          simp [hv] at hs; subst hs
          obtain ⟨hz, hw⟩ := henv i (.grid g) hc
          have hni := not_invalid_of_sound sp _ _ hz
          simp only [absStep, hni, Bool.false_eq_true, if_false]
          exact view_sound sp _ (.item (aenv.getD i .notZone) .notZone) g r hz hw
            (by simp [claims]) (by intro m; simp) (by simp) (by intro m; simp) ks js hks hjs hv
  | gridOp i dx dy =>
    simp only [conStep] at hs
    cases hc : cenv[i]? with
    | none => simp [hc] at hs
    | some cv =>
      cases cv with
      | other => simp [hc] at hs
      | grid g =>
        simp [hc] at hs; subst hs
        obtain ⟨_, hw⟩ := henv i (.grid g) hc
        obtain ⟨px, py, hx, hy⟩ := WFView_inits g hw
        refine ⟨by intro n hn; simp [absStep, claims] at hn, ?_⟩
        apply WFView_plain
        exact ⟨px + dx, py + dy, by simp [Grid.shift, hx], by simp [Grid.shift, hy]⟩
  | other =>
    simp only [conStep, Option.some.injEq] at hs; subst hs
    exact ⟨by intro n hn; simp [absStep, claims] at hn, trivial⟩

/-- every view statement met while running the block uses ascending in-range index lists -/
def RunOK (sp : ZSpec) : List CVal → List ZStmt → Prop
  | _, [] => True
  | env, s :: ss => StmtOK env s ∧ match conStep sp env s with
    | some v => RunOK sp (env ++ [v]) ss
    | none => True

theorem run_sound (sp : ZSpec) (hsp : SpecOK sp) (p : List ZStmt) : ∀ (aenv : List Zone) (cenv : List CVal),
    aenv.length = cenv.length →
    (∀ i v, cenv[i]? = some v → Sound sp (aenv.getD i .notZone) v ∧ WFVal v) → RunOK sp cenv p →
    ∀ i v, (conRun sp cenv p)[i]? = some v → Sound sp ((absRun sp aenv p).getD i .notZone) v ∧ WFVal v := by
  induction p with
  | nil => intro aenv cenv _ henv _ i v h; simpa [conRun, absRun] using henv i v h
  | cons s ss ih =>
    intro aenv cenv hlen henv hok i v h
    obtain ⟨hs, hrest⟩ := hok
    simp only [conRun] at h
    simp only [absRun]
    cases hc : conStep sp cenv s with
    | none =>
      -- the block raises here: only the values computed so far exist, and the later abstract
      -- values do not change the earlier ones
      simp only [hc] at h
      have := henv i v h
      have hi : i < aenv.length := by
        rw [hlen]; exact (List.getElem?_eq_some_iff.1 h).1
      have hpre : ∀ (q : List ZStmt) (e : List Zone), i < e.length → (absRun sp e q).getD i .notZone = e.getD i .notZone := by
        intro q
        induction q with
        | nil => intro e _; rfl
        | cons t ts ih2 =>
          intro e he
          simp only [absRun]
          rw [ih2 (e ++ [absStep sp e t]) (by simp; omega)]
          simp [List.getD_eq_getElem?_getD, List.getElem?_append_left he]
      rw [hpre ss (aenv ++ [absStep sp aenv s]) (by simp; omega)]
      simpa [List.getD_eq_getElem?_getD, List.getElem?_append_left hi] using this
    | some w =>
      simp only [hc] at h hrest
      have hstep := C10_transfer_sound sp hsp aenv cenv henv s w hc hs
      apply ih (aenv ++ [absStep sp aenv s]) (cenv ++ [w]) (by simp [hlen]) ?_ hrest i v h
      intro j u hj
      by_cases hjl : j < cenv.length
      · rw [List.getElem?_append_left hjl] at hj
        have := henv j u hj
        simpa [List.getD_eq_getElem?_getD, List.getElem?_append_left (hlen ▸ hjl)] using this
      · have hje : j = cenv.length := by
          have := (List.getElem?_eq_some_iff.1 hj).1
          simp at this; omega
        subst hje
        simp only [List.getElem?_append_right (Nat.le_refl _), Nat.sub_self, List.getElem?_cons_zero, Option.some.injEq] at hj
        subst hj
        simpa [List.getD_eq_getElem?_getD, ← hlen] using hstep

/-- **Soundness of the analysis on a straight-line block**: every value that is computed
keeps the promise of its hint — it *is* the named zone's grid, resp. all its sites are
sites of the named zone — and nothing flagged invalid is ever computed. -/
theorem C10_program_sound (sp : ZSpec) (hsp : SpecOK sp) (p : List ZStmt) (hok : RunOK sp [] p)
    (i : Nat) (v : CVal) (h : (conRun sp [] p)[i]? = some v) :
    Sound sp ((analyse sp p).getD i .notZone) v :=
  (run_sound sp hsp p [] [] rfl (by intro i v h; simp at h) hok i v h).1

/-- in particular: a value whose hint is an invalid zone (name) is never computed -/
theorem C10_invalid_never_computed (sp : ZSpec) (hsp : SpecOK sp) (p : List ZStmt) (hok : RunOK sp [] p)
    (i : Nat) (hinv : isInvalid ((analyse sp p).getD i .notZone) = true) : (conRun sp [] p)[i]? = none := by
  cases h : (conRun sp [] p)[i]? with
  | none => rfl
  | some v =>
    have hs := C10_program_sound sp hsp p hok i v h
    have := not_invalid_of_sound sp _ _ hs
    rw [this] at hinv; cases hinv

/-- every site of a view is a site of the grid it views (ascending in-range index lists) -/
theorem C10_view_sites_subset (g v : Grid) (px py : Rat) (xi yi : List Nat)
    (hx : g.xInit = some px) (hy : g.yInit = some py)
    (hxi : AscLe g.xSpacing.length xi) (hyi : AscLe g.ySpacing.length yi)
    (h : g.subGrid (xi.map Int.ofNat) (yi.map Int.ofNat) = some v) :
    ∀ s ∈ v.positions, s ∈ g.positions :=
  subGrid_sites_subset g v px py xi yi hx hy hxi hyi h

/-- the negation witness of finding F10 (bloqade-geometry): an index list with a descent
followed by an ascent yields a site outside the parent grid -/
theorem C10_unsorted_view_escapes :
    let g : Grid := Grid.fromPositions [10, 11, 13] [0]
    ((g.subGrid [2, 0, 1] [0]).map fun v => v.xPositions) = some [13, 13, 14] ∧
    (14 : Rat) ∉ g.xPositions := by decide +kernel

end Shuttle.Props.C10
