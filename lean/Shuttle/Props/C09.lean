import Shuttle.Lemmas.Runtime
/-!
# C09 — the quantum-runtime query never answers False for a kernel that acts
-/
namespace Shuttle.Props.C09
open Shuttle Shuttle.Lang

/-- every device-visible statement has a `runtime` implementation that marks the frame -/
theorem C09_registry_complete :
    ["fill", "measure", "top_hat_cz", "local_r", "local_rz", "global_r", "global_rz", "play"].all quantumEff = true := by
  decide

/-- and nothing else does (pure path construction and schedule values are not quantum) -/
theorem C09_registry_exact :
    ["gen", "parallel", "device_fn", "reverse", "get_static_trap", "set_loc", "move", "turn_on", "turn_off"].all
      (fun op => !quantumEff op) = true := by
  decide

/-- **Soundness**: if the analysis (as modelled in Model/Runtime.lean, over the regenerated `runtime` registry) answers
`False` for kernel `main` of a program, then no execution of `main` by the reference evaluator — whatever the
arguments (first-order values), whatever the spec lookups resolve to, however long it runs — performs a device-visible
operation: every event is an AOD operation of a tweezer kernel (and a `@move` kernel has none of those either, C17). -/
theorem C09_sound (fns : List Fn) (look : LookKind → String → Option Val)
    (hlook : ∀ k n v, look k n = some v → v.fo = true) (main : String) (afuel : Nat)
    (h : hasQuantumRuntime fns afuel main = .ok false) :
    ∀ (fuel : Nat) (args : List Val) (v : Val) (evs : List Event), (∀ a ∈ args, a.fo = true) →
      runKernel fuel ⟨fns, look⟩ main args = .ok (v, evs) → ∀ ev ∈ evs, ev.isOp = true := by
  intro fuel args v evs hargs hrun
  have hb : BodyOK fns main := fn_ok fns [] afuel main trivial h
  unfold runKernel at hrun
  split at hrun
  · rename_i v' e1 evs1 h1
    have := sound_run fns look (fun k n v hv => fo_ok fns v (hlook k n v hv)) fuel [] (.callFn main args []) _ _ _ h1
      ⟨hb, fun a ha => fo_ok fns a (hargs a ha), by intro p hp; simp at hp⟩ (by intro p hp; simp at hp)
    simp only [Except.ok.injEq, Prod.mk.injEq] at hrun
    obtain ⟨rfl, rfl⟩ := hrun
    exact this.1
  · cases hrun
  · cases hrun

/-! ### the analysis budget does not influence a finished answer -/

theorem both_ok {x y : AOut} {b : Bool} (h : both x y = .ok b) : ∃ a c, x = .ok a ∧ y = .ok c ∧ b = (a || c) := by
  cases x <;> cases y <;> simp [both] at h ⊢
  exact h.symm

theorem orB_ok {x : AOut} {q b : Bool} (h : orB x q = .ok b) : ∃ a, x = .ok a ∧ b = (a || q) := by
  cases x <;> simp [orB] at h ⊢
  exact h.symm

/-- the analysis answer does not depend on the fuel once it finishes: one more unit of fuel gives the same answer -/
theorem ana_mono_succ (fns : List Fn) : ∀ (f : Nat) (stack : List String) (t : ATask) (b : Bool),
    ana fns f stack t = .ok b → ana fns (f + 1) stack t = .ok b := by
  intro f
  induction f with
  | zero => intro stack t b h; simp [ana] at h
  | succ n ih =>
    intro stack t b h
    rcases t with (_ | _ | _ | _ | _ | _ | _) | (_ | _) | (_ | _ | _ | _ | _ | _ | _ | _ | _) | (_ | _) | name
    all_goals (simp only [ana] at h; generalize n + 1 = m at ih ⊢; simp only [ana])
    all_goals first
      | exact h
      | exact ih _ _ _ h
      | (obtain ⟨a, c, h1, h2, rfl⟩ := both_ok h; rw [ih _ _ _ h1, ih _ _ _ h2]; rfl)
      | (obtain ⟨a, h1, rfl⟩ := orB_ok h; rw [ih _ _ _ h1]; rfl)
      | (obtain ⟨a, c, h1, h2, rfl⟩ := both_ok h; obtain ⟨a', c', h3, h4, rfl⟩ := both_ok h2
         rw [ih _ _ _ h1, ih _ _ _ h3, ih _ _ _ h4]; rfl)
      | (split at h
         · cases h
         · obtain ⟨a, c, h1, h2, rfl⟩ := both_ok h; rw [if_neg (by assumption), ih _ _ _ h1, ih _ _ _ h2]; rfl)
      | (by_cases hm : name ∈ stack
         · rw [if_pos hm] at h ⊢; exact h
         · rw [if_neg hm] at h ⊢
           cases hf : List.find? (fun x => x.name == name) fns with
           | none => rw [hf] at h; cases h
           | some g => rw [hf] at h; exact ih _ _ _ h)

theorem ana_mono (fns : List Fn) {f g : Nat} (hfg : f ≤ g) (stack : List String) (t : ATask) (b : Bool)
    (h : ana fns f stack t = .ok b) : ana fns g stack t = .ok b := by
  induction hfg with
  | refl => exact h
  | step _ ih => exact ana_mono_succ fns _ stack t b ih

/-- **The answer is a property of the program, not of the analysis budget**: two budgets on which the analysis finishes
give the same answer, so the soundness theorem below does not depend on which budget the query happened to run with. -/
theorem C09_fuel_independent (fns : List Fn) (main : String) (f g : Nat) (a b : Bool)
    (hf : hasQuantumRuntime fns f main = .ok a) (hg : hasQuantumRuntime fns g main = .ok b) : a = b := by
  unfold hasQuantumRuntime at hf hg
  rcases Nat.le_total f g with hle | hle
  · have := ana_mono fns hle [] (.fn main) a hf
    rw [this] at hg; cases hg; rfl
  · have := ana_mono fns hle [] (.fn main) b hg
    rw [this] at hf; cases hf; rfl

/-- the lookups of an architecture spec resolve to first-order values -/
theorem specLook_fo (s : ArchSpec) : ∀ k n v, specLook s k n = some v → v.fo = true := by
  intro k n v h
  cases k <;> simp only [specLook] at h
  · cases hl : s.layout.staticTraps.lookup n <;> simp [hl] at h; subst h; rfl
  · cases hl : s.layout.specialGrid.lookup n <;> simp [hl] at h; subst h; rfl
  · cases hl : s.intC.lookup n <;> simp [hl] at h; subst h; rfl
  · cases hl : s.floatC.lookup n <;> simp [hl] at h; subst h; rfl

/-- soundness against an architecture spec -/
theorem C09_sound_spec (fns : List Fn) (s : ArchSpec) (main : String) (afuel : Nat)
    (h : hasQuantumRuntime fns afuel main = .ok false) (fuel : Nat) (args : List Val) (v : Val) (evs : List Event)
    (hargs : ∀ a ∈ args, a.fo = true) (hrun : runKernel fuel ⟨fns, specLook s⟩ main args = .ok (v, evs)) :
    ∀ ev ∈ evs, ev.isOp = true :=
  C09_sound fns (specLook s) (specLook_fo s) main afuel h fuel args v evs hargs hrun

/-! non-vacuity: a program with a recursive pure helper, a closure and a loop for which the answer is `False`, and the
same program with a gate in the helper for which it is `True` -/

private def helper (gate : Bool) : Fn :=
  { name := "sub", params := ["a"],
    body := (if gate then [Stmt.eff "global_rz" [.lit (.flt 1)]] else []) ++
      [.ifS (.prim "le" [.var "a", .lit (.int 0)]) [.ret (.lit (.int 0))] [],
       .assign "r" (.call "sub" [.prim "sub" [.var "a", .lit (.int 1)]]),
       .ret (.prim "add" [.var "r", .lit (.int 1)])] }
private def inner : Fn := { name := "inner", params := ["k"], body := [.ret (.prim "mul" [.var "k", .lit (.int 2)])] }
private def mainFn : Fn :=
  { name := "main", params := ["n"],
    body := [.assign "inner" (.lam "inner"),
             .assign "c" (.lit (.int 0)),
             .forS "i" (.lit (.int 0)) (.var "n") (.lit (.int 1))
               [.assign "c" (.prim "add" [.var "c", .callV (.var "inner") [.var "i"]])],
             .ret (.prim "add" [.var "c", .call "sub" [.var "n"]])] }

example : (hasQuantumRuntime [helper false, inner, mainFn] 50 "main").toOption = some false := by decide +kernel
example : (hasQuantumRuntime [helper true, inner, mainFn] 50 "main").toOption = some true := by decide +kernel
example : (runKernel 200 ⟨[helper true, inner, mainFn], fun _ _ => none⟩ "main" [.int 2]).toOption.map (·.2.length) = some 3 := by
  decide +kernel

end Shuttle.Props.C09
