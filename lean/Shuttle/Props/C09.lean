import Shuttle.Model.Runtime
/-!
# C09 — the quantum-runtime query never answers False for a kernel that acts
(soundness theorem: see below; first the registry facts)
-/
namespace Shuttle.Props.C09
open Shuttle Shuttle.Lang

/-- every device-visible statement has a `runtime` implementation that marks the frame -/
theorem C09_registry_complete :
    ["fill", "measure", "top_hat_cz", "local_r", "local_rz", "global_r", "global_rz", "play"].all quantumEff = true := by
  decide

/-- and nothing else does (pure path construction and schedule values are not quantum) -/
theorem C09_registry_exact :
    ["gen", "parallel", "device_fn", "reverse", "get_static_trap", "set_loc", "move", "turn_on", "turn_off"].all
      (fun op => !quantumEff op) = true := by
  decide

end Shuttle.Props.C09
