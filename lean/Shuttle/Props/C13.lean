import Shuttle.Model.Layout
import Shuttle.Lemmas.BBox
/-!
# C13 — Layout / ArchSpec identity and the zone index
-/
namespace Shuttle.Props.C13
open Shuttle Layout

/-! ### equality -/

theorem setEq_iff {α} [DecidableEq α] (a b : List α) : setEq a b = true ↔ ∀ x, x ∈ a ↔ x ∈ b := by
  simp only [setEq, Bool.and_eq_true, List.all_eq_true, decide_eq_true_eq]
  constructor
  · rintro ⟨h1, h2⟩ x; exact ⟨h1 x, h2 x⟩
  · intro h; exact ⟨fun x hx => (h x).1 hx, fun x hx => (h x).2 hx⟩

/-- equality distinguishes specs differing in any zone table or capability set -/
theorem C13_layout_eq_iff (a b : Layout) :
    a.eq b = true ↔
      (∀ p, p ∈ a.staticTraps ↔ p ∈ b.staticTraps) ∧ (∀ s, s ∈ a.fillable ↔ s ∈ b.fillable) ∧
      (∀ s, s ∈ a.hasCz ↔ s ∈ b.hasCz) ∧ (∀ s, s ∈ a.hasLocal ↔ s ∈ b.hasLocal) ∧
      (∀ p, p ∈ a.specialGrid ↔ p ∈ b.specialGrid) := by
  simp only [Layout.eq, Bool.and_eq_true, setEq_iff]
  constructor
  · rintro ⟨⟨⟨⟨h1, h2⟩, h3⟩, h4⟩, h5⟩; exact ⟨h1, h2, h3, h4, h5⟩
  · rintro ⟨h1, h2, h3, h4, h5⟩; exact ⟨⟨⟨⟨h1, h2⟩, h3⟩, h4⟩, h5⟩

/-- … or in any constant -/
theorem C13_archspec_eq_iff (a b : ArchSpec) :
    a.eq b = true ↔ a.layout.eq b.layout = true ∧ (∀ p, p ∈ a.floatC ↔ p ∈ b.floatC) ∧
      (∀ p, p ∈ a.intC ↔ p ∈ b.intC) := by
  simp only [ArchSpec.eq, Bool.and_eq_true, setEq_iff]
  constructor
  · rintro ⟨⟨h1, h2⟩, h3⟩; exact ⟨h1, h2, h3⟩
  · rintro ⟨h1, h2, h3⟩; exact ⟨⟨h1, h2⟩, h3⟩

theorem C13_layout_eq_equiv :
    (∀ a : Layout, a.eq a = true) ∧ (∀ a b : Layout, a.eq b = true → b.eq a = true) ∧
    (∀ a b c : Layout, a.eq b = true → b.eq c = true → a.eq c = true) := by
  refine ⟨fun a => (C13_layout_eq_iff a a).2 ⟨fun _ => Iff.rfl, fun _ => Iff.rfl, fun _ => Iff.rfl,
    fun _ => Iff.rfl, fun _ => Iff.rfl⟩, ?_, ?_⟩
  · intro a b h
    obtain ⟨h1, h2, h3, h4, h5⟩ := (C13_layout_eq_iff a b).1 h
    exact (C13_layout_eq_iff b a).2 ⟨fun p => (h1 p).symm, fun p => (h2 p).symm, fun p => (h3 p).symm,
      fun p => (h4 p).symm, fun p => (h5 p).symm⟩
  · intro a b c h h'
    obtain ⟨h1, h2, h3, h4, h5⟩ := (C13_layout_eq_iff a b).1 h
    obtain ⟨k1, k2, k3, k4, k5⟩ := (C13_layout_eq_iff b c).1 h'
    exact (C13_layout_eq_iff a c).2 ⟨fun p => (h1 p).trans (k1 p), fun p => (h2 p).trans (k2 p),
      fun p => (h3 p).trans (k3 p), fun p => (h4 p).trans (k4 p), fun p => (h5 p).trans (k5 p)⟩

theorem C13_archspec_eq_equiv :
    (∀ a : ArchSpec, a.eq a = true) ∧ (∀ a b : ArchSpec, a.eq b = true → b.eq a = true) ∧
    (∀ a b c : ArchSpec, a.eq b = true → b.eq c = true → a.eq c = true) := by
  obtain ⟨r, s, t⟩ := C13_layout_eq_equiv
  refine ⟨fun a => (C13_archspec_eq_iff a a).2 ⟨r _, fun _ => Iff.rfl, fun _ => Iff.rfl⟩, ?_, ?_⟩
  · intro a b h
    obtain ⟨h1, h2, h3⟩ := (C13_archspec_eq_iff a b).1 h
    exact (C13_archspec_eq_iff b a).2 ⟨s _ _ h1, fun p => (h2 p).symm, fun p => (h3 p).symm⟩
  · intro a b c h h'
    obtain ⟨h1, h2, h3⟩ := (C13_archspec_eq_iff a b).1 h
    obtain ⟨k1, k2, k3⟩ := (C13_archspec_eq_iff b c).1 h'
    exact (C13_archspec_eq_iff a c).2 ⟨t _ _ _ h1 k1, fun p => (h2 p).trans (k2 p), fun p => (h3 p).trans (k3 p)⟩

/-- equal layouts hash equally -/
theorem C13_layout_eq_hash (a b : Layout) (h : a.eq b = true) : a.hashKey = b.hashKey := by
  obtain ⟨h1, h2, h3, h4, h5⟩ := (C13_layout_eq_iff a b).1 h
  simp only [hashKey, Prod.mk.injEq]
  refine ⟨?_, ?_, ?_, ?_, ?_⟩
  · funext p; simp [h1 p]
  · funext p; simp [h2 p]
  · funext p; simp [h3 p]
  · funext p; simp [h4 p]
  · funext p; simp [h5 p]

/-! ### the zone index -/

/-- invariant of the index-building loop: the index holds exactly the zones consumed so
far, with pairwise distinct grids -/
theorem buildIndex_spec (zs : List (String × Grid)) : ∀ (idx out : List (Grid × String)),
    (idx.map (·.1)).Nodup → buildIndex idx zs = some out →
    (out.map (·.1)).Nodup ∧ out = idx ++ zs.map (fun p => (p.2, p.1)) := by
  induction zs with
  | nil => intro idx out hn h; simp [buildIndex] at h; subst h; simp [hn]
  | cons z rest ih =>
    intro idx out hn h
    obtain ⟨n, g⟩ := z
    simp only [buildIndex] at h
    by_cases hd : (idx.lookup g).isSome = true
    · simp [hd] at h
    · simp only [hd, Bool.false_eq_true, if_false] at h
      have hnot : g ∉ idx.map (·.1) := by
        intro hm
        apply hd
        obtain ⟨⟨g', n'⟩, hm', rfl⟩ := List.mem_map.1 hm
        cases hl : idx.lookup g' with
        | none =>
          exfalso
          have := List.lookup_eq_none_iff.1 hl (g', n') hm'
          simp at this
        | some _ => rfl
      have hn' : ((idx ++ [(g, n)]).map (·.1)).Nodup := by
        simp only [List.map_append, List.map_cons, List.map_nil]
        exact List.nodup_append.2 ⟨hn, by simp, by
          intro a ha b hb; simp at hb; subst hb; intro e; subst e; exact hnot ha⟩
      obtain ⟨h1, h2⟩ := ih _ out hn' h
      exact ⟨h1, by simp [h2]⟩

/-- two names may not denote the same grid: construction succeeds only when all zone
grids (static and special together) are pairwise distinct -/
theorem C13_no_duplicate_grids (l : Layout) (idx : List (Grid × String)) (h : l.postInit = some idx) :
    (l.zones.map (·.2)).Nodup := by
  obtain ⟨h1, h2⟩ := buildIndex_spec l.zones [] idx (by simp) h
  simp only [List.nil_append] at h2
  subst h2
  simpa [List.map_map, Function.comp_def] using h1

/-- looking up a zone's grid returns the name of that very zone -/
theorem C13_index_coherent (l : Layout) (idx : List (Grid × String)) (h : l.postInit = some idx)
    (n : String) (g : Grid) (hz : (n, g) ∈ l.zones) : getZoneId idx g = some n := by
  obtain ⟨h1, h2⟩ := buildIndex_spec l.zones [] idx (by simp) h
  simp only [List.nil_append] at h2
  subst h2
  unfold getZoneId
  have hnd : ((l.zones.map fun p => (p.2, p.1)).map (·.1)).Nodup := h1
  generalize l.zones = zs at hz hnd
  induction zs with
  | nil => simp at hz
  | cons z rest ih =>
    obtain ⟨n', g'⟩ := z
    simp only [List.map_cons, List.lookup_cons]
    simp only [List.mem_cons, Prod.mk.injEq] at hz
    simp only [List.map_cons, List.nodup_cons] at hnd
    by_cases he : g = g'
    · subst he
      rcases hz with ⟨rfl, _⟩ | hz
      · simp
      · exfalso; apply hnd.1
        simp only [List.map_map, List.mem_map, Function.comp_apply]
        exact ⟨(n, g), hz, rfl⟩
    · rcases hz with ⟨_, rfl⟩ | hz
      · exact absurd rfl he
      · have : (g == g') = false := by simp [he]
        simp only [this]
        exact ih hz hnd.2

/-- a grid that is no zone of the layout has no name -/
theorem C13_index_sound (l : Layout) (idx : List (Grid × String)) (h : l.postInit = some idx)
    (g : Grid) (n : String) (hg : getZoneId idx g = some n) : (n, g) ∈ l.zones := by
  obtain ⟨_, h2⟩ := buildIndex_spec l.zones [] idx (by simp) h
  simp only [List.nil_append] at h2
  subst h2
  unfold getZoneId at hg
  generalize l.zones = zs at hg
  induction zs with
  | nil => simp at hg
  | cons z rest ih =>
    obtain ⟨n', g'⟩ := z
    simp only [List.map_cons, List.lookup_cons] at hg
    by_cases he : g = g'
    · subst he; simp at hg; subst hg; simp
    · have : (g == g') = false := by simp [he]
      simp only [this] at hg
      exact List.mem_cons_of_mem _ (ih hg)

/-! ### bounding box -/

/-- the invariant the `Grid` constructor asserts: spacings are non-negative -/
def GridOK (g : Grid) : Prop :=
  (∀ s ∈ g.xSpacing, 0 ≤ s) ∧ (∀ s ∈ g.ySpacing, 0 ≤ s)

theorem mem_positions (g : Grid) (p : Rat × Rat) :
    p ∈ g.positions ↔ p.1 ∈ g.xPositions ∧ p.2 ∈ g.yPositions := by
  obtain ⟨x, y⟩ := p
  simp only [Grid.positions, List.mem_flatMap, List.mem_map, Prod.mk.injEq]
  constructor
  · rintro ⟨x', hx, y', hy, rfl, rfl⟩; exact ⟨hx, hy⟩
  · rintro ⟨hx, hy⟩; exact ⟨x, hx, y, hy, rfl, rfl⟩

/-- a grid with a site has both axes -/
theorem hasSites_of_mem (g : Grid) (p : Rat × Rat) (hp : p ∈ g.positions) :
    ∃ x0 y0, g.xInit = some x0 ∧ g.yInit = some y0 := by
  obtain ⟨hx, hy⟩ := (mem_positions _ _).1 hp
  cases hxi : g.xInit with
  | none => simp [Grid.xPositions, hxi, Grid.axisPositions] at hx
  | some x0 =>
    cases hyi : g.yInit with
    | none => simp [Grid.yPositions, hyi, Grid.axisPositions] at hy
    | some y0 => exact ⟨x0, y0, rfl, rfl⟩

/-- in a grid with both axes, every x position and every y position is the coordinate of a site -/
theorem site_of_x (g : Grid) (x0 y0 : Rat) (_hx0 : g.xInit = some x0) (hy0 : g.yInit = some y0)
    (hs : ∀ s ∈ g.ySpacing, 0 ≤ s) (x : Rat) (hx : x ∈ g.xPositions) : ∃ p ∈ g.positions, p.1 = x :=
  ⟨(x, y0), (mem_positions _ _).2 ⟨hx, by
    simpa [Grid.yPositions, hy0] using (axisPositions_bounds g.ySpacing y0 hs).2.1⟩, rfl⟩

theorem site_of_y (g : Grid) (x0 y0 : Rat) (hx0 : g.xInit = some x0) (_hy0 : g.yInit = some y0)
    (hs : ∀ s ∈ g.xSpacing, 0 ≤ s) (y : Rat) (hy : y ∈ g.yPositions) : ∃ p ∈ g.positions, p.2 = y :=
  ⟨(x0, y), (mem_positions _ _).2 ⟨by
    simpa [Grid.xPositions, hx0] using (axisPositions_bounds g.xSpacing x0 hs).2.1, hy⟩, rfl⟩

/-- membership in the list of zones the loop looks at -/
theorem mem_sited (l : Layout) (g : Grid) :
    g ∈ (l.zones.map (·.2)).filter hasSites ↔
      (∃ z ∈ l.zones, z.2 = g) ∧ ∃ x0 y0, g.xInit = some x0 ∧ g.yInit = some y0 := by
  simp only [List.mem_filter, List.mem_map, hasSites, Bool.and_eq_true, Option.isSome_iff_exists]
  constructor
  · rintro ⟨⟨z, hz, rfl⟩, ⟨x0, hx⟩, ⟨y0, hy⟩⟩; exact ⟨⟨z, hz, rfl⟩, x0, y0, hx, hy⟩
  · rintro ⟨⟨z, hz, rfl⟩, x0, y0, hx, hy⟩; exact ⟨⟨z, hz, rfl⟩, ⟨x0, hx⟩, ⟨y0, hy⟩⟩

/-- **The bounding box is the tight box around all sites**: every site of every zone
(static or special) lies inside, and each of the four bounds is attained by the coordinate
of a site of some zone.  Zones with an empty axis have no sites and do not contribute. -/
theorem C13_bbox_tight (l : Layout) (a b c d : Rat) (h : l.boundingBox = some (a, b, c, d))
    (hz : ∀ z ∈ l.zones, GridOK z.2) :
    (∀ z ∈ l.zones, ∀ p ∈ z.2.positions, a ≤ p.1 ∧ p.1 ≤ b ∧ c ≤ p.2 ∧ p.2 ≤ d) ∧
    (∃ z ∈ l.zones, ∃ p ∈ z.2.positions, p.1 = a) ∧ (∃ z ∈ l.zones, ∃ p ∈ z.2.positions, p.1 = b) ∧
    (∃ z ∈ l.zones, ∃ p ∈ z.2.positions, p.2 = c) ∧ (∃ z ∈ l.zones, ∃ p ∈ z.2.positions, p.2 = d) := by
  unfold boundingBox at h
  dsimp only at h
  split at h
  case h_2 => simp at h
  rename_i a' b' c' d' h1 h2 h3 h4
  simp only [Option.some.injEq, Prod.mk.injEq] at h
  obtain ⟨rfl, rfl, rfl, rfl⟩ := h
  obtain ⟨ha, ha'⟩ := foldMin_spec _ _ h1
  obtain ⟨hb, hb'⟩ := foldMax_spec _ _ h2
  obtain ⟨hc, hc'⟩ := foldMin_spec _ _ h3
  obtain ⟨hd, hd'⟩ := foldMax_spec _ _ h4
  refine ⟨?_, ?_, ?_, ?_, ?_⟩
  · intro z hzm p hp
    obtain ⟨hx, hy⟩ := (mem_positions _ _).1 hp
    obtain ⟨sx, sy⟩ := hz z hzm
    obtain ⟨x0, y0, hx0, hy0⟩ := hasSites_of_mem _ _ hp
    have hmem : z.2 ∈ (l.zones.map (·.2)).filter hasSites :=
      (mem_sited l z.2).2 ⟨⟨z, hzm, rfl⟩, x0, y0, hx0, hy0⟩
    have bx := (axisPositions_bounds z.2.xSpacing x0 sx).1 p.1 (by simpa [Grid.xPositions, hx0] using hx)
    have by_ := (axisPositions_bounds z.2.ySpacing y0 sy).1 p.2 (by simpa [Grid.yPositions, hy0] using hy)
    have m1 : a' ≤ x0 := ha x0 (by
      simp only [List.mem_filterMap]; exact ⟨z.2, hmem, hx0⟩)
    have m2 : x0 + z.2.width ≤ b' := hb _ (by
      simp only [List.mem_filterMap]; exact ⟨z.2, hmem, by simp [hx0]⟩)
    have m3 : c' ≤ y0 := hc y0 (by
      simp only [List.mem_filterMap]; exact ⟨z.2, hmem, hy0⟩)
    have m4 : y0 + z.2.height ≤ d' := hd _ (by
      simp only [List.mem_filterMap]; exact ⟨z.2, hmem, by simp [hy0]⟩)
    simp only [Grid.width, Grid.height] at m2 m4
    grind
  · simp only [List.mem_filterMap] at ha'
    obtain ⟨g, hg, hx0⟩ := ha'
    obtain ⟨⟨z, hzm, rfl⟩, x0, y0, hx0', hy0⟩ := (mem_sited l g).1 hg
    obtain ⟨sx, sy⟩ := hz z hzm
    exact ⟨z, hzm, site_of_x z.2 a' y0 hx0 hy0 sy a' (by
      simpa [Grid.xPositions, hx0] using (axisPositions_bounds z.2.xSpacing a' sx).2.1)⟩
  · simp only [List.mem_filterMap] at hb'
    obtain ⟨g, hg, hxb⟩ := hb'
    obtain ⟨⟨z, hzm, rfl⟩, x0, y0, hx0, hy0⟩ := (mem_sited l g).1 hg
    obtain ⟨sx, sy⟩ := hz z hzm
    simp [hx0] at hxb
    refine ⟨z, hzm, site_of_x z.2 x0 y0 hx0 hy0 sy b' ?_⟩
    rw [← hxb]
    simpa [Grid.xPositions, hx0, Grid.width] using (axisPositions_bounds z.2.xSpacing x0 sx).2.2
  · simp only [List.mem_filterMap] at hc'
    obtain ⟨g, hg, hy0⟩ := hc'
    obtain ⟨⟨z, hzm, rfl⟩, x0, y0, hx0, hy0'⟩ := (mem_sited l g).1 hg
    obtain ⟨sx, sy⟩ := hz z hzm
    exact ⟨z, hzm, site_of_y z.2 x0 c' hx0 hy0 sx c' (by
      simpa [Grid.yPositions, hy0] using (axisPositions_bounds z.2.ySpacing c' sy).2.1)⟩
  · simp only [List.mem_filterMap] at hd'
    obtain ⟨g, hg, hyd⟩ := hd'
    obtain ⟨⟨z, hzm, rfl⟩, x0, y0, hx0, hy0⟩ := (mem_sited l g).1 hg
    obtain ⟨sx, sy⟩ := hz z hzm
    simp [hy0] at hyd
    refine ⟨z, hzm, site_of_y z.2 x0 y0 hx0 hy0 sx d' ?_⟩
    rw [← hyd]
    simpa [Grid.yPositions, hy0, Grid.height] using (axisPositions_bounds z.2.ySpacing y0 sy).2.2

/-- non-vacuity of the box: a zone with an empty axis does not widen it -/
example :
    let g1 : Grid := ⟨[], [3/2, 9/2], some (-4), some 3⟩
    let g2 : Grid := ⟨[1], [], some 3, none⟩
    let l : Layout := ⟨[("a", g1)], [], [], [], [("c", g2)]⟩
    l.boundingBox = some (-4, -4, 3, 9) := by decide +kernel

/-- non-vacuity: a two-zone layout is accepted and indexed; an alias is rejected -/
example :
    let g1 : Grid := ⟨[1], [], some 0, some 0⟩
    let g2 : Grid := ⟨[1], [], some 5, some 0⟩
    let l : Layout := ⟨[("a", g1), ("b", g2)], ["a"], [], [], []⟩
    (l.postInit.map fun idx => getZoneId idx g2) = some (some "b") ∧
    ({ l with specialGrid := [("c", g1)] } : Layout).postInit = none := by decide

end Shuttle.Props.C13
