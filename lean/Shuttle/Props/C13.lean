import Shuttle.Model.Layout
import Shuttle.Lemmas.BBox
/-!
# C13 — Layout / ArchSpec identity and the zone index
-/
namespace Shuttle.Props.C13
open Shuttle Layout

/-! ### equality -/

theorem setEq_iff {α} [DecidableEq α] (a b : List α) : setEq a b = true ↔ ∀ x, x ∈ a ↔ x ∈ b := by
  simp only [setEq, Bool.and_eq_true, List.all_eq_true, decide_eq_true_eq]
  constructor
  · rintro ⟨h1, h2⟩ x; exact ⟨h1 x, h2 x⟩
  · intro h; exact ⟨fun x hx => (h x).1 hx, fun x hx => (h x).2 hx⟩

/-- equality distinguishes specs differing in any zone table or capability set -/
theorem C13_layout_eq_iff (a b : Layout) :
    a.eq b = true ↔
      (∀ p, p ∈ a.staticTraps ↔ p ∈ b.staticTraps) ∧ (∀ s, s ∈ a.fillable ↔ s ∈ b.fillable) ∧
      (∀ s, s ∈ a.hasCz ↔ s ∈ b.hasCz) ∧ (∀ s, s ∈ a.hasLocal ↔ s ∈ b.hasLocal) ∧
      (∀ p, p ∈ a.specialGrid ↔ p ∈ b.specialGrid) := by
  simp only [Layout.eq, Bool.and_eq_true, setEq_iff]
  constructor
  · rintro ⟨⟨⟨⟨h1, h2⟩, h3⟩, h4⟩, h5⟩; exact ⟨h1, h2, h3, h4, h5⟩
  · rintro ⟨h1, h2, h3, h4, h5⟩; exact ⟨⟨⟨⟨h1, h2⟩, h3⟩, h4⟩, h5⟩

/-- … or in any constant -/
theorem C13_archspec_eq_iff (a b : ArchSpec) :
    a.eq b = true ↔ a.layout.eq b.layout = true ∧ (∀ p, p ∈ a.floatC ↔ p ∈ b.floatC) ∧
      (∀ p, p ∈ a.intC ↔ p ∈ b.intC) := by
  simp only [ArchSpec.eq, Bool.and_eq_true, setEq_iff]
  constructor
  · rintro ⟨⟨h1, h2⟩, h3⟩; exact ⟨h1, h2, h3⟩
  · rintro ⟨h1, h2, h3⟩; exact ⟨⟨h1, h2⟩, h3⟩

theorem C13_layout_eq_equiv :
    (∀ a : Layout, a.eq a = true) ∧ (∀ a b : Layout, a.eq b = true → b.eq a = true) ∧
    (∀ a b c : Layout, a.eq b = true → b.eq c = true → a.eq c = true) := by
  refine ⟨fun a => (C13_layout_eq_iff a a).2 ⟨fun _ => Iff.rfl, fun _ => Iff.rfl, fun _ => Iff.rfl,
    fun _ => Iff.rfl, fun _ => Iff.rfl⟩, ?_, ?_⟩
  · intro a b h
    obtain ⟨h1, h2, h3, h4, h5⟩ := (C13_layout_eq_iff a b).1 h
    exact (C13_layout_eq_iff b a).2 ⟨fun p => (h1 p).symm, fun p => (h2 p).symm, fun p => (h3 p).symm,
      fun p => (h4 p).symm, fun p => (h5 p).symm⟩
  · intro a b c h h'
    obtain ⟨h1, h2, h3, h4, h5⟩ := (C13_layout_eq_iff a b).1 h
    obtain ⟨k1, k2, k3, k4, k5⟩ := (C13_layout_eq_iff b c).1 h'
    exact (C13_layout_eq_iff a c).2 ⟨fun p => (h1 p).trans (k1 p), fun p => (h2 p).trans (k2 p),
      fun p => (h3 p).trans (k3 p), fun p => (h4 p).trans (k4 p), fun p => (h5 p).trans (k5 p)⟩

theorem C13_archspec_eq_equiv :
    (∀ a : ArchSpec, a.eq a = true) ∧ (∀ a b : ArchSpec, a.eq b = true → b.eq a = true) ∧
    (∀ a b c : ArchSpec, a.eq b = true → b.eq c = true → a.eq c = true) := by
  obtain ⟨r, s, t⟩ := C13_layout_eq_equiv
  refine ⟨fun a => (C13_archspec_eq_iff a a).2 ⟨r _, fun _ => Iff.rfl, fun _ => Iff.rfl⟩, ?_, ?_⟩
  · intro a b h
    obtain ⟨h1, h2, h3⟩ := (C13_archspec_eq_iff a b).1 h
    exact (C13_archspec_eq_iff b a).2 ⟨s _ _ h1, fun p => (h2 p).symm, fun p => (h3 p).symm⟩
  · intro a b c h h'
    obtain ⟨h1, h2, h3⟩ := (C13_archspec_eq_iff a b).1 h
    obtain ⟨k1, k2, k3⟩ := (C13_archspec_eq_iff b c).1 h'
    exact (C13_archspec_eq_iff a c).2 ⟨t _ _ _ h1 k1, fun p => (h2 p).trans (k2 p), fun p => (h3 p).trans (k3 p)⟩

/-- equal layouts hash equally -/
theorem C13_layout_eq_hash (a b : Layout) (h : a.eq b = true) : a.hashKey = b.hashKey := by
  obtain ⟨h1, h2, h3, h4, h5⟩ := (C13_layout_eq_iff a b).1 h
  simp only [hashKey, Prod.mk.injEq]
  refine ⟨?_, ?_, ?_, ?_, ?_⟩
  · funext p; simp [h1 p]
  · funext p; simp [h2 p]
  · funext p; simp [h3 p]
  · funext p; simp [h4 p]
  · funext p; simp [h5 p]

/-! ### the zone index -/

/-- invariant of the index-building loop: the index holds exactly the zones consumed so
far, with pairwise distinct grids -/
theorem buildIndex_spec (zs : List (String × Grid)) : ∀ (idx out : List (Grid × String)),
    (idx.map (·.1)).Nodup → buildIndex idx zs = some out →
    (out.map (·.1)).Nodup ∧ out = idx ++ zs.map (fun p => (p.2, p.1)) := by
  induction zs with
  | nil => intro idx out hn h; simp [buildIndex] at h; subst h; simp [hn]
  | cons z rest ih =>
    intro idx out hn h
    obtain ⟨n, g⟩ := z
    simp only [buildIndex] at h
    by_cases hd : (idx.lookup g).isSome = true
    · simp [hd] at h
    · simp only [hd, Bool.false_eq_true, if_false] at h
      have hnot : g ∉ idx.map (·.1) := by
        intro hm
        apply hd
        obtain ⟨⟨g', n'⟩, hm', rfl⟩ := List.mem_map.1 hm
        cases hl : idx.lookup g' with
        | none =>
          exfalso
          have := List.lookup_eq_none_iff.1 hl (g', n') hm'
          simp at this
        | some _ => rfl
      have hn' : ((idx ++ [(g, n)]).map (·.1)).Nodup := by
        simp only [List.map_append, List.map_cons, List.map_nil]
        exact List.nodup_append.2 ⟨hn, by simp, by
          intro a ha b hb; simp at hb; subst hb; intro e; subst e; exact hnot ha⟩
      obtain ⟨h1, h2⟩ := ih _ out hn' h
      exact ⟨h1, by simp [h2]⟩

/-- two names may not denote the same grid: construction succeeds only when all zone
grids (static and special together) are pairwise distinct -/
theorem C13_no_duplicate_grids (l : Layout) (idx : List (Grid × String)) (h : l.postInit = some idx) :
    (l.zones.map (·.2)).Nodup := by
  obtain ⟨h1, h2⟩ := buildIndex_spec l.zones [] idx (by simp) h
  simp only [List.nil_append] at h2
  subst h2
  simpa [List.map_map, Function.comp_def] using h1

/-- looking up a zone's grid returns the name of that very zone -/
theorem C13_index_coherent (l : Layout) (idx : List (Grid × String)) (h : l.postInit = some idx)
    (n : String) (g : Grid) (hz : (n, g) ∈ l.zones) : getZoneId idx g = some n := by
  obtain ⟨h1, h2⟩ := buildIndex_spec l.zones [] idx (by simp) h
  simp only [List.nil_append] at h2
  subst h2
  unfold getZoneId
  have hnd : ((l.zones.map fun p => (p.2, p.1)).map (·.1)).Nodup := h1
  generalize l.zones = zs at hz hnd
  induction zs with
  | nil => simp at hz
  | cons z rest ih =>
    obtain ⟨n', g'⟩ := z
    simp only [List.map_cons, List.lookup_cons]
    simp only [List.mem_cons, Prod.mk.injEq] at hz
    simp only [List.map_cons, List.nodup_cons] at hnd
    by_cases he : g = g'
    · subst he
      rcases hz with ⟨rfl, _⟩ | hz
      · simp
      · exfalso; apply hnd.1
        simp only [List.map_map, List.mem_map, Function.comp_apply]
        exact ⟨(n, g), hz, rfl⟩
    · rcases hz with ⟨_, rfl⟩ | hz
      · exact absurd rfl he
      · have : (g == g') = false := by simp [he]
        simp only [this]
        exact ih hz hnd.2

/-- a grid that is no zone of the layout has no name -/
theorem C13_index_sound (l : Layout) (idx : List (Grid × String)) (h : l.postInit = some idx)
    (g : Grid) (n : String) (hg : getZoneId idx g = some n) : (n, g) ∈ l.zones := by
  obtain ⟨_, h2⟩ := buildIndex_spec l.zones [] idx (by simp) h
  simp only [List.nil_append] at h2
  subst h2
  unfold getZoneId at hg
  generalize l.zones = zs at hg
  induction zs with
  | nil => simp at hg
  | cons z rest ih =>
    obtain ⟨n', g'⟩ := z
    simp only [List.map_cons, List.lookup_cons] at hg
    by_cases he : g = g'
    · subst he; simp at hg; subst hg; simp
    · have : (g == g') = false := by simp [he]
      simp only [this] at hg
      exact List.mem_cons_of_mem _ (ih hg)

/-! ### bounding box -/

/-- the invariant the `Grid` constructor asserts, plus non-degeneracy (both axes present) -/
def GridOK (g : Grid) : Prop :=
  (∀ s ∈ g.xSpacing, 0 ≤ s) ∧ (∀ s ∈ g.ySpacing, 0 ≤ s) ∧ g.xInit.isSome ∧ g.yInit.isSome

theorem mem_positions (g : Grid) (p : Rat × Rat) :
    p ∈ g.positions ↔ p.1 ∈ g.xPositions ∧ p.2 ∈ g.yPositions := by
  obtain ⟨x, y⟩ := p
  simp only [Grid.positions, List.mem_flatMap, List.mem_map, Prod.mk.injEq]
  constructor
  · rintro ⟨x', hx, y', hy, rfl, rfl⟩; exact ⟨hx, hy⟩
  · rintro ⟨hx, hy⟩; exact ⟨x, hx, y, hy, rfl, rfl⟩

/-- **The bounding box is the tight box around all sites**: every site of every zone
(static or special) lies inside, and each of the four bounds is attained by a site
coordinate of some zone. -/
theorem C13_bbox_tight (l : Layout) (a b c d : Rat) (h : l.boundingBox = some (a, b, c, d))
    (hz : ∀ z ∈ l.zones, GridOK z.2) :
    (∀ z ∈ l.zones, ∀ p ∈ z.2.positions, a ≤ p.1 ∧ p.1 ≤ b ∧ c ≤ p.2 ∧ p.2 ≤ d) ∧
    (∃ z ∈ l.zones, a ∈ z.2.xPositions) ∧ (∃ z ∈ l.zones, b ∈ z.2.xPositions) ∧
    (∃ z ∈ l.zones, c ∈ z.2.yPositions) ∧ (∃ z ∈ l.zones, d ∈ z.2.yPositions) := by
  unfold boundingBox at h
  dsimp only at h
  split at h
  case h_2 => simp at h
  rename_i a' b' c' d' h1 h2 h3 h4
  simp only [Option.some.injEq, Prod.mk.injEq] at h
  obtain ⟨rfl, rfl, rfl, rfl⟩ := h
  obtain ⟨ha, ha'⟩ := foldMin_spec _ _ h1
  obtain ⟨hb, hb'⟩ := foldMax_spec _ _ h2
  obtain ⟨hc, hc'⟩ := foldMin_spec _ _ h3
  obtain ⟨hd, hd'⟩ := foldMax_spec _ _ h4
  refine ⟨?_, ?_, ?_, ?_, ?_⟩
  · intro z hzm p hp
    obtain ⟨hx, hy⟩ := (mem_positions _ _).1 hp
    obtain ⟨sx, sy, ix, iy⟩ := hz z hzm
    obtain ⟨x0, hx0⟩ := Option.isSome_iff_exists.1 ix
    obtain ⟨y0, hy0⟩ := Option.isSome_iff_exists.1 iy
    have bx := (axisPositions_bounds z.2.xSpacing x0 sx).1 p.1 (by simpa [Grid.xPositions, hx0] using hx)
    have by_ := (axisPositions_bounds z.2.ySpacing y0 sy).1 p.2 (by simpa [Grid.yPositions, hy0] using hy)
    have m1 : a' ≤ x0 := ha x0 (by
      simp only [List.mem_filterMap, List.mem_map]; exact ⟨z.2, ⟨z, hzm, rfl⟩, hx0⟩)
    have m2 : x0 + z.2.width ≤ b' := hb _ (by
      simp only [List.mem_filterMap, List.mem_map]; exact ⟨z.2, ⟨z, hzm, rfl⟩, by simp [hx0]⟩)
    have m3 : c' ≤ y0 := hc y0 (by
      simp only [List.mem_filterMap, List.mem_map]; exact ⟨z.2, ⟨z, hzm, rfl⟩, hy0⟩)
    have m4 : y0 + z.2.height ≤ d' := hd _ (by
      simp only [List.mem_filterMap, List.mem_map]; exact ⟨z.2, ⟨z, hzm, rfl⟩, by simp [hy0]⟩)
    simp only [Grid.width, Grid.height] at m2 m4
    grind
  · simp only [List.mem_filterMap, List.mem_map] at ha'
    obtain ⟨g, ⟨z, hzm, rfl⟩, hx0⟩ := ha'
    obtain ⟨sx, _, _, _⟩ := hz z hzm
    exact ⟨z, hzm, by simpa [Grid.xPositions, hx0] using (axisPositions_bounds z.2.xSpacing a' sx).2.1⟩
  · simp only [List.mem_filterMap, List.mem_map] at hb'
    obtain ⟨g, ⟨z, hzm, rfl⟩, hx0⟩ := hb'
    obtain ⟨sx, _, _, _⟩ := hz z hzm
    cases hxi : z.2.xInit with
    | none => simp [hxi] at hx0
    | some x0 =>
      simp [hxi] at hx0
      refine ⟨z, hzm, ?_⟩
      rw [← hx0]
      simpa [Grid.xPositions, hxi, Grid.width] using (axisPositions_bounds z.2.xSpacing x0 sx).2.2
  · simp only [List.mem_filterMap, List.mem_map] at hc'
    obtain ⟨g, ⟨z, hzm, rfl⟩, hy0⟩ := hc'
    obtain ⟨_, sy, _, _⟩ := hz z hzm
    exact ⟨z, hzm, by simpa [Grid.yPositions, hy0] using (axisPositions_bounds z.2.ySpacing c' sy).2.1⟩
  · simp only [List.mem_filterMap, List.mem_map] at hd'
    obtain ⟨g, ⟨z, hzm, rfl⟩, hy0⟩ := hd'
    obtain ⟨_, sy, _, _⟩ := hz z hzm
    cases hyi : z.2.yInit with
    | none => simp [hyi] at hy0
    | some y0 =>
      simp [hyi] at hy0
      refine ⟨z, hzm, ?_⟩
      rw [← hy0]
      simpa [Grid.yPositions, hyi, Grid.height] using (axisPositions_bounds z.2.ySpacing y0 sy).2.2

/-- non-vacuity: a two-zone layout is accepted and indexed; an alias is rejected -/
example :
    let g1 : Grid := ⟨[1], [], some 0, some 0⟩
    let g2 : Grid := ⟨[1], [], some 5, some 0⟩
    let l : Layout := ⟨[("a", g1), ("b", g2)], ["a"], [], [], []⟩
    (l.postInit.map fun idx => getZoneId idx g2) = some (some "b") ∧
    ({ l with specialGrid := [("c", g1)] } : Layout).postInit = none := by decide

end Shuttle.Props.C13
