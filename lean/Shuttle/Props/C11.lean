import Shuttle.Lemmas.Reverse
import Shuttle.Lemmas.Opaque
/-!
# C11 — every produced path is well formed

`WF` (Model/Tracer.lean) is the property's predicate: a non-empty path begins and ends with
a waypoint segment, contains only segments and switches, each segment is non-empty and
of a single grid shape, and the segments on either side of a switch meet at one position.
-/
namespace Shuttle.Props.C11
open Shuttle

/-- every path returned by the tracer is well formed (any operation sequence) -/
theorem C11_trace_wf (static : Sel → Bool) (ops : List Op) (p : Path)
    (h : runTrace static ops = .ok p) : WF p = true := by
  unfold runTrace at h
  cases hr : run static .init ops with
  | error e => simp [hr, Except.map] at h
  | ok s =>
    simp [hr, Except.map] at h; subst h
    exact TInv_WF (run_TInv static ops .init s TInv_init hr)

/-- reversal preserves well-formedness -/
theorem C11_reverse_wf (p q : Path) (h : WF p = true) (hq : reversePath p = some q) :
    WF q = true := by
  rw [reversePath_eq_flip] at hq
  cases hq
  exact WF_flipPath p h

/-- every path any `gen` route produces (forward or reversed task) is well formed -/
theorem C11_gen_wf {F A} (static : Sel → Bool) (kernelOps : F → A → List Op) (t : DevTask F) (a : A)
    (p : Path)
    (h : genPath (fun f a => match runTrace static (kernelOps f a) with
                              | .ok p => some p | .error _ => none) t a = some p) :
    WF p = true := by
  cases t with
  | fwd f =>
    simp only [genPath] at h
    cases hr : runTrace static (kernelOps f a) with
    | error e => simp [hr] at h
    | ok p' => simp [hr] at h; subst h; exact C11_trace_wf static _ _ hr
  | rev f =>
    simp only [genPath] at h
    cases hr : runTrace static (kernelOps f a) with
    | error e => simp [hr] at h
    | ok p' =>
      simp [hr] at h
      exact C11_reverse_wf p' p (C11_trace_wf static _ _ hr) h

/-- what `WF` says, spelled out on the first and last element -/
theorem WF_ends (p : Path) (h : WF p = true) (hne : p ≠ []) :
    (p.head?.map Action.isWay = some true) ∧ (p.getLast?.map Action.isWay = some true) := by
  constructor
  · cases p with
    | nil => exact absurd rfl hne
    | cons a t =>
      cases a with
      | way ws => rfl
      | sw tg x y =>
        exfalso
        have : ∀ t : Path, t.foldl wstep .bad = .bad := by
          intro t; induction t with
          | nil => rfl
          | cons b t ih => simpa [List.foldl_cons, wstep] using ih
        simp [WF, List.foldl_cons, wstep, this, WSt.accept] at h
  · obtain ⟨q, a, rfl⟩ : ∃ q a, p = q ++ [a] :=
      ⟨p.dropLast, p.getLast hne, (List.dropLast_concat_getLast hne).symm⟩
    simp only [WF, List.foldl_append, List.foldl_cons, List.foldl_nil] at h
    cases a with
    | way ws => simp [Action.isWay]
    | sw tg x y =>
      exfalso
      generalize q.foldl wstep .start = σ at h
      cases σ <;> simp [wstep, WSt.accept] at h

/-- **Positions are opaque to the tracer**: renaming every position of an operation sequence by a
shape-preserving map renames the traced path (or leaves the error as it is).  The model therefore
covers positions the `Grid` type has no constructor for — filled grids — through any
shape-preserving encoding of them (the harness's position tokens). -/
theorem C11_trace_positions_opaque (φ : Grid → Grid) (hφ : ∀ g, (φ g).shape = g.shape)
    (static : Sel → Bool) (ops : List Op) :
    runTrace static (ops.map (Op.mapPos φ)) = (runTrace static ops).map (Path.mapPos φ) := by
  unfold runTrace
  have h := run_mapPos φ hφ static ops .init
  have hi : TState.mapPos φ .init = .init := rfl
  rw [hi] at h
  rw [h]
  cases run static .init ops <;> rfl

/-- well-formedness does not depend on what the positions are, only on their shapes and on which
of them are equal: an injective shape-preserving renaming preserves `WF` in both directions -/
theorem C11_wf_positions_opaque (φ : Grid → Grid) (hφ : ∀ g, (φ g).shape = g.shape)
    (hinj : ∀ a b, φ a = φ b → a = b) (p : Path) : WF (Path.mapPos φ p) = WF p := by
  unfold WF Path.mapPos
  have h := foldl_wstep_mapPos φ hφ hinj p .start
  have hs : WSt.mapPos φ .start = .start := rfl
  rw [hs] at h
  rw [h, accept_mapPos]

/-- the map the harness's position tokens are built from (a shift in x) is shape preserving and
injective, so both opacity theorems apply to it -/
theorem C11_token_map_lawful (k : Rat) :
    (∀ g : Grid, (g.shift k 0).shape = g.shape) ∧ (∀ a b : Grid, a.shift k 0 = b.shift k 0 → a = b) := by
  constructor
  · intro g
    simp only [Grid.shift, Grid.shape, Grid.numX, Grid.numY]
    cases g.xInit <;> cases g.yInit <;> rfl
  · intro a b h
    obtain ⟨ax, ay, ax0, ay0⟩ := a
    obtain ⟨bx, by_, bx0, by0⟩ := b
    simp only [Grid.shift, Grid.mk.injEq] at h ⊢
    obtain ⟨h1, h2, h3, h4⟩ := h
    refine ⟨h1, h2, ?_, ?_⟩
    · cases ax0 <;> cases bx0 <;> simp_all
      grind
    · cases ay0 <;> cases by0 <;> simp_all
      grind

/-- non-vacuity: a traced path with a switch and its reversal are WF; malformed ones are not -/
example :
    let g : Grid := ⟨[1], [], some 0, some 0⟩
    let h : Grid := ⟨[1], [], some 5, some 0⟩
    let sw : Action := .sw ⟨true, true, false⟩ (.slice ⟨none, none, none⟩) (.list [0])
    WF [.way [g, h], sw, .way [h]] = true ∧ WF [.way [g, h], sw, .way [g]] = false ∧
    WF [sw, .way [h]] = false ∧ WF [.way [g], sw] = false ∧ WF [.way []] = false ∧
    WF (flipPath [.way [g, h], sw, .way [h]]) = true := by decide

end Shuttle.Props.C11
