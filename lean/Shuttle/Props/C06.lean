import Shuttle.Lemmas.Inject
import Shuttle.Lemmas.InjectComplete
/-!
# C06 — spec injection is behaviour preserving and complete
-/
namespace Shuttle.Props.C06
open Shuttle Shuttle.Lang

def kindName : LookKind → String
  | .trap => "trap" | .special => "special" | .intC => "intC" | .floatC => "floatC"

/-- what the regenerated table says `InjectSpecRule` does for a lookup kind -/
def handles (k : LookKind) : Bool :=
  Gen.InjectKinds.table.any fun e => e.1 == kindName k && e.2.1 == "const_ok" && e.2.2 == "kept"

/-- **Completeness of the rule**: every kind of spec lookup whose name the spec defines is
replaced by the spec's value, and lookups of names it does not define are left alone -/
theorem C06_kinds_complete : ∀ k : LookKind, handles k = true := by
  intro k; cases k <;> decide

/-- the configuration the compiler uses for spec `s` -/
def cfgOf (look : LookKind → String → Option Val) : InjCfg := ⟨handles, look⟩

/-- **Injection preserves behaviour**: the compiled program run with no spec available
returns (value, events, or error) what the unspecialised program returns when interpreted
against the spec — for every program of the language (subroutines, recursion, closures,
device calls), every entry point, arguments and fuel. -/
theorem C06_inject_preserves (look : LookKind → String → Option Val) (fns : List Fn) (fuel : Nat)
    (name : String) (args : List Val) :
    runKernel fuel ⟨injProg (cfgOf look) fns, noLook⟩ name args = runKernel fuel ⟨fns, look⟩ name args := by
  unfold runKernel
  have := inject_run (cfgOf look) C06_kinds_complete fns fuel [] (.callFn name args [])
  simp only [injT] at this
  rw [this]
  rfl

/-- a lookup of a name the spec does not define is never given a value: it raises under
the spec interpreter, and it is still a lookup (hence raises) in the compiled program -/
theorem C06_unknown_fails_both (look : LookKind → String → Option Val) (fns : List Fn) (fuel : Nat)
    (env : Env) (k : LookKind) (n : String) (h : look k n = none) :
    Lang.run (fuel + 1) ⟨fns, look⟩ env (.expr (.look k n)) = .error .err ∧
    injE (cfgOf look) (.look k n) = .look k n ∧
    Lang.run (fuel + 1) ⟨injProg (cfgOf look) fns, noLook⟩ env (.expr (injE (cfgOf look) (.look k n))) = .error .err := by
  refine ⟨by simp [Lang.run, h], ?_, ?_⟩
  · simp [injE, cfgOf, h]
  · simp [injE, cfgOf, h, Lang.run, noLook]

/-- a lookup of a defined name becomes exactly the spec's value -/
theorem C06_known_becomes_constant (look : LookKind → String → Option Val) (k : LookKind) (n : String)
    (v : Val) (h : look k n = some v) : injE (cfgOf look) (.look k n) = .lit v := by
  simp [injE, cfgOf, C06_kinds_complete k, h]

/-- after injection no lookup of a defined name is left anywhere in an expression -/
theorem C06_no_spec_needed_for_known (look : LookKind → String → Option Val) (fuel : Nat) (fns : List Fn)
    (env : Env) (k : LookKind) (n : String) (v : Val) (h : look k n = some v) :
    Lang.run (fuel + 1) ⟨injProg (cfgOf look) fns, noLook⟩ env (.expr (injE (cfgOf look) (.look k n))) =
      .ok (.val v, env, []) := by
  rw [C06_known_becomes_constant look k n v h]; simp [Lang.run]

/-- non-vacuity: a closure capturing a looked-up constant, called through a subroutine -/
example :
    let look : LookKind → String → Option Val := fun k n =>
      if k = .intC ∧ n = "n2" then some (.int 2) else none
    let fns : List Fn := [
      { name := "inner", params := ["k"], body := [.ret (.prim "add" [.var "k", .var "c"])] },
      { name := "main", params := ["x"],
        body := [.assign "c" (.look .intC "n2"), .assign "f" (.lam "inner"),
                 .ret (.callV (.var "f") [.var "x"])] }]
    (match runKernel 50 ⟨injProg (cfgOf look) fns, noLook⟩ "main" [.int 5] with
     | .ok (.int 7, []) => true | _ => false) = true ∧
    (match runKernel 50 ⟨fns, noLook⟩ "main" [.int 5] with | .error _ => true | _ => false) = true := by
  decide

/-- **Completeness over the whole program**: after the pass, every spec lookup that is still present anywhere in the
compiled program — in any function reachable or not, in nested branches, loop bodies, parallel blocks, closure
bodies, call arguments and callees — is a lookup of a name the spec does not define. -/
theorem C06_complete_program (look : LookKind → String → Option Val) (fns : List Fn) :
    ∀ p ∈ looksProg (injProg (cfgOf look) fns), look p.1 p.2 = none :=
  looksProg_inj (cfgOf look) C06_kinds_complete fns

/-- **The pass is idempotent**: compiling an already compiled program changes nothing (whatever the rule handles). -/
theorem C06_idempotent (look : LookKind → String → Option Val) (fns : List Fn) :
    injProg (cfgOf look) (injProg (cfgOf look) fns) = injProg (cfgOf look) fns :=
  injProg_idem (cfgOf look) fns

/-- non-vacuity of completeness: a defined and an undefined lookup nested in a loop inside a branch -/
example :
    let look : LookKind → String → Option Val := fun k n => if k = .intC ∧ n = "n2" then some (.int 2) else none
    let fns : List Fn := [
      { name := "main", params := ["x"],
        body := [.ifS (.var "x") [.forS "i" (.lit (.int 0)) (.look .intC "n2") (.lit (.int 1))
                   [.exprS (.callV (.lam "main") [.look .intC "n2", .look .floatC "gap"])]] []] }]
    looksProg fns = [(.intC, "n2"), (.intC, "n2"), (.floatC, "gap")] ∧
    looksProg (injProg (cfgOf look) fns) = [(.floatC, "gap")] := by decide

end Shuttle.Props.C06
