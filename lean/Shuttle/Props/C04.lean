import Shuttle.Lemmas.Inject
import Shuttle.Lemmas.LangMono
import Shuttle.Props.C06
import Shuttle.Gen.PureStmts
/-!
# C04 — the executed event sequence does not depend on the compilation route

What is proved here:
* the purity traits regenerated from the dialect definitions license CSE/DCE only on
  statements that produce no device-visible event (`C04_event_stmts_impure`), and the
  statements the pipeline relies on being removable are pure (`C04_expected_pure`);
* the "spec injected at compile time vs supplied at run time" dimension of the route
  space: for every program the event sequence (and the result) is the same
  (`C04_spec_route`, a corollary of the injection theorem of C06).

Partial by nature: kirin's fold / inline / unroll / type-inference passes are not
modelled, so that they are instances of event-preserving rewrites is exercised by the
correspondence check (every option combination against the reference evaluator), not proved.
-/
namespace Shuttle.Props.C04
open Shuttle Shuttle.Lang

def isPure (dialect stmt : String) : Option Bool :=
  (Gen.PureStmts.table.find? fun e => e.1 == dialect && e.2.1 == stmt).map (·.2.2.1)

/-- every statement that produces a device-visible event (or an AOD operation of a traced
kernel) lacks the `Pure` trait: CSE / DCE can neither merge nor drop it -/
theorem C04_event_stmts_impure :
    [("path", "Play"), ("gate", "TopHatCZ"), ("gate", "LocalR"), ("gate", "LocalRz"), ("gate", "GlobalR"),
     ("gate", "GlobalRz"), ("init", "Fill"), ("bloqade.shuttle.measure", "Measure"),
     ("action", "Set"), ("action", "Move"), ("action", "TurnOn"), ("action", "TurnOff"),
     ("action", "TurnOnXY"), ("action", "TurnOffXY"), ("action", "TurnOnXSlice"), ("action", "TurnOffXSlice"),
     ("action", "TurnOnYSlice"), ("action", "TurnOffYSlice"), ("action", "TurnOnXYSlice"), ("action", "TurnOffXYSlice")].all
      (fun p => isPure p.1 p.2 == some false) = true := by decide +kernel

/-- path construction and schedule values are pure (each *call* still has its own `Play`) -/
theorem C04_expected_pure :
    [("path", "Gen"), ("path", "Parallel"), ("path", "Auto"), ("schedule", "NewDeviceFunction"),
     ("schedule", "Reverse")].all (fun p => isPure p.1 p.2 == some true) = true := by decide +kernel

/-- **spec at compile time = spec at run time**: same result, same events, same failures -/
theorem C04_spec_route (look : LookKind → String → Option Val) (fns : List Fn) (fuel : Nat)
    (name : String) (args : List Val) :
    runKernel fuel ⟨injProg (C06.cfgOf look) fns, noLook⟩ name args = runKernel fuel ⟨fns, look⟩ name args :=
  C06.C06_inject_preserves look fns fuel name args

/-- in particular the event sequences agree -/
theorem C04_spec_route_events (look : LookKind → String → Option Val) (fns : List Fn) (fuel : Nat)
    (name : String) (args : List Val) :
    (runKernel fuel ⟨injProg (C06.cfgOf look) fns, noLook⟩ name args).map (·.2) =
      (runKernel fuel ⟨fns, look⟩ name args).map (·.2) := by
  rw [C04_spec_route]

/-- **"evaluating the source directly" is one partial function**: a successful run of the reference evaluator gives the
same value and the same events with any larger fuel, so two successful runs of one kernel on the same arguments never
differ (the event sequence every compilation route is compared with is well defined). -/
theorem C04_source_semantics_deterministic (c : Ctx) (k k' : Nat) (name : String) (args : List Val)
    (r r' : Val × List Event) (h : runKernel k c name args = .ok r) (h' : runKernel k' c name args = .ok r') : r = r' := by
  unfold runKernel at h h'
  split at h
  · rename_i v e evs h1
    split at h'
    · rename_i v' e' evs' h1'
      have := run_deterministic c k k' [] _ _ _ h1 h1'
      simp only [Prod.mk.injEq, Res.val.injEq] at this
      cases h; cases h'
      simp [this.1, this.2.2]
    · cases h'
    · cases h'
  · cases h
  · cases h

theorem C04_source_semantics_mono (c : Ctx) (k k' : Nat) (hk : k ≤ k') (name : String) (args : List Val)
    (r : Val × List Event) (h : runKernel k c name args = .ok r) : runKernel k' c name args = .ok r := by
  unfold runKernel at h ⊢
  split at h
  · rename_i v e evs h1
    rw [run_mono c k k' hk [] _ _ h1]
    exact h
  · cases h
  · cases h

/-- the two spec routes agree whatever evaluation budget each of them happens to run with: whenever both finish, they
return the same value and the same events (injection theorem + determinism of the source semantics) -/
theorem C04_spec_route_any_fuel (look : LookKind → String → Option Val) (fns : List Fn) (k k' : Nat)
    (name : String) (args : List Val) (r r' : Val × List Event)
    (h : runKernel k ⟨injProg (C06.cfgOf look) fns, noLook⟩ name args = .ok r)
    (h' : runKernel k' ⟨fns, look⟩ name args = .ok r') : r = r' := by
  rw [C04_spec_route] at h
  exact C04_source_semantics_deterministic _ k k' name args r r' h h'

/-- compiling an already specialised kernel with the spec again is one more route, and it changes nothing -/
theorem C04_spec_route_recompile (look : LookKind → String → Option Val) (fns : List Fn) (fuel : Nat)
    (name : String) (args : List Val) :
    runKernel fuel ⟨injProg (C06.cfgOf look) (injProg (C06.cfgOf look) fns), noLook⟩ name args =
      runKernel fuel ⟨fns, look⟩ name args := by
  rw [C06.C06_idempotent, C04_spec_route]

end Shuttle.Props.C04
