import Shuttle.Model.Vocab
/-!
# C17 — each kernel kind accepts exactly its documented vocabulary

The quantifier of the property is the finite set of published wrappers × the three
kernel kinds; both tables are regenerated from the source on every run (new wrappers are
picked up automatically), so deciding the matrix *is* deciding the property for the
current code.
-/
namespace Shuttle.Props.C17
open Shuttle Vocab

/-- every wrapper's interface module is one of the known categories -/
theorem C17_categories_known :
    Gen.Vocab.wrappers.all (fun w => w.1 ∈ categories) = true := by decide +kernel

/-- **the matrix**: for every published wrapper and every kernel kind, the kind accepts the
wrapper's statement iff the documentation says that category belongs to that kind -/
theorem C17_matrix :
    Gen.Vocab.wrappers.all (fun w => kinds.all fun k => accepts w.2.2.2 k == documented w.1 k) = true := by
  decide +kernel

/-- the published wrappers of the documented vocabulary (interface module, name) -/
def publishedWrappers : List (String × String) :=
  [("action", "set_loc"), ("action", "move"), ("action", "turn_on"), ("action", "turn_off"), ("schedule", "device_fn"), ("schedule", "reverse"), ("schedule", "parallel"), ("schedule", "auto"), ("gate", "top_hat_cz"), ("gate", "local_r"), ("gate", "local_rz"), ("gate", "global_r"), ("gate", "global_rz"), ("init", "fill"), ("measure", "measure"), ("spec", "get_static_trap"), ("spec", "get_special_grid"), ("spec", "get_int_constant"), ("spec", "get_float_constant"), ("filled", "vacate"), ("filled", "fill"), ("filled", "get_parent"), ("filled", "shift"), ("filled", "scale"), ("filled", "repeat"), ("atom", "new"), ("atom", "move"), ("atom", "move_next_to"), ("atom", "reset_position"), ("atom", "measure"), ("grid", "from_positions"), ("grid", "shift"), ("grid", "scale"), ("grid", "repeat"), ("grid", "sub_grid"), ("grid", "shape"), ("grid", "get"), ("grid", "get_xpos"), ("grid", "get_ypos"), ("grid", "positions"), ("grid", "x_bounds"), ("grid", "y_bounds"), ("grid", "new")]

/-- every published wrapper is (still) a lowering wrapper found in the regenerated table: the matrix above quantifies over
all of them -/
theorem C17_published_present :
    publishedWrappers.all (fun p => Gen.Vocab.wrappers.any fun w => w.1 == p.1 && w.2.1 == p.2) = true := by
  decide +kernel

/-- the three groups exist -/
theorem C17_groups_exist : kinds.all (fun k => (Gen.Vocab.groups.lookup k).isSome) = true := by
  decide +kernel

/-- the tracer refuses anything that is not a tweezer kernel or a closure (observed on one method of each kind: a
tweezer kernel, a move kernel, an atom-level kernel, a plain kirin function, a function of another dialect group that
contains the action dialect, a closure that captures a value and closures
that capture nothing, folded and unfolded) -/
theorem C17_tracer_guard :
    Gen.Vocab.tracerGuard = [("tweezer", true), ("move", false), ("kernel", false), ("plain_function", false),
      ("custom_group_with_action", false), ("closure_capturing", true), ("closure_capture_free", true), ("closure_capture_free_nofold", true)] := by decide

/-- in words, for membership: a wrapper listed in the table is accepted exactly where documented -/
theorem C17_matrix_mem (w : String × String × String × String) (hw : w ∈ Gen.Vocab.wrappers)
    (k : String) (hk : k ∈ kinds) : accepts w.2.2.2 k = documented w.1 k := by
  have h := C17_matrix
  rw [List.all_eq_true] at h
  have h2 := h w hw
  rw [List.all_eq_true] at h2
  simpa using h2 k hk

/-- non-vacuity: the table is not empty and contains a rejected and an accepted pair -/
example : Gen.Vocab.wrappers.length ≥ 30 ∧ accepts "action" "move" = false ∧ accepts "action" "tweezer" = true := by
  decide +kernel

end Shuttle.Props.C17
