import Shuttle.Model.AOD
/-!
# C08 — general laws of the AOD simulator (every accepted run, any paths, any occupancy)
-/
namespace Shuttle.Props.C08
open Shuttle.AOD
open Shuttle

theorem mapM_option_length {α β : Type} (f : α → Option β) :
    ∀ (l : List α) (r : List β), l.mapM f = some r → r.length = l.length := by
  intro l
  induction l with
  | nil => intro r h; simp at h; subst h; rfl
  | cons a l ih =>
    intro r h
    simp only [List.mapM_cons] at h
    cases ha : f a with
    | none => simp [ha] at h
    | some b =>
      cases hl : l.mapM f with
      | none => simp [ha, hl] at h
      | some r' =>
        simp [ha, hl] at h
        subst h
        simp [ih r' hl]

theorem carry_length (xt yt : List Int) (g : Grid) (held r : List (Spot × Site))
    (h : carry xt yt g held = some r) : r.length = held.length :=
  mapM_option_length _ _ _ h

/-- what every step keeps: the number of atoms, and no trap holding two atoms -/
def Keeps (sites : List Site) (s s' : State) : Prop :=
  s'.atoms = s.atoms ∧ (s.occ.Nodup → s'.occ.Nodup) ∧ (∀ p ∈ s'.occ, p ∈ s.occ ∨ p ∈ sites)

theorem Keeps.refl (sites : List Site) (s : State) : Keeps sites s s :=
  ⟨rfl, id, fun _ h => .inl h⟩

theorem Keeps.trans {sites : List Site} {a b c : State} (h1 : Keeps sites a b) (h2 : Keeps sites b c) :
    Keeps sites a c := by
  refine ⟨h2.1.trans h1.1, fun h => h2.2.1 (h1.2.1 h), ?_⟩
  intro p hp
  rcases h2.2.2 p hp with h | h
  · exact h1.2.2 p h
  · exact .inr h

theorem pickAll_keeps (sites : List Site) (xt yt : List Int) (g : Grid) :
    ∀ (l : List Spot) (s s' : State), pickAll xt yt g l s = .ok s' → Keeps sites s s' := by
  intro l
  induction l with
  | nil => intro s s' h; simp [pickAll] at h; subst h; exact Keeps.refl _ _
  | cons sp rest ih =>
    intro s s' h
    unfold pickAll at h
    split at h
    · cases h
    · rename_i p _
      split at h
      · rename_i hocc
        split at h
        · cases h
        · refine Keeps.trans ?_ (ih _ _ h)
          refine ⟨?_, ?_, ?_⟩
          · simp only [State.atoms, List.length_append, List.length_cons, List.length_nil]
            have : (s.occ.erase p).length = s.occ.length - 1 := List.length_erase_of_mem hocc
            have hpos : 0 < s.occ.length := List.length_pos_of_mem hocc
            omega
          · intro hn; exact hn.erase p
          · intro q hq; exact .inl (List.mem_of_mem_erase hq)
      · cases h

theorem dropAll_keeps (sites : List Site) :
    ∀ (l : List (Spot × Site)) (s s' : State), dropAll sites l s = .ok s' → Keeps sites s s' := by
  intro l
  induction l with
  | nil => intro s s' h; simp [dropAll] at h; subst h; exact Keeps.refl _ _
  | cons a rest ih =>
    intro s s' h
    obtain ⟨sp, p⟩ := a
    unfold dropAll at h
    split at h
    · rename_i hc
      refine Keeps.trans ?_ (ih _ _ h)
      refine ⟨?_, ?_, ?_⟩
      · simp only [State.atoms, List.length_append, List.length_cons, List.length_nil]
        have : (s.held.erase (sp, p)).length = s.held.length - 1 := List.length_erase_of_mem hc.2.2
        have hpos : 0 < s.held.length := List.length_pos_of_mem hc.2.2
        omega
      · intro hn
        simp only
        rw [List.nodup_append]
        refine ⟨hn, by simp, ?_⟩
        intro a ha b hb
        simp at hb; subst hb
        intro hab; subst hab; exact hc.2.1 ha
      · intro q hq
        simp at hq
        rcases hq with hq | hq
        · exact .inl hq
        · subst hq; exact .inr hc.1
    · cases h

/-- one action of any path keeps the atoms -/
theorem stepAction_keeps (sites : List Site) (xt yt : List Int) (s s' : State) (cur cur' : Option Grid) (a : Action)
    (h : stepAction sites xt yt s cur a = .ok (s', cur')) : Keeps sites s s' := by
  cases a with
  | way ws =>
    simp only [stepAction] at h
    split at h
    · cases h
    · split at h
      · cases h
      · split at h
        · cases h
        · split at h
          · cases h
          · split at h
            · cases h
            · split at h
              · cases h
              · rename_i h' hc
                cases h
                exact ⟨by simp [State.atoms, carry_length _ _ _ _ _ hc], id, fun _ hp => .inl hp⟩
  | sw t x y =>
    simp only [stepAction] at h
    split at h
    · cases h
    · split at h
      · split at h
        · split at h
          · rename_i hp
            cases h
            have := pickAll_keeps sites _ _ _ _ _ _ hp
            exact ⟨this.1, this.2.1, this.2.2⟩
          · cases h
        · split at h
          · rename_i hd
            cases h
            have := dropAll_keeps sites _ _ _ hd
            exact ⟨this.1, this.2.1, this.2.2⟩
          · cases h
      · cases h

theorem runActions_keeps (sites : List Site) (xt yt : List Int) :
    ∀ (l : List Action) (s s' : State) (cur : Option Grid), runActions sites xt yt s cur l = .ok s' → Keeps sites s s' := by
  intro l
  induction l with
  | nil => intro s s' cur h; simp [runActions] at h; subst h; exact Keeps.refl _ _
  | cons a rest ih =>
    intro s s' cur h
    unfold runActions at h
    split at h
    · rename_i s1 c1 hs
      exact Keeps.trans (stepAction_keeps _ _ _ _ _ _ _ _ hs) (ih _ _ _ h)
    · cases h

theorem playAll_keeps (sites : List Site) :
    ∀ (ps : List PathVal) (s s' : State), playAll sites s ps = .ok s' → Keeps sites s s' := by
  intro ps
  induction ps with
  | nil => intro s s' h; simp [playAll] at h; subst h; exact Keeps.refl _ _
  | cons p rest ih =>
    intro s s' h
    unfold playAll at h
    split at h
    · rename_i s1 hs
      exact Keeps.trans (runActions_keeps _ _ _ _ _ _ _ hs) (ih _ _ h)
    · cases h

/-- **No atom is lost or duplicated**: on every accepted run of any sequence of paths the number of atoms (in traps or in
tweezers) is unchanged, no trap ever holds two atoms, and every atom that is in a trap afterwards either stayed where it was
or was released onto a trap site of the layout. -/
theorem C08_exec_conserves_atoms (sites : List Site) (occ : List Site) (ps : List PathVal) (s' : State)
    (hn : occ.Nodup) (h : playAll sites (State.init occ) ps = .ok s') :
    s'.occ.length + s'.held.length = occ.length ∧ s'.occ.Nodup ∧ ∀ p ∈ s'.occ, p ∈ occ ∨ p ∈ sites := by
  have k := playAll_keeps sites ps _ _ h
  refine ⟨?_, k.2.1 hn, k.2.2⟩
  have := k.1
  simpa [State.atoms, State.init] using this

end Shuttle.Props.C08
