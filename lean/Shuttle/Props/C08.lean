import Shuttle.Lemmas.StdMoves
import Shuttle.Model.StdLib
/-!
# C08 — general laws of the AOD simulator (every accepted run, any paths, any occupancy)
-/
namespace Shuttle.Props.C08
open Shuttle.AOD
open Shuttle

theorem mapM_option_length {α β : Type} (f : α → Option β) :
    ∀ (l : List α) (r : List β), l.mapM f = some r → r.length = l.length := by
  intro l
  induction l with
  | nil => intro r h; simp at h; subst h; rfl
  | cons a l ih =>
    intro r h
    simp only [List.mapM_cons] at h
    cases ha : f a with
    | none => simp [ha] at h
    | some b =>
      cases hl : l.mapM f with
      | none => simp [ha, hl] at h
      | some r' =>
        simp [ha, hl] at h
        subst h
        simp [ih r' hl]

theorem carry_length (xt yt : List Int) (g : Grid) (held r : List (Spot × Site))
    (h : carry xt yt g held = some r) : r.length = held.length :=
  mapM_option_length _ _ _ h

/-- what every step keeps: the number of atoms, and no trap holding two atoms -/
def Keeps (sites : List Site) (s s' : State) : Prop :=
  s'.atoms = s.atoms ∧ (s.occ.Nodup → s'.occ.Nodup) ∧ (∀ p ∈ s'.occ, p ∈ s.occ ∨ p ∈ sites)

theorem Keeps.refl (sites : List Site) (s : State) : Keeps sites s s :=
  ⟨rfl, id, fun _ h => .inl h⟩

theorem Keeps.trans {sites : List Site} {a b c : State} (h1 : Keeps sites a b) (h2 : Keeps sites b c) :
    Keeps sites a c := by
  refine ⟨h2.1.trans h1.1, fun h => h2.2.1 (h1.2.1 h), ?_⟩
  intro p hp
  rcases h2.2.2 p hp with h | h
  · exact h1.2.2 p h
  · exact .inr h

theorem pickAll_keeps (sites : List Site) (xt yt : List Int) (g : Grid) :
    ∀ (l : List Spot) (s s' : State), pickAll xt yt g l s = .ok s' → Keeps sites s s' := by
  intro l
  induction l with
  | nil => intro s s' h; simp [pickAll] at h; subst h; exact Keeps.refl _ _
  | cons sp rest ih =>
    intro s s' h
    unfold pickAll at h
    split at h
    · cases h
    · rename_i p _
      split at h
      · rename_i hocc
        split at h
        · cases h
        · refine Keeps.trans ?_ (ih _ _ h)
          refine ⟨?_, ?_, ?_⟩
          · simp only [State.atoms, List.length_append, List.length_cons, List.length_nil]
            have : (s.occ.erase p).length = s.occ.length - 1 := List.length_erase_of_mem hocc
            have hpos : 0 < s.occ.length := List.length_pos_of_mem hocc
            omega
          · intro hn; exact hn.erase p
          · intro q hq; exact .inl (List.mem_of_mem_erase hq)
      · cases h

theorem dropAll_keeps (sites : List Site) :
    ∀ (l : List (Spot × Site)) (s s' : State), dropAll sites l s = .ok s' → Keeps sites s s' := by
  intro l
  induction l with
  | nil => intro s s' h; simp [dropAll] at h; subst h; exact Keeps.refl _ _
  | cons a rest ih =>
    intro s s' h
    obtain ⟨sp, p⟩ := a
    unfold dropAll at h
    split at h
    · rename_i hc
      refine Keeps.trans ?_ (ih _ _ h)
      refine ⟨?_, ?_, ?_⟩
      · simp only [State.atoms, List.length_append, List.length_cons, List.length_nil]
        have : (s.held.erase (sp, p)).length = s.held.length - 1 := List.length_erase_of_mem hc.2.2
        have hpos : 0 < s.held.length := List.length_pos_of_mem hc.2.2
        omega
      · intro hn
        simp only
        rw [List.nodup_append]
        refine ⟨hn, by simp, ?_⟩
        intro a ha b hb
        simp at hb; subst hb
        intro hab; subst hab; exact hc.2.1 ha
      · intro q hq
        simp at hq
        rcases hq with hq | hq
        · exact .inl hq
        · subst hq; exact .inr hc.1
    · cases h

/-- one action of any path keeps the atoms -/
theorem stepAction_keeps (sites : List Site) (xt yt : List Int) (s s' : State) (cur cur' : Option Grid) (a : Action)
    (h : stepAction sites xt yt s cur a = .ok (s', cur')) : Keeps sites s s' := by
  cases a with
  | way ws =>
    simp only [stepAction] at h
    split at h
    · cases h
    · split at h
      · cases h
      · split at h
        · cases h
        · split at h
          · cases h
          · split at h
            · cases h
            · split at h
              · cases h
              · rename_i h' hc
                cases h
                exact ⟨by simp [State.atoms, carry_length _ _ _ _ _ hc], id, fun _ hp => .inl hp⟩
  | sw t x y =>
    simp only [stepAction] at h
    split at h
    · cases h
    · split at h
      · split at h
        · split at h
          · rename_i hp
            cases h
            have := pickAll_keeps sites _ _ _ _ _ _ hp
            exact ⟨this.1, this.2.1, this.2.2⟩
          · cases h
        · split at h
          · rename_i hd
            cases h
            have := dropAll_keeps sites _ _ _ hd
            exact ⟨this.1, this.2.1, this.2.2⟩
          · cases h
      · cases h

theorem runActions_keeps (sites : List Site) (xt yt : List Int) :
    ∀ (l : List Action) (s s' : State) (cur : Option Grid), runActions sites xt yt s cur l = .ok s' → Keeps sites s s' := by
  intro l
  induction l with
  | nil => intro s s' cur h; simp [runActions] at h; subst h; exact Keeps.refl _ _
  | cons a rest ih =>
    intro s s' cur h
    unfold runActions at h
    split at h
    · rename_i s1 c1 hs
      exact Keeps.trans (stepAction_keeps _ _ _ _ _ _ _ _ hs) (ih _ _ _ h)
    · cases h

theorem playAll_keeps (sites : List Site) :
    ∀ (ps : List PathVal) (s s' : State), playAll sites s ps = .ok s' → Keeps sites s s' := by
  intro ps
  induction ps with
  | nil => intro s s' h; simp [playAll] at h; subst h; exact Keeps.refl _ _
  | cons p rest ih =>
    intro s s' h
    unfold playAll at h
    split at h
    · rename_i s1 hs
      exact Keeps.trans (runActions_keeps _ _ _ _ _ _ _ hs) (ih _ _ h)
    · cases h

/-- **No atom is lost or duplicated**: on every accepted run of any sequence of paths the number of atoms (in traps or in
tweezers) is unchanged, no trap ever holds two atoms, and every atom that is in a trap afterwards either stayed where it was
or was released onto a trap site of the layout. -/
theorem C08_exec_conserves_atoms (sites : List Site) (occ : List Site) (ps : List PathVal) (s' : State)
    (hn : occ.Nodup) (h : playAll sites (State.init occ) ps = .ok s') :
    s'.occ.length + s'.held.length = occ.length ∧ s'.occ.Nodup ∧ ∀ p ∈ s'.occ, p ∈ occ ∨ p ∈ sites := by
  have k := playAll_keeps sites ps _ _ h
  refine ⟨?_, k.2.1 hn, k.2.2⟩
  have := k.1
  simpa [State.atoms, State.init] using this

end Shuttle.Props.C08

namespace Shuttle.Props.C08
open Shuttle Shuttle.AOD Shuttle.StdMoves
open Shuttle.Gen.ActionTables (Tag)

/-! ## `move_by_waypoints` ends where documented (all waypoint lists, all occupancies) -/

theorem waypoints_refPath (w0 gl : Grid) (rest : List Grid)
    (hshape : ∀ g ∈ rest, g.shape = w0.shape) (hlast : (w0 :: rest).getLast? = some gl) :
    refPath ([Op.setLoc w0] ++ [Op.turn true ALL ALL] ++ rest.map Op.move ++ [Op.turn false ALL ALL]) =
      some [.way [w0], .sw (refTag true ALL ALL) ALL ALL, .way (w0 :: rest), .sw (refTag false ALL ALL) ALL ALL,
            .way [gl]] := by
  unfold refPath
  simp only [List.singleton_append, List.cons_append, List.nil_append, rrun, rstep, List.getLast?_singleton]
  rw [rrun_moves rest _ [w0] w0 _ (by simp) hshape]
  simp only [rrun, rstep, List.singleton_append, hlast]
  simp [rout]

theorem shapeOK_of_shape (w0 g : Grid) (h : g.shape = w0.shape) :
    shapeOK (tonesOf w0.numX) (tonesOf w0.numY) g = true := by
  simp only [Grid.shape, Prod.mk.injEq] at h
  simp [shapeOK, tonesOf_length, h.1, h.2]

/-- **`move_by_waypoints(wps, pick=True, drop=True)`**: for every non-empty list of waypoints of one shape, if the sites
of the first waypoint are distinct occupied traps and the sites of the last are distinct trap sites of the layout that
are vacant once the atoms have been picked up, the move is not rejected, its path is physically executable, and the atoms
of the first waypoint end exactly on the last waypoint; nothing else moves. -/
theorem C08_waypoints_destination (sites occ : List Site) (w0 gl : Grid) (rest : List Grid)
    (hshape : ∀ g ∈ rest, g.shape = w0.shape) (hlast : (w0 :: rest).getLast? = some gl)
    (hsrc : w0.positions.Nodup) (hocc : ∀ p ∈ w0.positions, p ∈ occ)
    (hdst : gl.positions.Nodup) (hsite : ∀ p ∈ gl.positions, p ∈ sites)
    (hvac : ∀ p ∈ gl.positions, p ∉ w0.positions.foldl List.erase occ) :
    ∃ ps, moveByWaypoints (w0 :: rest) true true = some ps ∧
      playAll sites (State.init occ) ps = .ok ⟨w0.positions.foldl List.erase occ ++ gl.positions, [], [], []⟩ := by
  let xt := tonesOf w0.numX
  let yt := tonesOf w0.numY
  have hall : (w0 :: rest).all (shapeOK xt yt) = true := by
    rw [List.all_eq_true]
    intro g hg
    rcases List.mem_cons.1 hg with rfl | hg
    · exact shapeOK_of_shape _ _ rfl
    · exact shapeOK_of_shape _ _ (hshape g hg)
  have hs0 : shapeOK xt yt w0 = true := shapeOK_of_shape _ _ rfl
  have hsl : shapeOK xt yt gl = true := List.all_eq_true.1 hall gl (List.mem_of_getLast? hlast)
  have e0 := cross_map_place xt yt w0 hs0 (tonesOf_nodup _) (tonesOf_nodup _)
  have el := cross_map_place xt yt gl hsl (tonesOf_nodup _) (tonesOf_nodup _)
  refine ⟨[⟨xt, yt, [.way [w0], .sw (refTag true ALL ALL) ALL ALL, .way (w0 :: rest), .sw (refTag false ALL ALL) ALL ALL,
    .way [gl]]⟩], ?_, ?_⟩
  · simp only [moveByWaypoints, devCall, waypointsOps, if_true, Option.bind_eq_bind, Option.bind_some]
    rw [waypoints_refPath w0 gl rest hshape hlast]
    rfl
  · simp only [playAll]
    have := transport sites occ xt yt ALL ALL xt yt (refTag true ALL ALL) (refTag false ALL ALL) w0 gl rest
      (place xt yt w0) (place xt yt gl) rfl rfl (select_all _) (select_all _) (tonesOf_nodup _) (tonesOf_nodup _)
      (fun _ h => h) (fun _ h => h) hall hlast
      (fun sp h => spotPos_place xt yt w0 sp hs0 (mem_cross.1 h).1 (mem_cross.1 h).2)
      (fun sp h => spotPos_place xt yt gl sp hsl (mem_cross.1 h).1 (mem_cross.1 h).2)
      (by rw [e0]; exact hsrc)
      (by intro sp h; exact hocc _ (by rw [← e0]; exact List.mem_map_of_mem h))
      (by rw [el]; exact hdst)
      (by intro sp h; exact hsite _ (by rw [← el]; exact List.mem_map_of_mem h))
      (by intro sp h; rw [e0]; exact hvac _ (by rw [← el]; exact List.mem_map_of_mem h))
    rw [this, e0, el]

end Shuttle.Props.C08

namespace Shuttle.Props.C08
open Shuttle Shuttle.AOD Shuttle.StdMoves
open Shuttle.Gen.ActionTables (Tag)

/-! ## the single-zone CZ move returns every atom to its origin -/

theorem subSpacing_length (sp : List Rat) : ∀ (l : List Int), (Grid.subSpacing sp l).length = l.length - 1
  | [] => by simp [Grid.subSpacing]
  | [_] => by simp [Grid.subSpacing]
  | a :: b :: t => by
    simp only [Grid.subSpacing, List.length_cons]
    have := subSpacing_length sp (b :: t)
    simp only [List.length_cons] at this
    omega

theorem subGrid_shape (zone v : Grid) (px py : Rat) (xi yi : List Int) (hx : zone.xInit = some px)
    (hy : zone.yInit = some py) (h : zone.subGrid xi yi = some v) : v.shape = (xi.length, yi.length) := by
  unfold Grid.subGrid at h
  split at h
  · cases h
  · rename_i hne
    simp only [List.isEmpty_iff, not_or] at hne
    cases h
    cases xi with
    | nil => exact absurd rfl hne.1
    | cons a t =>
      cases yi with
      | nil => exact absurd rfl hne.2
      | cons b u =>
        simp [Grid.shape, Grid.numX, Grid.numY, Grid.subInit, hx, hy, subSpacing_length]

theorem shift_shape (g : Grid) (dx dy : Rat) : (g.shift dx dy).shape = g.shape := by
  unfold Grid.shift Grid.shape Grid.numX Grid.numY
  cases g.xInit <;> cases g.yInit <;> simp

theorem spacingOf_length : ∀ (l : List Rat), (Grid.spacingOf l).length = l.length - 1
  | [] => by simp [Grid.spacingOf]
  | [_] => by simp [Grid.spacingOf]
  | a :: b :: t => by
    simp only [Grid.spacingOf, List.length_cons]
    have := spacingOf_length (b :: t)
    simp only [List.length_cons] at this
    omega

theorem fromPositions_shape (xs ys : List Rat) : (Grid.fromPositions xs ys).shape = (xs.length, ys.length) := by
  unfold Grid.fromPositions Grid.shape Grid.numX Grid.numY
  cases xs <;> cases ys <;> simp [spacingOf_length]

theorem shapeOK_tones (nx ny : Nat) (g : Grid) (h : g.shape = (nx, ny)) : shapeOK (tonesOf nx) (tonesOf ny) g = true := by
  simp only [Grid.shape, Prod.mk.injEq] at h
  simp [shapeOK, tonesOf_length, h.1, h.2]

/-- **single-zone CZ move** (`cz_move` / `default_move_cz`): for every zone, every shift and all index lists for which the
kernel's own checks pass (equal lengths, strictly ascending, sub-grids exist), if the control sites are distinct occupied
traps of the layout, the move is not rejected, both of its paths are physically executable (no jump between the forward
and the return path), and afterwards exactly the same traps are occupied as before, each by one atom. -/
theorem C08_cz_returns_to_origin (sites occ : List Site) (zone start target : Grid) (px py dx dy : Rat)
    (cx cy qx qy : List Int)
    (hzx : zone.xInit = some px) (hzy : zone.yInit = some py)
    (hlx : cx.length = qx.length) (hly : cy.length = qy.length) (hne : 1 ≤ cx.length)
    (hsorted : (sortedStrict cx && sortedStrict cy && sortedStrict qx && sortedStrict qy) = true)
    (hstart : zone.subGrid cx cy = some start) (htarget : zone.subGrid qx qy = some target)
    (hsrc : start.positions.Nodup) (hocc : ∀ p ∈ start.positions, p ∈ occ) (hsite : ∀ p ∈ start.positions, p ∈ sites)
    (hoccnd : occ.Nodup) :
    ∃ ps s', czMove zone cx cy qx qy dx dy = some ps ∧ playAll sites (State.init occ) ps = .ok s' ∧
      s'.held = [] ∧ s'.occ.Nodup ∧ ∀ q, q ∈ s'.occ ↔ q ∈ occ := by
  let xt := tonesOf cx.length
  let yt := tonesOf cy.length
  let end_ := target.shift dx dy
  let first := start.shift dx dy
  let second := Grid.fromPositions end_.xPositions first.yPositions
  have sh0 : start.shape = (cx.length, cy.length) := subGrid_shape zone start px py cx cy hzx hzy hstart
  have sht : target.shape = (cx.length, cy.length) := by
    rw [subGrid_shape zone target px py qx qy hzx hzy htarget, hlx, hly]
  have sh1 : first.shape = (cx.length, cy.length) := by rw [shift_shape]; exact sh0
  have she : end_.shape = (cx.length, cy.length) := by rw [shift_shape]; exact sht
  have sh2 : second.shape = (cx.length, cy.length) := by
    rw [fromPositions_shape, xPositions_length, yPositions_length]
    simp only [Grid.shape, Prod.mk.injEq] at she sh1
    rw [she.1, sh1.2]
  have ok0 := shapeOK_tones _ _ _ sh0
  have ok1 := shapeOK_tones _ _ _ sh1
  have ok2 := shapeOK_tones _ _ _ sh2
  have oke := shapeOK_tones _ _ _ she
  have e0 := cross_map_place xt yt start ok0 (tonesOf_nodup _) (tonesOf_nodup _)
  -- the kernel's operation sequence and its reference trace
  have hops : czOps zone cx cy qx qy dx dy =
      some [.setLoc start, .turn true ALL ALL, .move first, .move second, .move end_] := by
    have hl : ¬ (cx.length ≠ qx.length ∨ cy.length ≠ qy.length) := by simp [hlx, hly]
    simp only [czOps, hl, if_false, hsorted, Bool.not_true, Bool.false_eq_true, hstart, htarget,
      Option.bind_eq_bind, Option.bind_some]
    rfl
  have hpath : refPath [.setLoc start, .turn true ALL ALL, .move first, .move second, .move end_] =
      some [.way [start], .sw (refTag true ALL ALL) ALL ALL, .way [start, first, second, end_]] := by
    have := pick_carry_refPath start [first, second, end_] ALL ALL (by
        intro g hg
        simp only [List.mem_cons, List.not_mem_nil, or_false] at hg
        rcases hg with rfl | rfl | rfl
        · rw [sh1, sh0]
        · rw [sh2, sh0]
        · rw [she, sh0])
    simpa using this
  have hrev : reversePath [.way [start], .sw (refTag true ALL ALL) ALL ALL, .way [start, first, second, end_]] =
      some [.way [end_, second, first, start], .sw ⟨false, true, true⟩ ALL ALL, .way [start]] := by
    rfl
  refine ⟨[⟨xt, yt, [.way [start], .sw (refTag true ALL ALL) ALL ALL, .way [start, first, second, end_]]⟩,
           ⟨xt, yt, [.way [end_, second, first, start], .sw ⟨false, true, true⟩ ALL ALL, .way [start]]⟩],
          ⟨((cross xt yt).map (place xt yt start)).foldl List.erase occ ++ (cross xt yt).map (place xt yt start), [], [], []⟩,
          ?_, ?_, ?_⟩
  · have hn : ¬ (cx.length < 1 ∨ qx.length < 1) := by omega
    simp only [czMove, hn, if_false, devCall, devCallRev, hops, hpath, hrev, Option.bind_eq_bind, Option.bind_some]
    rfl
  · exact round_trip sites occ xt yt ALL ALL xt yt (refTag true ALL ALL) ⟨false, true, true⟩ start end_
      [first, second, end_] [second, first, start] (place xt yt start) (place xt yt end_) rfl rfl
      (select_all _) (select_all _) (tonesOf_nodup _) (tonesOf_nodup _) (fun _ h => h) (fun _ h => h)
      (by simp only [List.all_cons, List.all_nil, Bool.and_true, Bool.and_eq_true]; exact ⟨ok0, ok1, ok2, oke⟩) (by simp)
      (by simp only [List.all_cons, List.all_nil, Bool.and_true, Bool.and_eq_true]; exact ⟨oke, ok2, ok1, ok0⟩) (by simp)
      (fun sp h => spotPos_place xt yt start sp ok0 (mem_cross.1 h).1 (mem_cross.1 h).2)
      (fun sp h => spotPos_place xt yt end_ sp oke (mem_cross.1 h).1 (mem_cross.1 h).2)
      (by rw [e0]; exact hsrc)
      (by intro sp h; exact hocc _ (by rw [← e0]; exact List.mem_map_of_mem h))
      (by intro sp h; exact hsite _ (by rw [← e0]; exact List.mem_map_of_mem h))
      hoccnd
  · simp only [e0]
    have := erase_then_append_perm occ start.positions hoccnd hsrc hocc
    exact ⟨trivial, this.2, this.1⟩

end Shuttle.Props.C08

namespace Shuttle.Props.C08
open Shuttle Shuttle.AOD Shuttle.StdMoves

/-! non-vacuity: concrete layouts meeting the hypotheses of the two destination theorems -/

private def zone22 : Grid := ⟨[10], [10], some 0, some 0⟩
private def sites22 : List Site := [(0, 0), (0, 10), (10, 0), (10, 10)]

example : ∃ ps s', czMove zone22 [0] [0] [1] [1] 2 2 = some ps ∧ playAll sites22 (State.init [(0, 0), (10, 10)]) ps = .ok s' ∧
    s'.held = [] ∧ s'.occ.Nodup ∧ ∀ q, q ∈ s'.occ ↔ q ∈ [((0 : Rat), (0 : Rat)), (10, 10)] :=
  C08_cz_returns_to_origin sites22 [(0, 0), (10, 10)] zone22 ⟨[], [], some 0, some 0⟩ ⟨[], [], some 10, some 10⟩ 0 0 2 2
    [0] [0] [1] [1] rfl rfl rfl rfl (by decide) (by decide) (by decide +kernel) (by decide +kernel)
    (by decide +kernel) (by decide +kernel) (by decide +kernel) (by decide +kernel)

example : ∃ ps, moveByWaypoints [zone22.shift 0 0, zone22.shift 0 3, ⟨[10], [10], some 0, some 0⟩] true true = some ps ∧
    playAll sites22 (State.init sites22) ps =
      .ok ⟨(zone22.shift 0 0).positions.foldl List.erase sites22 ++ zone22.positions, [], [], []⟩ :=
  C08_waypoints_destination sites22 sites22 (zone22.shift 0 0) zone22 [zone22.shift 0 3, zone22]
    (by decide +kernel) (by decide +kernel) (by decide +kernel) (by decide +kernel) (by decide +kernel) (by decide +kernel)
    (by decide +kernel)

end Shuttle.Props.C08

namespace Shuttle.Props.C08
open Shuttle Shuttle.AOD Shuttle.StdMoves
open Shuttle.Gen.ActionTables (Tag)

/-! ## two-column `rearrange` ends on the destination sites -/

/-- set, switch on, a run of moves, switch off -/
theorem pick_carry_drop_refPath (g0 gl : Grid) (gs : List Grid) (sx sy : Sel) (hs : ∀ g ∈ gs, g.shape = g0.shape)
    (hlast : (g0 :: gs).getLast? = some gl) :
    refPath ([Op.setLoc g0, Op.turn true sx sy] ++ gs.map Op.move ++ [Op.turn false sx sy]) =
      some [.way [g0], .sw (refTag true sx sy) sx sy, .way (g0 :: gs), .sw (refTag false sx sy) sx sy, .way [gl]] := by
  unfold refPath
  simp only [List.cons_append, List.nil_append, rrun, rstep, List.getLast?_singleton]
  rw [rrun_moves gs _ [g0] g0 _ (by simp) hs]
  simp only [rrun, rstep, List.singleton_append, hlast]
  simp [rout]

/-- **two-column `rearrange`**: for every zone and all index lists on which the kernel does not raise (equal lengths, strictly
ascending, in range), if the source sites are distinct occupied traps and the destination sites are distinct trap sites of the
layout that are vacant once the atoms have been picked up, the move's path is physically executable and the atoms of
`zone[src_x × src_y]` end exactly on `zone[dst_x × dst_y]`; nothing else moves. -/
theorem C08_rearrange_destination (sites occ : List Site) (zone start end_ : Grid) (px py : Rat)
    (sx sy dx dy : List Int) (ops : List Op)
    (hzx : zone.xInit = some px) (hzy : zone.yInit = some py) (hne : 1 ≤ sx.length) (hne' : 1 ≤ dx.length)
    (hops : rearrangeOps zone sx sy dx dy = some ops)
    (hstart : zone.subGrid sx sy = some start) (hend : zone.subGrid dx dy = some end_)
    (hsrc : start.positions.Nodup) (hocc : ∀ p ∈ start.positions, p ∈ occ)
    (hdst : end_.positions.Nodup) (hsite : ∀ p ∈ end_.positions, p ∈ sites)
    (hvac : ∀ p ∈ end_.positions, p ∉ start.positions.foldl List.erase occ) :
    ∃ ps, rearrange zone sx sy dx dy = some ps ∧
      playAll sites (State.init occ) ps = .ok ⟨start.positions.foldl List.erase occ ++ end_.positions, [], [], []⟩ := by
  let xt := tonesOf sx.length
  let yt := tonesOf sy.length
  -- unfold the kernel: the lengths agree and the parking grids exist
  unfold rearrangeOps at hops
  split at hops
  · cases hops
  rename_i hlen
  split at hops
  · cases hops
  simp only [hstart, hend, Option.bind_eq_bind, Option.bind_some] at hops
  have hlx : sx.length = dx.length := by
    by_cases h : sx.length = dx.length
    · exact h
    · exact absurd (Or.inl h) hlen
  have hly : sy.length = dy.length := by
    by_cases h : sy.length = dy.length
    · exact h
    · exact absurd (Or.inr h) hlen
  cases h1 : sx.mapM (parkingX zone) with
  | none => simp [h1] at hops
  | some srcPx =>
  cases h2 : dx.mapM (parkingX zone) with
  | none => simp [h1, h2] at hops
  | some dstPx =>
  cases h3 : parkingYs parkingYStart start.yPositions end_.yPositions sy.length with
  | none => simp [h1, h2, h3] at hops
  | some srcPy =>
  cases h4 : parkingYs parkingYEnd start.yPositions end_.yPositions sy.length with
  | none => simp [h1, h2, h3, h4] at hops
  | some dstPy =>
  simp only [h1, h2, h3, h4, Option.bind_some, Option.some.injEq] at hops
  have l1 : srcPx.length = sx.length := mapM_option_length _ _ _ h1
  have l2 : dstPx.length = sx.length := by rw [mapM_option_length _ _ _ h2, hlx]
  have l3 : srcPy.length = sy.length := by rw [mapM_option_length _ _ _ h3]; simp
  have l4 : dstPy.length = sy.length := by rw [mapM_option_length _ _ _ h4]; simp
  let srcParking := Grid.fromPositions srcPx srcPy
  let dstParking := Grid.fromPositions dstPx dstPy
  let mid := Grid.fromPositions srcParking.xPositions dstParking.yPositions
  have sh0 : start.shape = (sx.length, sy.length) := subGrid_shape zone start px py sx sy hzx hzy hstart
  have she : end_.shape = (sx.length, sy.length) := by
    rw [subGrid_shape zone end_ px py dx dy hzx hzy hend, hlx, hly]
  have sh1 : srcParking.shape = (sx.length, sy.length) := by rw [fromPositions_shape, l1, l3]
  have sh3 : dstParking.shape = (sx.length, sy.length) := by rw [fromPositions_shape, l2, l4]
  have sh2 : mid.shape = (sx.length, sy.length) := by
    rw [fromPositions_shape, xPositions_length, yPositions_length]
    simp only [Grid.shape, Prod.mk.injEq] at sh1 sh3
    rw [sh1.1, sh3.2]
  have ok0 := shapeOK_tones _ _ _ sh0
  have ok1 := shapeOK_tones _ _ _ sh1
  have ok2 := shapeOK_tones _ _ _ sh2
  have ok3 := shapeOK_tones _ _ _ sh3
  have oke := shapeOK_tones _ _ _ she
  have e0 := cross_map_place xt yt start ok0 (tonesOf_nodup _) (tonesOf_nodup _)
  have el := cross_map_place xt yt end_ oke (tonesOf_nodup _) (tonesOf_nodup _)
  have hpath := pick_carry_drop_refPath start end_ [srcParking, mid, dstParking, end_] ALL ALL (by
      intro g hg
      simp only [List.mem_cons, List.not_mem_nil, or_false] at hg
      rcases hg with rfl | rfl | rfl | rfl
      · rw [sh1, sh0]
      · rw [sh2, sh0]
      · rw [sh3, sh0]
      · rw [she, sh0]) (by simp)
  refine ⟨[⟨xt, yt, [.way [start], .sw (refTag true ALL ALL) ALL ALL, .way [start, srcParking, mid, dstParking, end_],
                      .sw (refTag false ALL ALL) ALL ALL, .way [end_]]⟩], ?_, ?_⟩
  · have hn : ¬ (sx.length < 1 ∨ dx.length < 1) := by omega
    have hops' : rearrangeOps zone sx sy dx dy = some ops := by
      unfold rearrangeOps
      simp only [hlen, if_false]
      rename_i hsorted
      simp [hsorted, hstart, hend, h1, h2, h3, h4, hops]
    simp only [rearrange, hn, if_false, devCall, hops', Option.bind_eq_bind, Option.bind_some]
    rw [← hops]
    have : refPath [Op.setLoc start, Op.turn true ALL ALL, Op.move srcParking, Op.move mid, Op.move dstParking,
        Op.move end_, Op.turn false ALL ALL] =
        some [.way [start], .sw (refTag true ALL ALL) ALL ALL, .way [start, srcParking, mid, dstParking, end_],
          .sw (refTag false ALL ALL) ALL ALL, .way [end_]] := by simpa using hpath
    rw [this]
    rfl
  · simp only [playAll]
    have := transport sites occ xt yt ALL ALL xt yt (refTag true ALL ALL) (refTag false ALL ALL) start end_
      [srcParking, mid, dstParking, end_]
      (place xt yt start) (place xt yt end_) rfl rfl (select_all _) (select_all _) (tonesOf_nodup _) (tonesOf_nodup _)
      (fun _ h => h) (fun _ h => h)
      (by simp only [List.all_cons, List.all_nil, Bool.and_true, Bool.and_eq_true]; exact ⟨ok0, ok1, ok2, ok3, oke⟩)
      (by simp)
      (fun sp h => spotPos_place xt yt start sp ok0 (mem_cross.1 h).1 (mem_cross.1 h).2)
      (fun sp h => spotPos_place xt yt end_ sp oke (mem_cross.1 h).1 (mem_cross.1 h).2)
      (by rw [e0]; exact hsrc)
      (by intro sp h; exact hocc _ (by rw [← e0]; exact List.mem_map_of_mem h))
      (by rw [el]; exact hdst)
      (by intro sp h; exact hsite _ (by rw [← el]; exact List.mem_map_of_mem h))
      (by intro sp h; rw [e0]; exact hvac _ (by rw [← el]; exact List.mem_map_of_mem h))
    rw [this, e0, el]

end Shuttle.Props.C08

namespace Shuttle.Props.C08
open Shuttle Shuttle.AOD Shuttle.StdMoves
open Shuttle.Gen.ActionTables (Tag)

/-! ## the Gemini moves: a decidable readiness check per input, lifted to every occupancy by `transport` -/

/-- the occupancy-independent hypotheses of `transport`, as a computation -/
def transportReady (xt yt : List Int) (sx sy : Sel) (g0 gl : Grid) (rest : List Grid) : Bool :=
  match select xt sx, select yt sy with
  | some xs, some ys =>
    decide xs.Nodup && decide ys.Nodup && xs.all (· ∈ xt) && ys.all (· ∈ yt) && (g0 :: rest).all (shapeOK xt yt)
      && ((g0 :: rest).getLast? == some gl)
      && decide ((cross xs ys).map (place xt yt g0)).Nodup && decide ((cross xs ys).map (place xt yt gl)).Nodup
  | _, _ => false

/-- sites under the selected spots of a grid -/
def selectedSites (xt yt : List Int) (sx sy : Sel) (g : Grid) : List Site :=
  match select xt sx, select yt sy with
  | some xs, some ys => (cross xs ys).map (place xt yt g)
  | _, _ => []

/-- `transport` with its occupancy-independent hypotheses discharged by computation -/
theorem transport_of_ready (sites occ : List Site) (xt yt : List Int) (sx sy : Sel) (ton toff : Tag)
    (g0 gl : Grid) (rest : List Grid) (hton : ton.on = true) (htoff : toff.on = false)
    (hready : transportReady xt yt sx sy g0 gl rest = true)
    (hocc : ∀ p ∈ selectedSites xt yt sx sy g0, p ∈ occ)
    (hsite : ∀ p ∈ selectedSites xt yt sx sy gl, p ∈ sites)
    (hvac : ∀ p ∈ selectedSites xt yt sx sy gl, p ∉ (selectedSites xt yt sx sy g0).foldl List.erase occ) :
    playPath sites (State.init occ) ⟨xt, yt, [.way [g0], .sw ton sx sy, .way (g0 :: rest), .sw toff sx sy, .way [gl]]⟩
      = .ok ⟨(selectedSites xt yt sx sy g0).foldl List.erase occ ++ selectedSites xt yt sx sy gl, [], [], []⟩ := by
  unfold transportReady at hready
  unfold selectedSites at hocc hsite hvac ⊢
  cases hx : select xt sx with
  | none => simp [hx] at hready
  | some xs =>
    cases hy : select yt sy with
    | none => simp [hx, hy] at hready
    | some ys =>
      simp only [hx, hy, Bool.and_eq_true, decide_eq_true_eq, List.all_eq_true, beq_iff_eq] at hready hocc hsite hvac ⊢
      obtain ⟨⟨⟨⟨⟨⟨⟨hxn, hyn⟩, hxin⟩, hyin⟩, hshape⟩, hlast⟩, hsrc⟩, hdst⟩ := hready
      have hshape' : (g0 :: rest).all (shapeOK xt yt) = true := List.all_eq_true.2 hshape
      have hs0 : shapeOK xt yt g0 = true := hshape g0 (by simp)
      have hsl : shapeOK xt yt gl = true := hshape gl (List.mem_of_getLast? hlast)
      exact transport sites occ xt yt sx sy xs ys ton toff g0 gl rest (place xt yt g0) (place xt yt gl) hton htoff hx hy
        hxn hyn (fun x h => by simpa using hxin x h) (fun y h => by simpa using hyin y h) hshape' hlast
        (fun sp h => spotPos_place xt yt g0 sp hs0 (by simpa using hxin _ (mem_cross.1 h).1) (by simpa using hyin _ (mem_cross.1 h).2))
        (fun sp h => spotPos_place xt yt gl sp hsl (by simpa using hxin _ (mem_cross.1 h).1) (by simpa using hyin _ (mem_cross.1 h).2))
        hsrc (fun sp h => hocc _ (List.mem_map_of_mem h)) hdst (fun sp h => hsite _ (List.mem_map_of_mem h))
        (fun sp h => hvac _ (List.mem_map_of_mem h))

end Shuttle.Props.C08

namespace Shuttle.Props.C08
open Shuttle Shuttle.AOD Shuttle.StdMoves
open Shuttle.Gen.ActionTables (Tag)

/-- a move's model output is one pick / carry / release path, ready for `transport`, from `src` to `dst` -/
def checkMove (ps : Option (List PathVal)) (src dst : List Site) : Bool :=
  match ps with
  | some [⟨xt, yt, [.way [g0], .sw t1 sx sy, .way (g0' :: rest), .sw t2 sx' sy', .way [gl]]⟩] =>
    g0 == g0' && sx == sx' && sy == sy' && t1.on && !t2.on && transportReady xt yt sx sy g0 gl rest
      && selectedSites xt yt sx sy g0 == src && selectedSites xt yt sx sy gl == dst
  | _ => false

theorem checkMove_sound (sites occ : List Site) (ps : Option (List PathVal)) (src dst : List Site)
    (h : checkMove ps src dst = true)
    (hocc : ∀ p ∈ src, p ∈ occ) (hsite : ∀ p ∈ dst, p ∈ sites) (hvac : ∀ p ∈ dst, p ∉ src.foldl List.erase occ) :
    ∃ ps', ps = some ps' ∧ playAll sites (State.init occ) ps' = .ok ⟨src.foldl List.erase occ ++ dst, [], [], []⟩ := by
  unfold checkMove at h
  split at h
  · rename_i xt yt g0 t1 sx sy g0' rest t2 sx' sy' gl
    simp only [Bool.and_eq_true, beq_iff_eq, Bool.not_eq_true'] at h
    obtain ⟨⟨⟨⟨⟨⟨⟨hg, hsx⟩, hsy⟩, ht1⟩, ht2⟩, hready⟩, hsrc⟩, hdst⟩ := h
    subst hg hsx hsy hsrc hdst
    refine ⟨_, rfl, ?_⟩
    simp only [playAll]
    rw [transport_of_ready sites occ xt yt sx sy t1 t2 g0 gl rest ht1 ht2 hready hocc hsite hvac]
  · cases h

/-- the Gemini constants a move reads from its spec -/
def geminiOf (sp : ArchSpec) : Option Gemini := do
  some ⟨← sp.layout.staticTraps.lookup "GL_blocks", ← sp.layout.staticTraps.lookup "GR_blocks",
        ← sp.intC.lookup "logical_rows", ← sp.intC.lookup "code_size",
        ← sp.floatC.lookup "row_separation", ← sp.floatC.lookup "col_separation", ← sp.floatC.lookup "gate_spacing"⟩

/-- sites of `block[col*code_size : (col+1)*code_size, rows]` -/
def blockSites (G : Gemini) (block : Grid) (col : Int) (rows : List Int) : List Site :=
  match getBlock G block col rows with
  | some g => g.positions
  | none => []

/-- all non-empty sub-lists, in order -/
def subLists {α : Type} : List α → List (List α)
  | [] => []
  | a :: t => [a] :: ((subLists t).map (a :: ·)) ++ subLists t

/-- every documented-valid input of `vertical_shift`: offset ≥ 0, a logical column, ascending rows that stay inside -/
def vshiftInputs (G : Gemini) : List (Int × Int × List Int) :=
  (intRange 0 G.rows).flatMap fun off => [0, 1].flatMap fun col =>
    (subLists (intRange 0 (G.rows - off))).map fun rows => (off, col, rows)

def vshiftAllOK : Bool :=
  match StdLib.geminiLogical.bind geminiOf with
  | some G => (vshiftInputs G).all fun (off, col, rows) =>
      checkMove (verticalShift G off col rows) (blockSites G G.GL col rows) (blockSites G G.GR col (rows.map (· + off)))
  | none => false

def grAllOK : Bool :=
  match StdLib.geminiLogical.bind geminiOf with
  | some G => (subLists (intRange 0 G.rows)).all fun rows =>
      checkMove (grZeroToOne G rows) (blockSites G G.GR 0 rows) (blockSites G G.GR 1 rows)
  | none => false

end Shuttle.Props.C08

namespace Shuttle.Props.C08
open Shuttle Shuttle.AOD Shuttle.StdMoves

/-- 114 inputs, each checked by kernel evaluation -/
theorem vshift_all_ok : vshiftAllOK = true := by decide +kernel

theorem gr_all_ok : grAllOK = true := by decide +kernel

/-- **Gemini `vertical_shift`** on the layout of `logical.get_spec()` (as modelled in Model/StdLib.lean): for every offset ≥ 0,
logical column and ascending list of rows that stay inside the block, and every occupancy in which the source sites
`GL[col, rows]` are occupied and the destination sites `GR[col, rows + offset]` are trap sites that are vacant once the atoms
have been picked up: the move is not rejected, its path is physically executable, and the atoms end exactly on
`GR[col, rows + offset]`; nothing else moves. -/
theorem C08_vertical_shift_destination (G : Gemini) (hG : StdLib.geminiLogical.bind geminiOf = some G)
    (sites occ : List Site) (off col : Int) (rows : List Int) (hin : (off, col, rows) ∈ vshiftInputs G)
    (hocc : ∀ p ∈ blockSites G G.GL col rows, p ∈ occ)
    (hsite : ∀ p ∈ blockSites G G.GR col (rows.map (· + off)), p ∈ sites)
    (hvac : ∀ p ∈ blockSites G G.GR col (rows.map (· + off)), p ∉ (blockSites G G.GL col rows).foldl List.erase occ) :
    ∃ ps, verticalShift G off col rows = some ps ∧
      playAll sites (State.init occ) ps =
        .ok ⟨(blockSites G G.GL col rows).foldl List.erase occ ++ blockSites G G.GR col (rows.map (· + off)), [], [], []⟩ := by
  have h := vshift_all_ok
  unfold vshiftAllOK at h
  rw [hG] at h
  have := List.all_eq_true.1 h (off, col, rows) hin
  exact checkMove_sound sites occ _ _ _ this hocc hsite hvac

/-- **Gemini `gr_zero_to_one`**: for every ascending list of rows and every occupancy in which `GR0[:, rows]` is occupied and
`GR1[:, rows]` are trap sites vacant once the atoms have been picked up, the move is not rejected, its path is physically
executable and the atoms end exactly on `GR1[:, rows]`. -/
theorem C08_gr_zero_to_one_destination (G : Gemini) (hG : StdLib.geminiLogical.bind geminiOf = some G)
    (sites occ : List Site) (rows : List Int) (hin : rows ∈ subLists (intRange 0 G.rows))
    (hocc : ∀ p ∈ blockSites G G.GR 0 rows, p ∈ occ)
    (hsite : ∀ p ∈ blockSites G G.GR 1 rows, p ∈ sites)
    (hvac : ∀ p ∈ blockSites G G.GR 1 rows, p ∉ (blockSites G G.GR 0 rows).foldl List.erase occ) :
    ∃ ps, grZeroToOne G rows = some ps ∧
      playAll sites (State.init occ) ps =
        .ok ⟨(blockSites G G.GR 0 rows).foldl List.erase occ ++ blockSites G G.GR 1 rows, [], [], []⟩ := by
  have h := gr_all_ok
  unfold grAllOK at h
  rw [hG] at h
  have := List.all_eq_true.1 h rows hin
  exact checkMove_sound sites occ _ _ _ this hocc hsite hvac

/-- the Gemini hypotheses are satisfiable: the modelled spec yields the constants -/
example : (StdLib.geminiLogical.bind geminiOf).isSome = true := by decide +kernel

end Shuttle.Props.C08

namespace Shuttle.Props.C08
open Shuttle Shuttle.AOD Shuttle.StdMoves

/-! ## the enumerations of the Gemini theorems are exactly the documented preconditions -/

theorem sublist_mem_subLists {α : Type} : ∀ {l L : List α}, l.Sublist L → l ≠ [] → l ∈ subLists L := by
  intro l L h
  induction h with
  | slnil => intro h; exact absurd rfl h
  | cons a _ ih =>
    intro hne
    exact List.mem_cons_of_mem _ (List.mem_append_right _ (ih hne))
  | @cons_cons l' L' a h ih =>
    intro _
    by_cases he : l' = []
    · subst he; exact List.mem_cons_self
    · exact List.mem_cons_of_mem _ (List.mem_append_left _ (List.mem_map_of_mem (ih he)))

theorem sortedStrict_tail {a : Int} {t : List Int} (h : sortedStrict (a :: t) = true) :
    sortedStrict t = true ∧ ∀ r ∈ t, a < r := by
  induction t generalizing a with
  | nil => simp [sortedStrict]
  | cons b u ih =>
    simp only [sortedStrict, Bool.and_eq_true, decide_eq_true_eq] at h
    obtain ⟨hab, hs⟩ := h
    refine ⟨hs, ?_⟩
    intro r hr
    rcases List.mem_cons.1 hr with rfl | hr
    · exact hab
    · exact Int.lt_trans hab ((ih hs).2 r hr)

theorem intRange_succ (a b : Int) (h : a < b) : intRange a b = a :: intRange (a + 1) b := by
  unfold intRange
  have : (b - a).toNat = (b - (a + 1)).toNat + 1 := by omega
  rw [this, List.range_succ_eq_map]
  simp only [List.map_cons, List.map_map]
  congr 1
  · simp
  · apply List.map_congr_left
    intro i _
    simp only [Function.comp_apply]
    push_cast
    omega

theorem sorted_sublist_intRange : ∀ (m : Nat) (a b : Int) (rows : List Int), (b - a).toNat = m →
    sortedStrict rows = true → (∀ r ∈ rows, a ≤ r ∧ r < b) → rows.Sublist (intRange a b) := by
  intro m
  induction m with
  | zero =>
    intro a b rows hm _ hr
    cases rows with
    | nil => exact List.nil_sublist _
    | cons r t => have := hr r (by simp); omega
  | succ m ih =>
    intro a b rows hm hs hr
    cases rows with
    | nil => exact List.nil_sublist _
    | cons r t =>
      have hab : a < b := by omega
      rw [intRange_succ a b hab]
      have hra := hr r (by simp)
      obtain ⟨hst, hgt⟩ := sortedStrict_tail hs
      by_cases e : r = a
      · subst e
        apply List.Sublist.cons_cons
        exact ih (r + 1) b t (by omega) hst (by
          intro x hx
          have := hgt x hx
          have := hr x (by simp [hx])
          omega)
      · apply List.Sublist.cons
        exact ih (a + 1) b (r :: t) (by omega) hs (by
          intro x hx
          rcases List.mem_cons.1 hx with rfl | hx'
          · omega
          · have := hgt x hx'
            have := hr x hx
            omega)

/-- the enumeration used in the Gemini theorems is exactly "non-empty, strictly ascending, inside the block" -/
theorem mem_subLists_intRange (n : Int) (rows : List Int) (hne : rows ≠ []) (hs : sortedStrict rows = true)
    (hr : ∀ r ∈ rows, 0 ≤ r ∧ r < n) : rows ∈ subLists (intRange 0 n) :=
  sublist_mem_subLists (sorted_sublist_intRange _ 0 n rows rfl hs hr) hne


/-- `vertical_shift`'s documented preconditions, as predicates, put an input in the enumerated domain -/
theorem mem_vshiftInputs (G : Gemini) (off col : Int) (rows : List Int)
    (hoff : 0 ≤ off ∧ off < G.rows) (hcol : col = 0 ∨ col = 1) (hne : rows ≠ []) (hs : sortedStrict rows = true)
    (hr : ∀ r ∈ rows, 0 ≤ r ∧ r + off < G.rows) : (off, col, rows) ∈ vshiftInputs G := by
  unfold vshiftInputs
  simp only [List.mem_flatMap, List.mem_map, Prod.mk.injEq]
  refine ⟨off, ?_, col, ?_, rows, ?_, rfl, rfl, rfl⟩
  · unfold intRange
    simp only [List.mem_map, List.mem_range]
    exact ⟨off.toNat, by omega, by omega⟩
  · rcases hcol with rfl | rfl <;> simp
  · exact mem_subLists_intRange (G.rows - off) rows hne hs (by intro r h; have := hr r h; omega)

/-- `vertical_shift` under its documented preconditions stated as predicates (offset ≥ 0, a logical column, rows strictly
ascending and staying inside the block) -/
theorem C08_vertical_shift_documented (G : Gemini) (hG : StdLib.geminiLogical.bind geminiOf = some G)
    (sites occ : List Site) (off col : Int) (rows : List Int)
    (hoff : 0 ≤ off ∧ off < G.rows) (hcol : col = 0 ∨ col = 1) (hne : rows ≠ []) (hs : sortedStrict rows = true)
    (hr : ∀ r ∈ rows, 0 ≤ r ∧ r + off < G.rows)
    (hocc : ∀ p ∈ blockSites G G.GL col rows, p ∈ occ)
    (hsite : ∀ p ∈ blockSites G G.GR col (rows.map (· + off)), p ∈ sites)
    (hvac : ∀ p ∈ blockSites G G.GR col (rows.map (· + off)), p ∉ (blockSites G G.GL col rows).foldl List.erase occ) :
    ∃ ps, verticalShift G off col rows = some ps ∧
      playAll sites (State.init occ) ps =
        .ok ⟨(blockSites G G.GL col rows).foldl List.erase occ ++ blockSites G G.GR col (rows.map (· + off)), [], [], []⟩ :=
  C08_vertical_shift_destination G hG sites occ off col rows (mem_vshiftInputs G off col rows hoff hcol hne hs hr) hocc hsite hvac

/-- `gr_zero_to_one` for every non-empty strictly ascending list of rows inside the block -/
theorem C08_gr_zero_to_one_documented (G : Gemini) (hG : StdLib.geminiLogical.bind geminiOf = some G)
    (sites occ : List Site) (rows : List Int) (hne : rows ≠ []) (hs : sortedStrict rows = true)
    (hr : ∀ r ∈ rows, 0 ≤ r ∧ r < G.rows)
    (hocc : ∀ p ∈ blockSites G G.GR 0 rows, p ∈ occ)
    (hsite : ∀ p ∈ blockSites G G.GR 1 rows, p ∈ sites)
    (hvac : ∀ p ∈ blockSites G G.GR 1 rows, p ∉ (blockSites G G.GR 0 rows).foldl List.erase occ) :
    ∃ ps, grZeroToOne G rows = some ps ∧
      playAll sites (State.init occ) ps =
        .ok ⟨(blockSites G G.GR 0 rows).foldl List.erase occ ++ blockSites G G.GR 1 rows, [], [], []⟩ :=
  C08_gr_zero_to_one_destination G hG sites occ rows (mem_subLists_intRange G.rows rows hne hs hr) hocc hsite hvac

end Shuttle.Props.C08
