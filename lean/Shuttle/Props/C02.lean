import Shuttle.Lemmas.Reverse
import Shuttle.Lemmas.Opaque
/-!
# C02 — reversal is exact time reversal and an involution

`reversePath` is the model of `reverse_path`, driven by the `inv` table regenerated from
the eight `inv` methods; `flipPath` is the specification (reverse the list, reverse each
segment, flip on/off keeping tones and slice/list form).
-/
namespace Shuttle.Props.C02
open Shuttle
open Shuttle.Gen.ActionTables (Tag)

/-- the regenerated tables say what the property demands of `inv` -/
theorem C02_inv_table :
    (∀ t : Tag, Gen.ActionTables.inv.lookup t =
      some (⟨!t.on, t.xsl, t.ysl⟩, true, true, false, false)) ∧
    Gen.ActionTables.wayInvReverses = true ∧ Gen.ActionTables.reversePathShape = true :=
  inv_table_ok

/-- `reverse_path` never fails and equals the specification -/
theorem C02_reverse_eq_spec (p : Path) : reversePath p = some (flipPath p) :=
  reversePath_eq_flip p

/-- reversing twice gives back the original path -/
theorem C02_reverse_involutive (p : Path) : (reversePath p).bind reversePath = some p := by
  simp [reversePath_eq_flip, flipPath_involutive]

/-- all way points of a path, in visiting order -/
def waypoints (p : Path) : List Grid :=
  p.flatMap fun | .way ws => ws | .sw .. => []

/-- all switches of a path, in order: (on, xSlice, ySlice, x tones, y tones) -/
def switches (p : Path) : List (Tag × Sel × Sel) :=
  p.filterMap fun | .way _ => none | .sw t x y => some (t, x, y)

/-- the reversed path visits the same way points in the opposite order -/
theorem C02_reverse_waypoints (p : Path) : waypoints (flipPath p) = (waypoints p).reverse := by
  unfold waypoints flipPath
  induction p with
  | nil => rfl
  | cons a t ih =>
    simp only [List.reverse_cons, List.map_append, List.flatMap_append, ih, List.map_cons,
      List.map_nil, List.flatMap_cons, List.flatMap_nil, List.append_nil, List.reverse_append]
    cases a <;> simp [Action.flip]

/-- every switch becomes the switch of the opposite kind, same tones, same slice/list
form, and the switches come in the opposite order -/
theorem C02_reverse_switches (p : Path) :
    switches (flipPath p) =
      ((switches p).reverse).map fun (t, x, y) => (⟨!t.on, t.xsl, t.ysl⟩, x, y) := by
  unfold switches flipPath
  induction p with
  | nil => rfl
  | cons a t ih =>
    simp only [List.reverse_cons, List.map_append, List.filterMap_append, ih, List.map_cons,
      List.map_nil, List.filterMap_cons, List.filterMap_nil]
    cases a <;> simp [Action.flip]

/-! ### schedule level -/

/-- `reverse(reverse(f))` is `f` -/
theorem C02_task_reverse_involutive {F} (t : DevTask F) : t.reverse.reverse = t := by
  cases t <;> rfl

/-- `f` and `reverse(f)` called with the same arguments yield mutually reversed paths
(whenever the kernel produces a path at all; both fail otherwise) -/
theorem C02_gen_reverse {F A} (trace : F → A → Option Path) (t : DevTask F) (a : A) :
    genPath trace t.reverse a = (genPath trace t a).map flipPath := by
  cases t with
  | fwd f =>
    simp only [DevTask.reverse, genPath]
    cases trace f a <;> simp [reversePath_eq_flip]
  | rev f =>
    simp only [DevTask.reverse, genPath]
    cases trace f a <;> simp [reversePath_eq_flip, flipPath_involutive]

/-- `reverse(reverse(f))` behaves as `f` -/
theorem C02_gen_reverse_reverse {F A} (trace : F → A → Option Path) (t : DevTask F) (a : A) :
    genPath trace t.reverse.reverse a = genPath trace t a := by
  rw [C02_task_reverse_involutive]

/-- reversal does not look at positions at all: renaming the positions of a path (by any map) and
reversing commute.  With `C11_trace_positions_opaque` this extends the reversal laws to paths whose
positions are filled grids, which the harness sends as position tokens. -/
theorem C02_reverse_positions_opaque (φ : Grid → Grid) (p : Path) :
    reversePath (Path.mapPos φ p) = (reversePath p).map (Path.mapPos φ) := by
  rw [reversePath_eq_flip, reversePath_eq_flip]
  simp only [Option.map_some, Option.some.injEq, flipPath, Path.mapPos, List.map_reverse, List.map_map]
  congr 1
  apply List.map_congr_left
  intro a _
  cases a <;> simp [Action.flip, Action.mapPos, List.map_reverse]

/-- non-vacuity -/
example :
    let g : Grid := ⟨[1], [], some 0, some 0⟩
    let h : Grid := ⟨[1], [], some 5, some 0⟩
    reversePath [.way [g, h], .sw ⟨true, true, false⟩ (.slice ⟨none, none, none⟩) (.list [0]), .way [h]]
      = some [.way [h], .sw ⟨false, true, false⟩ (.slice ⟨none, none, none⟩) (.list [0]), .way [h, g]] := by
  decide

end Shuttle.Props.C02
