import Shuttle.Model.Filled
/-!
# C12 — a filled grid is its grid minus its vacancies, under all operations

Index-level statements: what each operation does to the vacancy *set* and to the
underlying grid, for grids of any size and index lists of any length; `positions` is
characterised as "sites of the underlying grid whose index pair is not vacant".
-/
namespace Shuttle.Props.C12
open Shuttle Filled

/-! ### denotation -/

theorem mem_zipIdx_iff {α} (l : List α) (a : α) (i : Nat) :
    (a, i) ∈ l.zipIdx ↔ l[i]? = some a := by
  simp [List.mem_zipIdx_iff_getElem?]

/-- `positions` = sites of the underlying grid at non-vacant index pairs -/
theorem C12_positions (f : Filled) (x y : Rat) :
    (x, y) ∈ f.positions ↔
      ∃ i j : Nat, f.parent.val.xPositions[i]? = some x ∧ f.parent.val.yPositions[j]? = some y ∧
        ((i : Int), (j : Int)) ∉ f.vac := by
  unfold positions
  simp only [List.mem_flatMap, List.mem_filterMap, Prod.exists]
  constructor
  · rintro ⟨x', i, hx, y', j, hy, h⟩
    by_cases hv : ((i : Int), (j : Int)) ∈ f.vac
    · simp [hv] at h
    · simp [hv] at h
      obtain ⟨rfl, rfl⟩ := h
      exact ⟨i, j, (mem_zipIdx_iff _ _ _).1 hx, (mem_zipIdx_iff _ _ _).1 hy, hv⟩
  · rintro ⟨i, j, hx, hy, hv⟩
    exact ⟨x, i, (mem_zipIdx_iff _ _ _).2 hx, y, j, (mem_zipIdx_iff _ _ _).2 hy, by simp [hv]⟩

/-! ### vacate / fill are cumulative and keep the underlying grid -/

theorem C12_vacate_grid (g : GridV) (l : List Idx) (p : Idx) :
    p ∈ (vacate (.grid g) l).vac ↔ p ∈ l := by simp [vacate]

theorem C12_vacate_filled (f : Filled) (l : List Idx) (p : Idx) :
    p ∈ (vacate (.filled f) l).vac ↔ p ∈ f.vac ∨ p ∈ l := by simp [vacate]

theorem C12_fill_filled (f : Filled) (l : List Idx) (p : Idx) :
    p ∈ (fill (.filled f) l).vac ↔ p ∈ f.vac ∧ p ∉ l := by simp [fill]

theorem mem_allIdx (nx ny : Nat) (p : Idx) :
    p ∈ allIdx nx ny ↔ 0 ≤ p.1 ∧ p.1 < nx ∧ 0 ≤ p.2 ∧ p.2 < ny := by
  obtain ⟨a, b⟩ := p
  simp only [allIdx, List.mem_flatMap, List.mem_range, List.mem_map, Prod.mk.injEq]
  constructor
  · rintro ⟨i, hi, j, hj, rfl, rfl⟩; omega
  · rintro ⟨h1, h2, h3, h4⟩
    exact ⟨a.toNat, by omega, b.toNat, by omega, by omega, by omega⟩

/-- filling a plain grid: everything inside the shape is vacant except the filled sites -/
theorem C12_fill_grid (g : GridV) (l : List Idx) (p : Idx) :
    p ∈ (fill (.grid g) l).vac ↔
      (0 ≤ p.1 ∧ p.1 < g.val.numX ∧ 0 ≤ p.2 ∧ p.2 < g.val.numY) ∧ p ∉ l := by
  simp [fill, mem_allIdx]

/-- the underlying grid is never a filled grid and is kept by fill / vacate -/
theorem C12_underlying_kept (f : Filled) (l : List Idx) :
    (vacate (.filled f) l).parent = f.parent ∧ (fill (.filled f) l).parent = f.parent ∧
    ∀ g, (vacate (.grid g) l).parent = g ∧ (fill (.grid g) l).parent = g := by
  simp [vacate, fill]

/-! ### views re-index, repeat tiles, shift/scale keep the pattern -/

theorem mem_positionsOf (l : List Int) (v : Int) (i : Int) :
    i ∈ positionsOf l v ↔ ∃ n : Nat, i = n ∧ l[n]? = some v := by
  simp only [positionsOf, List.mem_map, List.mem_filter, beq_iff_eq, Prod.exists]
  constructor
  · rintro ⟨a, n, ⟨hm, ha⟩, rfl⟩
    subst ha
    exact ⟨n, rfl, (mem_zipIdx_iff _ _ _).1 hm⟩
  · rintro ⟨n, rfl, h⟩
    exact ⟨v, n, ⟨(mem_zipIdx_iff _ _ _).2 h, rfl⟩, rfl⟩

/-- a view's vacancy at position `(i, j)` ⇔ the parent's vacancy at `(xi[i], yi[j])`:
the pattern is re-indexed through the index lists — also for repeated or unsorted ones -/
theorem C12_view_vacancies (vac : List Idx) (xi yi : List Int) (i j : Nat) :
    ((i : Int), (j : Int)) ∈ viewVac vac xi yi ↔
      ∃ x y, xi[i]? = some x ∧ yi[j]? = some y ∧ (x, y) ∈ vac := by
  simp only [viewVac, List.mem_flatMap, List.mem_map, Prod.exists, Prod.mk.injEq, mem_positionsOf]
  constructor
  · rintro ⟨x, y, hv, a, ⟨n, rfl, hn⟩, b, ⟨m, rfl, hm⟩, h1, h2⟩
    have : n = i := by omega
    have : m = j := by omega
    subst_vars
    exact ⟨x, y, hn, hm, hv⟩
  · rintro ⟨x, y, hx, hy, hv⟩
    exact ⟨x, y, hv, i, ⟨i, rfl, hx⟩, j, ⟨j, rfl, hy⟩, rfl, rfl⟩

theorem C12_view (f g : Filled) (xi yi : List Int) (h : f.getView xi yi = some g) :
    f.parent.getView xi yi = some g.parent ∧ g.vac = viewVac f.vac xi yi := by
  unfold getView at h
  cases hp : f.parent.getView xi yi with
  | none => simp [hp] at h
  | some p => simp [hp] at h; subst h; simp

/-- repeat tiles the (in-shape) vacancy pattern with period = the shape of the underlying grid -/
theorem C12_repeat_vacancies (vac : List Idx) (nx ny xt yt : Nat) (p : Idx) :
    p ∈ tileVac vac nx ny xt yt ↔
      ∃ i j : Nat, i < xt ∧ j < yt ∧ ∃ x y, (x, y) ∈ vac ∧ inShape nx ny (x, y) = true ∧
        p = (x + (nx : Int) * i, y + (ny : Int) * j) := by
  simp only [tileVac, List.mem_flatMap, List.mem_range, List.mem_map, List.mem_filter, Prod.exists]
  constructor
  · rintro ⟨i, hi, j, hj, x, y, ⟨hv, hs⟩, rfl⟩
    exact ⟨i, j, hi, hj, x, y, hv, hs, rfl⟩
  · rintro ⟨i, j, hi, hj, x, y, hv, hs, rfl⟩
    exact ⟨i, hi, j, hj, x, y, ⟨hv, hs⟩, rfl⟩

/-- in index terms: site `(a, b)` of the repeated grid (inside `xt × yt` tiles) is vacant
iff site `(a mod nx, b mod ny)` of the original is -/
theorem C12_repeat_mod (vac : List Idx) (nx ny xt yt : Nat) (a b : Nat)
    (ha : a < nx * xt) (hb : b < ny * yt) :
    ((a : Int), (b : Int)) ∈ tileVac vac nx ny xt yt ↔
      (((a % nx : Nat) : Int), ((b % ny : Nat) : Int)) ∈ vac := by
  have hnx : 0 < nx := by rcases Nat.eq_zero_or_pos nx with h | h; · simp [h] at ha
                          · exact h
  have hny : 0 < ny := by rcases Nat.eq_zero_or_pos ny with h | h; · simp [h] at hb
                          · exact h
  rw [C12_repeat_vacancies]
  constructor
  · rintro ⟨i, j, hi, hj, x, y, hv, hs, he⟩
    simp only [inShape, Bool.and_eq_true, decide_eq_true_eq] at hs
    simp only [Prod.mk.injEq] at he
    obtain ⟨⟨⟨h1, h2⟩, h3⟩, h4⟩ := hs
    have hx : x = ((a % nx : Nat) : Int) := by
      have : a = x.toNat + nx * i := by omega
      have h5 : a % nx = x.toNat := by rw [this, Nat.add_mul_mod_self_left]; exact Nat.mod_eq_of_lt (by omega)
      omega
    have hy : y = ((b % ny : Nat) : Int) := by
      have : b = y.toNat + ny * j := by omega
      have h5 : b % ny = y.toNat := by rw [this, Nat.add_mul_mod_self_left]; exact Nat.mod_eq_of_lt (by omega)
      omega
    rw [← hx, ← hy]; exact hv
  · intro hv
    refine ⟨a / nx, b / ny, ?_, ?_, ((a % nx : Nat) : Int), ((b % ny : Nat) : Int), hv, ?_, ?_⟩
    · exact (Nat.div_lt_iff_lt_mul hnx).2 (by rw [Nat.mul_comm]; exact ha)
    · exact (Nat.div_lt_iff_lt_mul hny).2 (by rw [Nat.mul_comm]; exact hb)
    · have := Nat.mod_lt a hnx; have := Nat.mod_lt b hny
      simp only [inShape, Bool.and_eq_true, decide_eq_true_eq]; omega
    · have h1 := Nat.mod_add_div a nx; have h2 := Nat.mod_add_div b ny
      simp only [Prod.mk.injEq]
      constructor
      · exact_mod_cast h1.symm
      · exact_mod_cast h2.symm

theorem C12_repeat (f g : Filled) (xt yt : Int) (xg yg : Rat) (h : f.repeat_ xt yt xg yg = some g) :
    f.parent.repeat_ xt yt xg yg = some g.parent ∧
    g.vac = tileVac f.vac f.parent.val.numX f.parent.val.numY xt.toNat yt.toNat := by
  unfold repeat_ at h
  cases hp : f.parent.repeat_ xt yt xg yg with
  | none => simp [hp] at h
  | some p => simp [hp] at h; subst h; simp

/-- shift and scale transform the underlying grid and leave the vacancy set alone -/
theorem C12_shift_scale (f : Filled) (a b : Rat) :
    (f.shift a b).vac = f.vac ∧ (f.shift a b).parent = f.parent.shift a b ∧
    (f.scale a b).vac = f.vac ∧ (f.scale a b).parent = f.parent.scale a b := by
  simp [shift, scale]

/-! ### equality and hashing -/

theorem C12_eq_iff (a b : Filled) :
    a.eq b = true ↔ a.parent.val = b.parent.val ∧ ∀ p, p ∈ a.vac ↔ p ∈ b.vac := by
  simp only [Filled.eq, Bool.and_eq_true, beq_iff_eq, List.all_eq_true, decide_eq_true_eq]
  constructor
  · rintro ⟨⟨h1, h2⟩, h3⟩; exact ⟨h1, fun p => ⟨h2 p, h3 p⟩⟩
  · rintro ⟨h1, h2⟩; exact ⟨⟨h1, fun p hp => (h2 p).1 hp⟩, fun p hp => (h2 p).2 hp⟩

/-- equal filled grids hash equally -/
theorem C12_eq_hash (a b : Filled) (h : a.eq b = true) : a.hashKey = b.hashKey := by
  obtain ⟨h1, h2⟩ := (C12_eq_iff a b).1 h
  simp only [hashKey, h1, Prod.mk.injEq, true_and]
  funext p
  simp [h2 p]

theorem C12_eq_equiv :
    (∀ a : Filled, a.eq a = true) ∧ (∀ a b : Filled, a.eq b = true → b.eq a = true) ∧
    (∀ a b c : Filled, a.eq b = true → b.eq c = true → a.eq c = true) := by
  refine ⟨fun a => (C12_eq_iff a a).2 ⟨rfl, fun _ => Iff.rfl⟩, ?_, ?_⟩
  · intro a b h
    obtain ⟨h1, h2⟩ := (C12_eq_iff a b).1 h
    exact (C12_eq_iff b a).2 ⟨h1.symm, fun p => (h2 p).symm⟩
  · intro a b c h h'
    obtain ⟨h1, h2⟩ := (C12_eq_iff a b).1 h
    obtain ⟨h3, h4⟩ := (C12_eq_iff b c).1 h'
    exact (C12_eq_iff a c).2 ⟨h1.trans h3, fun p => (h2 p).trans (h4 p)⟩

/-- vacating in two steps equals vacating at once (the F11 witness, now a theorem) -/
theorem C12_vacate_vacate (g : GridV) (l₁ l₂ : List Idx) :
    (vacate (.filled (vacate (.grid g) l₁)) l₂).eq (vacate (.grid g) (l₁ ++ l₂)) = true := by
  rw [C12_eq_iff]; simp [vacate]

/-- non-vacuity: a view with a repeated index shows the vacancy in both copies (F17) -/
example :
    let f := vacate (.grid (.plain (Grid.fromPositions [0, 1] [0]))) [(0, 0)]
    (f.getView [0, 0] [0]).map (·.positions) = some [] ∧
    (f.getView [0, 1] [0]).map (·.positions) = some [((1 : Rat), (0 : Rat))] := by decide +kernel

end Shuttle.Props.C12
