import Shuttle.Model.AOD
import Shuttle.Model.Tracer
import Shuttle.Model.Reverse
/-!
# Models of the library moves (stdlib/waypoints.py, layouts/single_col_zone.py, moves.py,
layouts/two_col_zone.py, layouts/gemini/logical.py)

Each traced kernel is written as the sequence of AOD operations it performs on its
arguments (`none` = the kernel raises: a failed assert, an index error); the path is the
reference trace of those operations (`refPath`, proved equal to the tracer in C01), and a
reversed device function plays `reversePath` of it (C02).  The move-level wrappers add the
tone lists and the early returns.  Every function here is compared with the real move's
event log on every run (harness/props/c08.py).
-/
namespace Shuttle.StdMoves
open Shuttle

def ALL : Sel := .slice ⟨none, none, none⟩

/-- `ilist.range(n)` -/
def tonesOf (n : Nat) : List Int := (List.range n).map Int.ofNat

/-- `assert_sorted` -/
def sortedStrict : List Int → Bool
  | a :: b :: t => a < b && sortedStrict (b :: t)
  | _ => true

/-- a device-function call: trace the operations, attach the tones -/
def devCall (xt yt : List Int) (ops : Option (List Op)) : Option PathVal := do
  let p ← refPath (← ops)
  some ⟨xt, yt, p⟩

def devCallRev (xt yt : List Int) (ops : Option (List Op)) : Option PathVal := do
  let p ← refPath (← ops)
  some ⟨xt, yt, ← reversePath p⟩

/-! ## stdlib/waypoints.py -/

def waypointsOps (wps : List Grid) (pick drop : Bool) : Option (List Op) :=
  match wps with
  | [] => none
  | w0 :: rest =>
    some ([.setLoc w0] ++ (if pick then [.turn true ALL ALL] else []) ++ rest.map .move
          ++ (if drop then [.turn false ALL ALL] else []))

def moveByWaypoints (wps : List Grid) (pick drop : Bool) : Option (List PathVal) :=
  match wps with
  | [] => some []
  | w0 :: _ => do
    let p ← devCall (tonesOf w0.numX) (tonesOf w0.numY) (waypointsOps wps pick drop)
    some [p]

/-! ## single-zone CZ move -/

def czOps (zone : Grid) (cx cy qx qy : List Int) (dx dy : Rat) : Option (List Op) :=
  if cx.length ≠ qx.length ∨ cy.length ≠ qy.length then none else
  if !(sortedStrict cx && sortedStrict cy && sortedStrict qx && sortedStrict qy) then none else do
  let start ← zone.subGrid cx cy
  let target ← zone.subGrid qx qy
  let end_ := target.shift dx dy
  let first := start.shift dx dy
  let second := Grid.fromPositions end_.xPositions first.yPositions
  some [.setLoc start, .turn true ALL ALL, .move first, .move second, .move end_]

/-- `default_move_cz_impl`: forward kernel, (gate), reversed kernel on the same arguments -/
def czMove (zone : Grid) (cx cy qx qy : List Int) (dx dy : Rat) : Option (List PathVal) :=
  if cx.length < 1 ∨ qx.length < 1 then some [] else do
  let xt := tonesOf cx.length
  let yt := tonesOf cy.length
  let f ← devCall xt yt (czOps zone cx cy qx qy dx dy)
  let b ← devCallRev xt yt (czOps zone cx cy qx qy dx dy)
  some [f, b]

/-! ## two-column rearrange -/

def parkingX (zone : Grid) (i : Int) : Option Rat :=
  (pyIndex zone.xPositions i).map fun x => x + 3 * (2 * ((i % 2 : Int) : Rat) - 1)

def parkingYStart (sy ey : Rat) : Rat := if sy ≤ ey then sy + 3 else sy - 3
def parkingYEnd (sy ey : Rat) : Rat := if sy < ey then ey - 3 else ey + 3

/-- `ilist.map(f, ilist.range(n))` for the two parking-row functions -/
def parkingYs (f : Rat → Rat → Rat) (ys ye : List Rat) (n : Nat) : Option (List Rat) :=
  (List.range n).mapM fun i => (ys[i]?).bind fun a => (ye[i]?).bind fun b => some (f a b)

def rearrangeOps (zone : Grid) (sx sy dx dy : List Int) : Option (List Op) :=
  if sx.length ≠ dx.length ∨ sy.length ≠ dy.length then none else
  if !(sortedStrict sx && sortedStrict sy && sortedStrict dx && sortedStrict dy) then none else do
  let start ← zone.subGrid sx sy
  let end_ ← zone.subGrid dx dy
  let ys := start.yPositions
  let ye := end_.yPositions
  let srcPx ← sx.mapM (parkingX zone)
  let dstPx ← dx.mapM (parkingX zone)
  let srcPy ← parkingYs parkingYStart ys ye sy.length
  let dstPy ← parkingYs parkingYEnd ys ye sy.length
  let srcParking := Grid.fromPositions srcPx srcPy
  let dstParking := Grid.fromPositions dstPx dstPy
  let mid := Grid.fromPositions srcParking.xPositions dstParking.yPositions
  some [.setLoc start, .turn true ALL ALL, .move srcParking, .move mid, .move dstParking, .move end_,
        .turn false ALL ALL]

def rearrange (zone : Grid) (sx sy dx dy : List Int) : Option (List PathVal) :=
  if sx.length < 1 ∨ dx.length < 1 then some [] else do
  let p ← devCall (tonesOf sx.length) (tonesOf sy.length) (rearrangeOps zone sx sy dx dy)
  some [p]

/-! ## Gemini logical layout -/

structure Gemini where
  GL : Grid
  GR : Grid
  rows : Int           -- logical_rows
  codeSize : Int
  rowSep : Rat
  colSep : Rat
  gateSp : Rat

/-- `move_by_shift` -/
def moveByShiftOps (start : Grid) (shifts : List (Rat × Rat)) (ax ay : List Int) : List Op :=
  let step := fun (acc : Grid × List Op) (s : Rat × Rat) =>
    let g := acc.1.shift s.1 s.2
    (g, acc.2 ++ [Op.move g])
  [.setLoc start, .turn true (.list ax) (.list ay)] ++ (shifts.foldl step (start, [])).2
    ++ [.turn false (.list ax) (.list ay)]

/-- `range(a, b)` -/
def intRange (a b : Int) : List Int := (List.range (b - a).toNat).map fun (i : Nat) => a + (i : Int)

/-- `get_block(block, col, rows)` = `block[col*cs : (col+1)*cs, rows]` -/
def getBlock (G : Gemini) (block : Grid) (col : Int) (rows : List Int) : Option Grid :=
  block.getItem (.slice ⟨some (col * G.codeSize), some ((col + 1) * G.codeSize), none⟩) (.list rows)

def calcVerticalShifts (G : Gemini) (offset : Int) : List (Rat × Rat) :=
  let sign : Rat := if offset < 0 then -1 else 1
  let off : Int := if offset < 0 then -offset else offset
  let shifts : List (Rat × Rat) :=
    if off > 1 then [(0, G.rowSep * (1/2)), (G.gateSp + G.colSep * (1/2), 0), (0, G.rowSep * ((off : Rat) - 1/2)),
                     (-G.colSep * (1/2), 0)]
    else if off = 1 then [(0, G.rowSep * (1/2)), (G.gateSp, 0), (0, G.rowSep * (1/2))]
    else [(G.gateSp, 0)]
  shifts.map fun s => (s.1, sign * s.2)

def verticalShiftOps (G : Gemini) (offset col : Int) (rows : List Int) : Option (List Op) :=
  if !(rows.all fun r => r + offset < G.rows && r + offset ≥ 0) then none else
  if !(sortedStrict rows) then none else do
  let rowStart : Int := if offset > 0 then 0 else -offset
  let rowEnd : Int := if offset > 0 then G.rows - offset else G.rows
  let start ← getBlock G G.GL col (intRange rowStart rowEnd)
  let allCols := tonesOf start.numX
  some (moveByShiftOps start (calcVerticalShifts G offset) allCols (rows.map (· - rowStart)))

def verticalShift (G : Gemini) (offset col : Int) (rows : List Int) : Option (List PathVal) := do
  let numRows : Int := if offset > 0 then G.rows - offset else G.rows + offset
  let p ← devCall (tonesOf G.codeSize.toNat) (tonesOf numRows.toNat) (verticalShiftOps G offset col rows)
  some [p]

def grZeroToOneOps (G : Gemini) (rows : List Int) : Option (List Op) :=
  if !(rows.all fun r => r < G.rows && r ≥ 0) then none else do
  let shift := (G.gateSp + G.colSep) * (G.codeSize : Rat)
  let shifts := [(0, G.rowSep * (1/2)), (shift, 0), (0, -G.rowSep * (1/2))]
  let start ← getBlock G G.GR 0 (intRange 0 G.rows)
  some (moveByShiftOps start shifts (tonesOf start.numX) rows)

def grZeroToOne (G : Gemini) (rows : List Int) : Option (List PathVal) := do
  let p ← devCall (tonesOf G.codeSize.toNat) (tonesOf G.rows.toNat) (grZeroToOneOps G rows)
  some [p]

end Shuttle.StdMoves
