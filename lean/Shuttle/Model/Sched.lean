/-!
# Schedule → path lowering (`rewrite/schedule2path.py`, `passes/schedule2path.py`)

Source statements of a move kernel as far as the lowering is concerned, the lowered form,
the specification `lowerSpec` (what the property says, as one recursive definition) and
`passModel` (the rules in the order the pass applies them: canonicalise nested regions,
rewrite calls, rewrite regions — each a post-order walk).
-/
namespace Shuttle.Sched

inductive Kind where
  | parallel | auto
deriving DecidableEq, Repr, Inhabited

/-- source statement -/
inductive Src where
  | call (id : Nat)                  -- device-function call; `id` stands for callee, arguments and keyword names
  | invoke (id : Nat)                -- direct invocation of a tweezer kernel (only meaningful inside `auto`)
  | region (k : Kind) (body : List Src)
  | other (tag : Nat)                -- any other statement (gate, fill, assignment, …)
  | ctrl (tag : Nat) (bodies : List (List Src))    -- if / for with its bodies
deriving Repr, Inhabited

/-- a path-valued expression of the lowered program -/
inductive PathE where
  | gen (id : Nat) (viaTask : Bool)          -- path.Gen of call `id` (through a NewTweezerTask for invokes)
  | group (k : Kind) (members : List PathE)  -- path.Parallel / path.Auto
deriving Repr, Inhabited

/-- lowered statement -/
inductive Out where
  | play (p : PathE)
  | other (tag : Nat)
  | ctrl (tag : Nat) (bodies : List (List Out))
  | leftover (what : String)                 -- something the pass should have removed / could not handle
deriving Repr, Inhabited

/-! ## specification -/

mutual
/-- the members of a block of kind `k`, in source order; directly nested blocks of the same
kind are merged in place, other blocks become one nested group -/
def members (k : Kind) : List Src → List PathE
  | [] => []
  | s :: ss => memberOf k s ++ members k ss
def memberOf (k : Kind) : Src → List PathE
  | .call id => [.gen id (k == .auto)]   -- directly inside `auto` every callee goes through a NewTweezerTask
  | .invoke id => [.gen id true]
  | .region k' body => if k' = k then members k body else [.group k' (members k' body)]
  | .other _ => []
  | .ctrl _ _ => []
end

mutual
def lowerSpec : List Src → List Out
  | [] => []
  | s :: ss => lowerStmt s ++ lowerSpec ss
def lowerStmt : Src → List Out
  | .call id => [.play (.gen id false)]
  | .invoke _ => [.leftover "invoke outside auto"]
  | .region k body => [.play (.group k (members k body))]
  | .other t => [.other t]
  | .ctrl t bodies => [.ctrl t (lowerBodies bodies)]
def lowerBodies : List (List Src) → List (List Out)
  | [] => []
  | b :: bs => lowerSpec b :: lowerBodies bs
end

/-! ## the pass, rule by rule -/

mutual
/-- `Fixpoint(Walk(Canonicalize))`: post-order; a block directly inside a block of the same
kind hands its (already canonical) direct statements to the parent, in place, and disappears -/
def canonList : List Src → List Src
  | [] => []
  | s :: ss => canonStmt s :: canonList ss
def canonStmt : Src → Src
  | .region k body => .region k (spliceSame k (canonList body))
  | .ctrl t bodies => .ctrl t (canonBodies bodies)
  | s => s
def canonBodies : List (List Src) → List (List Src)
  | [] => []
  | b :: bs => canonList b :: canonBodies bs
/-- replace direct children that are regions of kind `k` by their bodies -/
def spliceSame (k : Kind) : List Src → List Src
  | [] => []
  | .region k' body :: ss => (if k' = k then body else [.region k' body]) ++ spliceSame k ss
  | s :: ss => s :: spliceSame k ss
end

/-- intermediate form after `Walk(Chain(RewriteAutoInvoke, RewriteDeviceCall))` -/
inductive Mid where
  | gen (id : Nat) (viaTask : Bool)          -- a path.Gen left inside a region (its call/invoke deleted)
  | genPlay (id : Nat)                       -- top level: path.Gen followed by path.Play
  | invoke (id : Nat)                        -- an invoke that no rule touched
  | region (k : Kind) (body : List Mid)
  | other (tag : Nat)
  | ctrl (tag : Nat) (bodies : List (List Mid))
deriving Repr, Inhabited

mutual
/-- `inRegion` = kind of the directly enclosing schedule region, if any -/
def callsList (inRegion : Option Kind) : List Src → List Mid
  | [] => []
  | s :: ss => callsStmt inRegion s :: callsList inRegion ss
def callsStmt (inRegion : Option Kind) : Src → Mid
  | .call id => match inRegion with
    | none => .genPlay id                   -- RewriteDeviceCall: Gen + Play
    | some .auto => .gen id true            -- RewriteAutoInvoke fires first (func.Call branch): NewTweezerTask + Gen
    | some .parallel => .gen id false       -- RewriteDeviceCall, parent is a region: Gen only
  | .invoke id => match inRegion with
    | some .auto => .gen id true            -- RewriteAutoInvoke: NewTweezerTask + Gen
    | _ => .invoke id
  | .region k body => .region k (callsList (some k) body)
  | .other t => .other t
  | .ctrl t bodies => .ctrl t (callsBodies bodies)
def callsBodies : List (List Src) → List (List Mid)
  | [] => []
  | b :: bs => callsList none b :: callsBodies bs
end

mutual
/-- `Walk(RewriteScheduleRegion)`, post-order: the statements of the body are lifted out and
those whose result nobody uses become the members of the group (a nested, already lowered,
region contributes its group value; its own members are used by that group) -/
def regionMembers : List Mid → List PathE
  | [] => []
  | m :: ms => regionMember m ++ regionMembers ms
def regionMember : Mid → List PathE
  | .gen id v => [.gen id v]
  | .region k body => [.group k (regionMembers body)]
  | _ => []
end

mutual
def regionsList : List Mid → List Out
  | [] => []
  | m :: ms => regionsStmt m ++ regionsList ms
def regionsStmt : Mid → List Out
  | .genPlay id => [.play (.gen id false)]
  | .gen _ _ => [.leftover "gen outside region"]
  | .invoke _ => [.leftover "invoke outside auto"]
  | .region k body => [.play (.group k (regionMembers body))]
  | .other t => [.other t]
  | .ctrl t bodies => [.ctrl t (regionsBodies bodies)]
def regionsBodies : List (List Mid) → List (List Out)
  | [] => []
  | b :: bs => regionsList b :: regionsBodies bs
end

/-- the whole pass (CSE/DCE afterwards only touch pure statements: see C04) -/
def passModel (p : List Src) : List Out := regionsList (callsList none (canonList p))

/-! ## well-formed sources -/

mutual
/-- inside a block: device calls, nested blocks, and (directly inside `auto`) kernel invocations -/
def wfIn (k : Kind) : List Src → Bool
  | [] => true
  | s :: ss => wfInStmt k s && wfIn k ss
def wfInStmt (k : Kind) : Src → Bool
  | .call _ => true
  | .invoke _ => k == .auto
  | .region k' body => wfIn k' body
  | _ => false
end

mutual
def wf : List Src → Bool
  | [] => true
  | s :: ss => wfStmt s && wf ss
def wfStmt : Src → Bool
  | .call _ => true
  | .invoke _ => false          -- outside a block an invoke is an ordinary subroutine call: tag it `other`
  | .region k body => wfIn k body
  | .other _ => true
  | .ctrl _ bodies => wfBodies bodies
def wfBodies : List (List Src) → Bool
  | [] => true
  | b :: bs => wf b && wfBodies bs
end

end Shuttle.Sched
