import Shuttle.Model.Lang
import Shuttle.Gen.VisualDispatch
/-!
# Model of the path visualizer (`visualizer/interp.py`, `visualizer/impl/*.py`)

The visualizer is the spec-carrying interpreter with one more method table in front: it
executes the program and, for every device-visible statement, issues renderer calls.  The
model therefore is the reference evaluator followed by a translation of the event log;
what each statement's implementation does with the renderer is read from the regenerated
dispatch table.
-/
namespace Shuttle.Visual
open Shuttle Shuttle.Lang

/-- a call received by a `RendererInterface` -/
inductive Call where
  | renderTraps (zone : Grid) (name : String)
  | topHatCz (zone : Grid) (upper lower : Rat)
  | localR (zone : Grid)
  | localRz (zone : Grid)
  | globalR
  | globalRz
  | renderPath (p : PathVal)
  | unknown (what : String)
deriving Repr, DecidableEq

def dispatch (kind : String) : String := (Gen.VisualDispatch.table.lookup kind).getD "?"

/-- the renderer calls one event produces, according to the dispatch table -/
def callsOf : Event → List Call
  | .cz z u l => if dispatch "top_hat_cz" == "top_hat_cz" then [.topHatCz z u l] else [.unknown "cz"]
  | .localR z _ _ => if dispatch "local_r" == "local_r" then [.localR z] else [.unknown "local_r"]
  | .localRz z _ => if dispatch "local_rz" == "local_rz" then [.localRz z] else [.unknown "local_rz"]
  | .globalR _ _ => if dispatch "global_r" == "global_r" then [.globalR] else [.unknown "global_r"]
  | .globalRz _ => if dispatch "global_rz" == "global_rz" then [.globalRz] else [.unknown "global_rz"]
  | .fill _ => if dispatch "fill" == "none" then [] else [.unknown "fill"]
  | .measure _ => if dispatch "measure" == "none" then [] else [.unknown "measure"]
  | .play p => if dispatch "play" == "render_path" then [.renderPath p] else [.unknown "play"]
  | .playGroup ps =>
    if dispatch "play_group" == "render_path_each_in_order" then ps.map .renderPath else [.unknown "group"]
  | .op _ => []

/-- `PathVisualizer.initialize` -/
def trapsPrefix (traps : List (String × Grid)) : List Call :=
  if Gen.VisualDispatch.initRendersTraps then traps.map fun p => .renderTraps p.2 p.1 else [.unknown "init"]

/-- running a program in the visualizer: the calls the renderer receives -/
def visualize (fuel : Nat) (c : Ctx) (traps : List (String × Grid)) (name : String) (args : List Val) :
    Except Err (List Call) :=
  match runKernel fuel c name args with
  | .ok (_, evs) => .ok (trapsPrefix traps ++ evs.flatMap callsOf)
  | .error e => .error e

/-! the specification, written without the table -/

def renderOf : Event → List Call
  | .cz z u l => [.topHatCz z u l]
  | .localR z _ _ => [.localR z]
  | .localRz z _ => [.localRz z]
  | .globalR _ _ => [.globalR]
  | .globalRz _ => [.globalRz]
  | .play p => [.renderPath p]
  | .playGroup ps => ps.map .renderPath
  | _ => []

end Shuttle.Visual
