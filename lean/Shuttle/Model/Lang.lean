import Shuttle.Model.Gen3
import Shuttle.Model.Layout
/-!
# A small program language for move and tweezer kernels, with a reference evaluator

This is the formal meaning of "evaluating the program's source directly" (C04), of "the
kernel's sequence of set_loc/move/turn_on/turn_off calls" (C01), of "what the
unspecialised kernel returns when interpreted against a spec" (C06) and of "some execution
performs a device-visible operation" (C09).  The harness generator emits every program
both as real Python source (for the real decorators) and as an S-expression of this AST.

One evaluator `run`, by recursion on a fuel counter (every recursive call decrements it, so
termination is trivial and proofs go by induction on the fuel).
-/
namespace Shuttle.Lang
open Shuttle

inductive LookKind where
  | trap | special | intC | floatC
deriving DecidableEq, Repr, Inhabited

/-- run-time values -/
inductive Val where
  | none
  | int (i : Int)
  | flt (q : Rat)
  | bool (b : Bool)
  | str (s : String)
  | slice (s : PySlice)
  | list (l : List Val)
  | grid (g : GridV)
  | devfn (kern : String) (xt yt : List Int) (rev : Bool)
  | clos (fn : String) (env : List (String × Val))
  | path (p : PathVal)
  | meas
deriving Repr, Inhabited

inductive Expr where
  | lit (v : Val)
  | var (x : String)
  | prim (op : String) (args : List Expr)          -- pure primitive (arithmetic, lists, grids, …)
  | look (k : LookKind) (name : String)            -- spec.get_static_trap(zone_id=…) etc.
  | call (fn : String) (args : List Expr)          -- static call of a subroutine
  | callV (f : Expr) (args : List Expr)            -- call of a closure value
  | lam (fn : String)                              -- closure over the nested function `fn`
deriving Repr, Inhabited

inductive Stmt where
  | assign (x : String) (e : Expr)
  | exprS (e : Expr)
  | eff (op : String) (args : List Expr)           -- device-visible / AOD statement
  | devcall (f : Expr) (args : List Expr) (kw : List String)   -- f(*args) ; last kw.length args by keyword
  | par (body : List Stmt)                         -- with schedule.parallel(): device calls
  | ifS (c : Expr) (t e : List Stmt)
  | forS (x : String) (start stop step : Expr) (body : List Stmt)
  | assertS (c : Expr)
  | ret (e : Expr)
deriving Repr, Inhabited

structure Fn where
  name : String
  params : List String
  body : List Stmt
  tweezer : Bool := false       -- a @tweezer kernel (its effects are AOD operations)
deriving Repr, Inhabited

abbrev Env := List (String × Val)

def Env.get (env : Env) (x : String) : Option Val := env.lookup x
def Env.set (env : Env) (x : String) (v : Val) : Env := (x, v) :: env.filter (·.1 != x)

/-- device-visible events (and, inside a tweezer kernel, AOD operations) -/
inductive Event where
  | op (o : Op)
  | fill (zones : List Grid)
  | play (p : PathVal)
  | playGroup (ps : List PathVal)
  | cz (zone : Grid) (upper lower : Rat)
  | localR (zone : Grid) (axis angle : Rat)
  | localRz (zone : Grid) (angle : Rat)
  | globalR (axis angle : Rat)
  | globalRz (angle : Rat)
  | measure (zones : List Grid)
deriving Repr, Inhabited

def Event.isOp : Event → Bool
  | .op _ => true
  | _ => false

inductive Err where
  | fuel          -- evaluator ran out of fuel (never on generated programs)
  | err           -- any Python-level exception
deriving Repr, DecidableEq, Inhabited

structure Ctx where
  fns : List Fn
  /-- how a spec lookup is resolved: `none` = raises (unknown name / no spec available) -/
  look : LookKind → String → Option Val

def Ctx.fn (c : Ctx) (name : String) : Option Fn := c.fns.find? (·.name == name)

/-! ## pure primitives -/

def asRat : Val → Option Rat
  | .int i => some (i : Rat)
  | .flt q => some q
  | .bool b => some (if b then 1 else 0)
  | _ => none

def asInt : Val → Option Int
  | .int i => some i
  | .bool b => some (if b then 1 else 0)
  | _ => none

def truthy : Val → Option Bool
  | .bool b => some b
  | .int i => some (i != 0)
  | .none => some false
  | .list l => some (!l.isEmpty)
  | _ => none

def asInts (v : Val) : Option (List Int) :=
  match v with
  | .list l => l.mapM asInt
  | _ => none

def asRats (v : Val) : Option (List Rat) :=
  match v with
  | .list l => l.mapM asRat
  | _ => none

def asGIndex : Val → Option GIndex
  | .int i => some (.int i)
  | .slice s => some (.slice s)
  | .list l => (l.mapM asInt).map GIndex.list
  | _ => none

def asSel : Val → Option Sel
  | .slice s => some (.slice s)
  | .list l => (l.mapM asInt).map Sel.list
  | _ => none

def isFloat : Val → Bool
  | .flt _ => true
  | _ => false

/-- Python arithmetic on ints and floats (floats are exact rationals here) -/
def arith (op : String) (a b : Val) : Option Val :=
  if isFloat a || isFloat b then do
    let x ← asRat a
    let y ← asRat b
    match op with
    | "add" => some (.flt (x + y))
    | "sub" => some (.flt (x - y))
    | "mul" => some (.flt (x * y))
    | _ => none
  else do
    let x ← asInt a
    let y ← asInt b
    match op with
    | "add" => some (.int (x + y))
    | "sub" => some (.int (x - y))
    | "mul" => some (.int (x * y))
    | "floordiv" => if y = 0 then none else some (.int (x.fdiv y))
    | "mod" => if y = 0 then none else some (.int (x.fmod y))
    | _ => none

def compare (op : String) (a b : Val) : Option Val := do
  let x ← asRat a
  let y ← asRat b
  match op with
  | "lt" => some (.bool (x < y))
  | "le" => some (.bool (x ≤ y))
  | "gt" => some (.bool (y < x))
  | "ge" => some (.bool (y ≤ x))
  | "eq" => some (.bool (x == y))
  | "ne" => some (.bool (x != y))
  | _ => none

/-- `range(start, stop, step)` as a list; `none` for step 0 -/
def pyRange (start stop step : Int) : Option (List Int) :=
  if step = 0 then none
  else if step > 0 then
    some (progression start step (if start < stop then ((stop - start - 1) / step + 1).toNat else 0))
  else
    some (progression start step (if stop < start then ((start - stop - 1) / (-step) + 1).toNat else 0))

/-- results of the primitives that build new first-order values -/
inductive PV where
  | int (i : Int) | flt (q : Rat) | bool (b : Bool) | slice (s : PySlice)
  | ints (l : List Int) | flts (l : List Rat) | grid (g : GridV)
  | devfn (kern : String) (xt yt : List Int) (rev : Bool)

def PV.toVal : PV → Val
  | .int i => .int i
  | .flt q => .flt q
  | .bool b => .bool b
  | .slice s => .slice s
  | .ints l => .list (l.map .int)
  | .flts l => .list (l.map .flt)
  | .grid g => .grid g
  | .devfn k xt yt r => .devfn k xt yt r

/-- primitives whose result is one of their arguments (or a list of them) -/
def primPass (op : String) (args : List Val) : Option Val :=
  match op, args with
  | "and", [a, b] => (truthy a).bind fun x => if x then some b else some a
  | "or", [a, b] => (truthy a).bind fun x => if x then some a else some b
  | "list", l => some (.list l)
  | "index", [.list l, i] => (asInt i).bind (pyIndex l)
  | _, _ => none

/-- primitives building a new first-order value; `none` = the Python operation raises -/
def primNew (op : String) (args : List Val) : Option PV :=
  match op, args with
  | "neg", [a] => match a with
    | .int i => some (.int (-i)) | .flt q => some (.flt (-q)) | _ => none
  | "not", [a] => (truthy a).map fun b => .bool (!b)
  | "slice", [a, b, c] =>
    let o : Val → Option (Option Int) := fun v => match v with
      | .none => some none | .int i => some (some i) | _ => none
    do some (.slice ⟨← o a, ← o b, ← o c⟩)
  | "len", [.list l] => some (.int l.length)
  | "range", [a, b, c] => do
    let r ← pyRange (← asInt a) (← asInt b) (← asInt c)
    some (.ints r)
  | "float", [a] => (asRat a).map .flt
  -- grids
  | "from_positions", [xs, ys] => do
    some (.grid (.plain (Grid.fromPositions (← asRats xs) (← asRats ys))))
  | "shift", [.grid g, dx, dy] => do some (.grid (g.shift (← asRat dx) (← asRat dy)))
  | "scale", [.grid g, sx, sy] => do some (.grid (g.scale (← asRat sx) (← asRat sy)))
  | "repeat", [.grid g, xt, yt, xg, yg] => do
    (g.repeat_ (← asInt xt) (← asInt yt) (← asRat xg) (← asRat yg)).map .grid
  | "sub_grid", [.grid g, xi, yi] => do (g.getView (← asInts xi) (← asInts yi)).map .grid
  | "getitem2", [.grid g, ix, iy] => do (g.getItem (← asGIndex ix) (← asGIndex iy)).map .grid
  | "shape", [.grid g] => some (.ints [g.val.numX, g.val.numY])
  | "get_xpos", [.grid g] => some (.flts g.val.xPositions)
  | "get_ypos", [.grid g] => some (.flts g.val.yPositions)
  -- schedule values
  | "device_fn", [.str k, xt, yt] => do some (.devfn k (← asInts xt) (← asInts yt) false)
  | "reverse", [.devfn k xt yt r] => some (.devfn k xt yt (!r))
  | _, _ => none

/-- the pure primitives; `none` = the Python operation raises -/
def prim (op : String) (args : List Val) : Option Val :=
  if op ∈ ["add", "sub", "mul", "floordiv", "mod"] then
    match args with | [a, b] => arith op a b | _ => none
  else if op ∈ ["lt", "le", "gt", "ge", "eq", "ne"] then
    match args with | [a, b] => compare op a b | _ => none
  else if op ∈ ["and", "or", "list", "index"] then primPass op args
  else (primNew op args).map PV.toVal

/-! ## effects -/

def asGridVal : Val → Option Grid
  | .grid g => some g.val
  | _ => none

def asGrids (v : Val) : Option (List Grid) :=
  match v with
  | .list l => l.mapM asGridVal
  | _ => none

/-- the event of an effect statement; `none` = raises -/
def effect (op : String) (args : List Val) : Option Event :=
  match op, args with
  | "set_loc", [.grid g] => some (.op (.setLoc g.val))
  | "move", [.grid g] => some (.op (.move g.val))
  | "turn_on", [x, y] => do some (.op (.turn true (← asSel x) (← asSel y)))
  | "turn_off", [x, y] => do some (.op (.turn false (← asSel x) (← asSel y)))
  | "fill", [zs] => (asGrids zs).map .fill
  | "measure", [zs] => (asGrids zs).map .measure
  | "top_hat_cz", [.grid g, u, l] => do some (.cz g.val (← asRat u) (← asRat l))
  | "local_r", [a, b, .grid g] => do some (.localR g.val (← asRat a) (← asRat b))
  | "local_rz", [a, .grid g] => do some (.localRz g.val (← asRat a))
  | "global_r", [a, b] => do some (.globalR (← asRat a) (← asRat b))
  | "global_rz", [a] => do some (.globalRz (← asRat a))
  | _, _ => none

def opsOf (evs : List Event) : List Op :=
  evs.filterMap fun | .op o => some o | _ => none

/-! ## the evaluator -/

inductive Task where
  | expr (e : Expr)
  | exprs (es : List Expr)
  | stmt (s : Stmt)
  | block (ss : List Stmt)
  | loop (x : String) (vals : List Int) (body : List Stmt)
  | callFn (name : String) (args : List Val) (closure : Env)
  | devCalls (ss : List Stmt)        -- the members of a parallel block, each yielding a path

inductive Res where
  | val (v : Val)
  | vals (vs : List Val)
  | normal                           -- statement / block completed
  | returned (v : Val)               -- a `return` was executed
  | paths (ps : List PathVal)

abbrev Out := Except Err (Res × Env × List Event)

/-- bind parameters: positional arguments first, the rest by name (`permute_values`) -/
def bindArgs (f : Fn) (args : List Val) (kw : List String) : Option Env := do
  let vals ← permuteValues (f.name :: f.params) args kw
  if vals.length != f.params.length then none else some (f.params.zip vals)

/-- run a device call to its path: trace the tweezer kernel, reverse if needed -/
def pathOfOps (k : String) (xt yt : List Int) (rev : Bool) (ops : List Op) : Option PathVal :=
  match refPath ops with
  | none => none
  | some p => some ⟨xt, yt, if rev then flipPath p else p⟩

def run : Nat → Ctx → Env → Task → Out
  | 0, _, _, _ => .error .fuel
  | fuel + 1, c, env, task =>
    match task with
    | .expr e =>
      match e with
      | .lit v => .ok (.val v, env, [])
      | .var x => match env.get x with
        | some v => .ok (.val v, env, [])
        | none => .error .err
      | .look k n => match c.look k n with
        | some v => .ok (.val v, env, [])
        | none => .error .err
      | .lam fn => .ok (.val (.clos fn env), env, [])
      | .prim op args =>
        match run fuel c env (.exprs args) with
        | .ok (.vals vs, _, evs) =>
          match prim op vs with
          | some v => .ok (.val v, env, evs)
          | none => .error .err
        | .ok _ => .error .err
        | .error e => .error e
      | .call fn args =>
        match run fuel c env (.exprs args) with
        | .ok (.vals vs, _, evs) =>
          match run fuel c env (.callFn fn vs []) with
          | .ok (.val v, _, evs') => .ok (.val v, env, evs ++ evs')
          | .ok _ => .error .err
          | .error e => .error e
        | .ok _ => .error .err
        | .error e => .error e
      | .callV f args =>
        match run fuel c env (.expr f) with
        | .ok (.val (.clos fn cenv), _, evs0) =>
          match run fuel c env (.exprs args) with
          | .ok (.vals vs, _, evs) =>
            match run fuel c env (.callFn fn vs cenv) with
            | .ok (.val v, _, evs') => .ok (.val v, env, evs0 ++ evs ++ evs')
            | .ok _ => .error .err
            | .error e => .error e
          | .ok _ => .error .err
          | .error e => .error e
        | .ok _ => .error .err
        | .error e => .error e
    | .exprs [] => .ok (.vals [], env, [])
    | .exprs (e :: es) =>
      match run fuel c env (.expr e) with
      | .ok (.val v, _, evs) =>
        match run fuel c env (.exprs es) with
        | .ok (.vals vs, _, evs') => .ok (.vals (v :: vs), env, evs ++ evs')
        | .ok _ => .error .err
        | .error e => .error e
      | .ok _ => .error .err
      | .error e => .error e
    | .callFn name args cenv =>
      match c.fn name with
      | none => .error .err
      | some f =>
        match bindArgs f args [] with
        | none => .error .err
        | some penv =>
          match run fuel c (penv ++ cenv) (.block f.body) with
          | .ok (.returned v, _, evs) => .ok (.val v, env, evs)
          | .ok (.normal, _, evs) => .ok (.val .none, env, evs)
          | .ok _ => .error .err
          | .error e => .error e
    | .block [] => .ok (.normal, env, [])
    | .block (s :: ss) =>
      match run fuel c env (.stmt s) with
      | .ok (.normal, env', evs) =>
        match run fuel c env' (.block ss) with
        | .ok (r, env'', evs') => .ok (r, env'', evs ++ evs')
        | .error e => .error e
      | .ok (.returned v, env', evs) => .ok (.returned v, env', evs)
      | .ok _ => .error .err
      | .error e => .error e
    | .loop _ [] _ => .ok (.normal, env, [])
    | .loop x (i :: is) body =>
      match run fuel c (env.set x (.int i)) (.block body) with
      | .ok (.normal, env', evs) =>
        match run fuel c env' (.loop x is body) with
        | .ok (r, env'', evs') => .ok (r, env'', evs ++ evs')
        | .error e => .error e
      | .ok (.returned v, env', evs) => .ok (.returned v, env', evs)
      | .ok _ => .error .err
      | .error e => .error e
    | .devCalls [] => .ok (.paths [], env, [])
    | .devCalls (s :: ss) =>
      match s with
      | .devcall f args kw =>
        match run fuel c env (.expr f) with
        | .ok (.val (.devfn k xt yt rev), _, evs0) =>
          match run fuel c env (.exprs args) with
          | .ok (.vals vs, _, evs1) =>
            match c.fn k with
            | none => .error .err
            | some kf =>
              match bindArgs kf vs kw with
              | none => .error .err
              | some penv =>
                match run fuel c penv (.block kf.body) with
                | .ok (_, _, kevs) =>
                  match pathOfOps k xt yt rev (opsOf kevs) with
                  | none => .error .err
                  | some p =>
                    match run fuel c env (.devCalls ss) with
                    | .ok (.paths ps, _, evs2) => .ok (.paths (p :: ps), env, evs0 ++ evs1 ++ evs2)
                    | .ok _ => .error .err
                    | .error e => .error e
                | .error e => .error e
          | .ok _ => .error .err
          | .error e => .error e
        | .ok _ => .error .err
        | .error e => .error e
      | _ => .error .err
    | .stmt s =>
      match s with
      | .assign x e =>
        match run fuel c env (.expr e) with
        | .ok (.val v, _, evs) => .ok (.normal, env.set x v, evs)
        | .ok _ => .error .err
        | .error e => .error e
      | .exprS e =>
        match run fuel c env (.expr e) with
        | .ok (.val _, _, evs) => .ok (.normal, env, evs)
        | .ok _ => .error .err
        | .error e => .error e
      | .eff op args =>
        match run fuel c env (.exprs args) with
        | .ok (.vals vs, _, evs) =>
          match effect op vs with
          | some ev => .ok (.normal, env, evs ++ [ev])
          | none => .error .err
        | .ok _ => .error .err
        | .error e => .error e
      | .devcall f args kw =>
        match run fuel c env (.devCalls [.devcall f args kw]) with
        | .ok (.paths [p], _, evs) => .ok (.normal, env, evs ++ [.play p])
        | .ok _ => .error .err
        | .error e => .error e
      | .par body =>
        match run fuel c env (.devCalls body) with
        | .ok (.paths ps, _, evs) => .ok (.normal, env, evs ++ [.playGroup ps])
        | .ok _ => .error .err
        | .error e => .error e
      | .ifS cnd t e =>
        match run fuel c env (.expr cnd) with
        | .ok (.val v, _, evs) =>
          match truthy v with
          | none => .error .err
          | some b =>
            match run fuel c env (.block (if b then t else e)) with
            | .ok (r, env', evs') => .ok (r, env', evs ++ evs')
            | .error e => .error e
        | .ok _ => .error .err
        | .error e => .error e
      | .forS x a b st body =>
        match run fuel c env (.exprs [a, b, st]) with
        | .ok (.vals [va, vb, vs], _, evs) =>
          match (do pyRange (← asInt va) (← asInt vb) (← asInt vs)) with
          | none => .error .err
          | some is =>
            match run fuel c env (.loop x is body) with
            | .ok (r, env', evs') => .ok (r, env', evs ++ evs')
            | .error e => .error e
        | .ok _ => .error .err
        | .error e => .error e
      | .assertS cnd =>
        match run fuel c env (.expr cnd) with
        | .ok (.val v, _, evs) =>
          match truthy v with
          | some true => .ok (.normal, env, evs)
          | _ => .error .err
        | .ok _ => .error .err
        | .error e => .error e
      | .ret e =>
        match run fuel c env (.expr e) with
        | .ok (.val v, _, evs) => .ok (.returned v, env, evs)
        | .ok _ => .error .err
        | .error e => .error e

/-- run kernel `name` on arguments: its result value and the events it performs -/
def runKernel (fuel : Nat) (c : Ctx) (name : String) (args : List Val) : Except Err (Val × List Event) :=
  match run fuel c [] (.callFn name args []) with
  | .ok (.val v, _, evs) => .ok (v, evs)
  | .ok _ => .error .err
  | .error e => .error e

/-- spec lookups resolved against an architecture spec -/
def specLook (s : ArchSpec) : LookKind → String → Option Val
  | .trap, n => (s.layout.staticTraps.lookup n).map fun g => .grid (.plain g)
  | .special, n => (s.layout.specialGrid.lookup n).map fun g => .grid (.plain g)
  | .intC, n => (s.intC.lookup n).map .int
  | .floatC, n => (s.floatC.lookup n).map .flt

/-- no spec available: every lookup raises -/
def noLook : LookKind → String → Option Val := fun _ _ => none

end Shuttle.Lang
