import Shuttle.Model.Grid
import Shuttle.Gen.ActionTables
/-!
# Actions of a traced path (`codegen/taskgen.py`)

An action is a waypoint segment or a tone switch.  A switch carries the *class tag*
`(on, xSlice, ySlice)` of the Python object (one of the eight `TurnO*Action` classes)
explicitly, separately from the selectors it stores, so that a mis-tagged action is
expressible in the model.
-/
namespace Shuttle
open Gen.ActionTables (Tag)

/-- a tone selector as the kernel passes it: a Python slice or an index list -/
inductive Sel where
  | slice (s : PySlice)
  | list (l : List Int)
deriving DecidableEq, Repr, Inhabited

def Sel.isSlice : Sel → Bool
  | .slice _ => true
  | .list _ => false

inductive Action where
  | way (ws : List Grid)
  | sw (tag : Tag) (x y : Sel)
deriving DecidableEq, Repr, Inhabited

def Action.isWay : Action → Bool
  | .way _ => true
  | _ => false

abbrev Path := List Action

/-- the AOD operations a tweezer kernel performs, in execution order -/
inductive Op where
  | setLoc (g : Grid)
  | move (g : Grid)
  | turn (on : Bool) (x y : Sel)
deriving DecidableEq, Repr, Inhabited

end Shuttle
