import Shuttle.Model.Grid
/-!
# Model of `dialects/filled/types.py` (FilledGrid)

A filled grid is an underlying grid (a `Grid` or `SubGrid` value) plus a set of vacant
*index pairs*.  The vacancy set is kept as a list and only ever observed through
membership (Python: a `frozenset`).  Vacancies may lie outside the grid's shape — the
Python stores whatever it is given — they then simply never match a site.
-/
namespace Shuttle

abbrev Idx := Int × Int

structure Filled where
  parent : GridV            -- the underlying grid (never itself a FilledGrid)
  vac : List Idx
deriving Repr, Inhabited

/-- a value a `fill`/`vacate` statement accepts as its zone: a grid or a filled grid -/
inductive GridOrFilled where
  | grid (g : GridV)
  | filled (f : Filled)
deriving Repr, Inhabited

namespace Filled

/-- all index pairs of a shape, `product(range(nx), range(ny))` -/
def allIdx (nx ny : Nat) : List Idx :=
  (List.range nx).flatMap fun (i : Nat) => (List.range ny).map fun (j : Nat) => ((i : Int), (j : Int))

/-- `FilledGrid.vacate(grid_obj, vacancies)` -/
def vacate : GridOrFilled → List Idx → Filled
  | .grid g, l => ⟨g, l⟩
  | .filled f, l => ⟨f.parent, f.vac ++ l⟩

/-- `FilledGrid.fill(grid_obj, filled)` -/
def fill : GridOrFilled → List Idx → Filled
  | .grid g, l => ⟨g, (allIdx g.val.numX g.val.numY).filter (· ∉ l)⟩
  | .filled f, l => ⟨f.parent, f.vac.filter (· ∉ l)⟩

/-- positions at which value `v` occurs in `l` -/
def positionsOf (l : List Int) (v : Int) : List Int :=
  (l.zipIdx.filter (·.1 == v)).map fun p => (p.2 : Int)

/-- re-indexed vacancies of a view: each vacancy goes to every position at which its
row / column index occurs in the index lists -/
def viewVac (vac : List Idx) (xi yi : List Int) : List Idx :=
  vac.flatMap fun (x, y) => (positionsOf xi x).flatMap fun i => (positionsOf yi y).map fun j => (i, j)

/-- `FilledGrid.get_view(x_indices, y_indices)` -/
def getView (f : Filled) (xi yi : List Int) : Option Filled :=
  (f.parent.getView xi yi).map fun p => ⟨p, viewVac f.vac xi yi⟩

/-- `filled[ix, iy]` (inherited `Grid.__getitem__`, dispatching to `get_view`) -/
def getItem (f : Filled) (ix iy : GIndex) : Option Filled := do
  let xi ← getIndices (f.parent.val.xSpacing.length + 1) ix
  let yi ← getIndices (f.parent.val.ySpacing.length + 1) iy
  f.getView xi yi

def shift (f : Filled) (dx dy : Rat) : Filled := ⟨f.parent.shift dx dy, f.vac⟩
def scale (f : Filled) (sx sy : Rat) : Filled := ⟨f.parent.scale sx sy, f.vac⟩

def inShape (nx ny : Nat) (p : Idx) : Bool :=
  decide (0 ≤ p.1) && decide (p.1 < (nx : Int)) && decide (0 ≤ p.2) && decide (p.2 < (ny : Int))

/-- tiled vacancy pattern: `(x + nx·i, y + ny·j)` for every tile `(i, j)` and every
vacancy that lies inside the shape -/
def tileVac (vac : List Idx) (nx ny : Nat) (xt yt : Nat) : List Idx :=
  (List.range xt).flatMap fun (i : Nat) => (List.range yt).flatMap fun (j : Nat) =>
    (vac.filter (inShape nx ny)).map fun (x, y) => (x + (nx : Int) * (i : Int), y + (ny : Int) * (j : Int))

/-- `FilledGrid.repeat` -/
def repeat_ (f : Filled) (xt yt : Int) (xg yg : Rat) : Option Filled :=
  (f.parent.repeat_ xt yt xg yg).map fun p =>
    ⟨p, tileVac f.vac f.parent.val.numX f.parent.val.numY xt.toNat yt.toNat⟩

/-- `FilledGrid.positions`: the parent's lexicographic site product minus vacancies -/
def positions (f : Filled) : List (Rat × Rat) :=
  (f.parent.val.xPositions.zipIdx.flatMap fun (x, i) =>
    f.parent.val.yPositions.zipIdx.filterMap fun (y, j) =>
      if (((i : Int), (j : Int)) ∈ f.vac) then none else some (x, y))

/-- `__eq__`: same underlying grid value and same vacancy set -/
def eq (a b : Filled) : Bool :=
  a.parent.val == b.parent.val && a.vac.all (· ∈ b.vac) && b.vac.all (· ∈ a.vac)

/-- what `__hash__` depends on: the underlying grid value and the vacancy *set* -/
def hashKey (f : Filled) : Grid × (Idx → Bool) := (f.parent.val, fun p => decide (p ∈ f.vac))

end Filled
end Shuttle
