/-!
# Model of spec injection over a store of methods (C07)

`InjectSpecsPass` delegates to kirin's `CallGraphPass`: the root method is rewritten in
place, every method statically invoked from it (transitively) is first *copied*
(`Method.similar`) and the copy is rewritten; invocations among the rewritten methods are
redirected to the copies.  Code is abstract here: all that matters is which method ids it
invokes, how a spec rewrites it and how invocations are redirected.
-/
namespace Shuttle.Store

structure CodeOps (Code Spec : Type) where
  callees : Code → List Nat
  rewrite : Spec → Code → Code
  redirect : (Nat → Nat) → Code → Code

structure Store (Code : Type) where
  code : List Code            -- method id = index

variable {Code Spec : Type}

def Store.get (s : Store Code) (i : Nat) : Option Code := s.code[i]?

/-- ids reachable from `i` through static invocations, excluding `root` (fuel-bounded DFS) -/
def reach (ops : CodeOps Code Spec) (s : Store Code) (root : Nat) : Nat → List Nat → List Nat → List Nat
  | 0, _, acc => acc
  | _, [], acc => acc
  | fuel + 1, i :: todo, acc =>
    if i = root ∨ i ∈ acc then reach ops s root fuel todo acc
    else match s.get i with
      | none => reach ops s root fuel todo acc
      | some c => reach ops s root fuel (ops.callees c ++ todo) (acc ++ [i])

/-- where the copies go: callee `cs[k]` is copied to the fresh id `base + k` -/
def copyMap (cs : List Nat) (base : Nat) : Nat → Nat := fun i =>
  match cs.idxOf? i with
  | some k => base + k
  | none => i

/-- `InjectSpecsPass(spec)(root)` -/
def compile (ops : CodeOps Code Spec) (s : Store Code) (root : Nat) (spec : Spec) : Store Code :=
  match s.get root with
  | none => s
  | some rc =>
    let cs := reach ops s root (s.code.length + 1) (ops.callees rc) []
    let ρ := copyMap cs s.code.length
    let copies := cs.filterMap fun i => (s.get i).map fun c => ops.redirect ρ (ops.rewrite spec c)
    { code := (s.code.set root (ops.redirect ρ (ops.rewrite spec rc))) ++ copies }

/-- a history of compilations `(root, spec)` -/
def runHistory (ops : CodeOps Code Spec) (s : Store Code) : List (Nat × Spec) → Store Code
  | [] => s
  | (r, sp) :: rest => runHistory ops (compile ops s r sp) rest

end Shuttle.Store
