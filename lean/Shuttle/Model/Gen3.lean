import Shuttle.Model.Reverse
import Shuttle.Gen.GenRoutes
/-!
# Model of the three `path.Gen` implementations (C05)

`genWith shape …` mirrors one copy of `gen`; what differs between the copies (where the
spec comes from, which flag each isinstance branch sets, whether the path is reversed,
which tone list feeds which field) is read from the regenerated `GenRoutes` shapes, so a
copy that drifts from the others is expressible.  The kernel itself is abstracted as
`trace : Spec → Fn → List Val → Option Path` (TraceInterpreter.run_trace).
-/
namespace Shuttle
open Shuttle.Gen.GenRoutes (Shape)

/-- kirin's `permute_values(arg_names, values, kwarg_names)`: `arg_names[0]` is the
method's own name; the last `kw.length` values are the keyword arguments.  `none` =
KeyError (a parameter is not supplied by name). -/
def permuteValues {α} (argNames : List String) (values : List α) (kw : List String) : Option (List α) :=
  let npos := values.length - kw.length
  let pos := values.take npos
  if kw.isEmpty then some pos
  else
    let kws := kw.zip (values.drop npos)
    ((argNames.drop (npos + 1)).mapM fun n => kws.lookup n).map (pos ++ ·)

/-- Python's own binding rule for `f(*pos, **kw)`: parameter `j` gets `pos[j]` if it is
positional, else the keyword argument carrying its name -/
def pyBind {α} (params : List String) (pos : List α) (kw : List (String × α)) : Option (List α) :=
  (params.zipIdx.mapM fun (p, j) => if j < pos.length then pos[j]? else kw.lookup p)

/-- a device function value -/
structure DevFn (F : Type) where
  moveFn : F
  argNames : List String      -- signature of the kernel, self name first
  xTones : List Int
  yTones : List Int
deriving Repr

/-- the run-time value of the `device_task` operand -/
inductive TaskVal (F : Type) where
  | fwd (d : DevFn F)         -- DeviceFunction
  | rev (d : DevFn F)         -- ReverseDeviceFunction wrapping a DeviceFunction
  | other                     -- anything else
deriving Repr

structure PathVal where
  xTones : List Int
  yTones : List Int
  path : Path
deriving Repr, DecidableEq

inductive GenErr where
  | noSpec | badTask | kernel | args
deriving Repr, DecidableEq

def pickTones {F} (which : String) (d : DevFn F) : List Int :=
  if which = "x" then d.xTones else if which = "y" then d.yTones else []

/-- one copy of `gen`, for the spec `sp` it ends up using -/
def genCore {F S V : Type} (shape : Shape) (trace : S → F → List V → Option Path)
    (sp : S) (task : TaskVal F) (inputs : List V) (kwargs : List String) : Except GenErr PathVal :=
  match task with
  | .other => .error .badTask
  | .fwd d | .rev d =>
    let reverse := match task with | .rev _ => shape.revReverse | _ => shape.fwdReverse
    if !(shape.permuteOk && shape.tracesMoveFn && shape.revUnwraps && shape.pathIsPath) then .error .args else
    match permuteValues d.argNames inputs kwargs with
    | none => .error .args
    | some args =>
      match trace sp d.moveFn args with
      | none => .error .kernel
      | some p =>
        let p' := if reverse && shape.reversesWhenReverse then reversePath p
                  else if reverse then none else some p
        match p' with
        | none => .error .args
        | some p' => .ok ⟨pickTones shape.xTonesFrom d, pickTones shape.yTonesFrom d, p'⟩

/-- `PathInterpreter.gen` (key `main`): the spec recorded on the statement -/
def genMain {F S V : Type} (trace : S → F → List V → Option Path) (stmtSpec : Option S)
    (task : TaskVal F) (inputs : List V) (kwargs : List String) : Except GenErr PathVal :=
  match stmtSpec with
  | none => .error .noSpec
  | some sp => genCore Gen.GenRoutes.main trace sp task inputs kwargs

/-- `SpecPathInterpreter.gen` (key `spec.interp`): the interpreter's spec -/
def genSpec {F S V : Type} (trace : S → F → List V → Option Path) (interpSpec : S)
    (task : TaskVal F) (inputs : List V) (kwargs : List String) : Except GenErr PathVal :=
  genCore Gen.GenRoutes.spec trace interpSpec task inputs kwargs

/-- result of constant folding a `gen` -/
inductive Folded where
  | unfolded                      -- const.Result.top(): the call stays in the IR
  | value (p : PathVal)
  | raised (e : GenErr)           -- the kernel failed while folding
deriving Repr, DecidableEq

/-- `ConstProp.gen` (key `constprop`): folds only when spec, task and all inputs are
constant (`none` = not a compile-time constant) -/
def genConst {F S V : Type} (trace : S → F → List V → Option Path) (stmtSpec : Option S)
    (task : Option (TaskVal F)) (inputs : List (Option V)) (kwargs : List String) : Folded :=
  match stmtSpec, task with
  | none, _ => .unfolded
  | _, none => .unfolded
  | _, some .other => .unfolded
  | some sp, some t =>
    match inputs.mapM id with
    | none => .unfolded
    | some vals =>
      match genCore Gen.GenRoutes.constprop trace sp t vals kwargs with
      | .ok p => .value p
      | .error e => .raised e

/-- the specification: the one path a device call denotes -/
def genSpecification {F S V : Type} (trace : S → F → List V → Option Path) (sp : S)
    (task : TaskVal F) (boundArgs : List V) : Option PathVal :=
  match task with
  | .fwd d => (trace sp d.moveFn boundArgs).map fun p => ⟨d.xTones, d.yTones, p⟩
  | .rev d => (trace sp d.moveFn boundArgs).map fun p => ⟨d.xTones, d.yTones, flipPath p⟩
  | .other => none

end Shuttle
