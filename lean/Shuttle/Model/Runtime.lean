import Shuttle.Model.Lang
import Shuttle.Gen.RuntimeQuantum
/-!
# Model of the quantum-runtime analysis (`analysis/runtime.py`) on the program language

The analysis walks the code structurally: both branches of an `if`, the body of a loop
once, the body of every statically invoked subroutine, the body of every closure (at the
point where the closure is created — the real analysis follows the constant hint at the call
site; the generator makes sure every closure has a call site).  A statement marks the frame
as quantum when the regenerated `runtime` method-table registry says so.  A recursive
invocation adds nothing (its body is already under analysis); an unknown function is a
refusal (`Except.error`).
-/
namespace Shuttle.Lang

/-- does the `runtime` method table mark this effect statement as quantum -/
def quantumEff (op : String) : Bool :=
  Gen.RuntimeQuantum.table.any fun e => e.1 == op && e.2.1 && e.2.2

/-- a device call / parallel block compiles to `path.Play` -/
def quantumPlay : Bool := quantumEff "play"

inductive ATask where
  | expr (e : Expr)
  | exprs (es : List Expr)
  | stmt (s : Stmt)
  | block (ss : List Stmt)
  | fn (name : String)

/-- `.ok b` = the analysis finishes with `is_quantum = b`; `.error ()` = it raises -/
abbrev AOut := Except Unit Bool

def ana (fns : List Fn) : Nat → List String → ATask → AOut
  | 0, _, _ => .error ()
  | fuel + 1, stack, t =>
    match t with
    | .expr e =>
      match e with
      | .lit _ => .ok false
      | .var _ => .ok false
      | .look _ _ => .ok false
      | .prim _ args => ana fns fuel stack (.exprs args)
      | .call fn args =>
        match ana fns fuel stack (.exprs args) with
        | .ok a => match ana fns fuel stack (.fn fn) with
          | .ok b => .ok (a || b)
          | .error u => .error u
        | .error u => .error u
      | .callV f args =>
        -- `Func.call` needs a constant hint identifying the closure; that exists when the
        -- callee is a closure defined in scope (a variable carrying the nested function's
        -- name, or the closure expression itself); anything else is a dynamic call and raises
        if !(match f with
             | .var x => fns.any (·.name == x)
             | .lam _ => true
             | _ => false) then .error ()
        else
        match ana fns fuel stack (.expr f) with
        | .ok a => match ana fns fuel stack (.exprs args) with
          | .ok b => .ok (a || b)
          | .error u => .error u
        | .error u => .error u
      | .lam fn => ana fns fuel stack (.fn fn)
    | .exprs [] => .ok false
    | .exprs (e :: es) =>
      match ana fns fuel stack (.expr e) with
      | .ok a => match ana fns fuel stack (.exprs es) with
        | .ok b => .ok (a || b)
        | .error u => .error u
      | .error u => .error u
    | .fn name =>
      if name ∈ stack then .ok false          -- recursion: the body is already being analysed further up
                                              -- (kirin stops at its depth limit without raising)
      else match fns.find? (·.name == name) with
        | none => .error ()
        | some f => ana fns fuel (name :: stack) (.block f.body)
    | .block [] => .ok false
    | .block (s :: ss) =>
      match ana fns fuel stack (.stmt s) with
      | .ok a => match ana fns fuel stack (.block ss) with
        | .ok b => .ok (a || b)
        | .error u => .error u
      | .error u => .error u
    | .stmt s =>
      match s with
      | .assign _ e => ana fns fuel stack (.expr e)
      | .exprS e => ana fns fuel stack (.expr e)
      | .eff op args =>
        match ana fns fuel stack (.exprs args) with
        | .ok a => .ok (a || quantumEff op)
        | .error u => .error u
      | .devcall f args _ =>
        match ana fns fuel stack (.exprs (f :: args)) with
        | .ok a => .ok (a || quantumPlay)
        | .error u => .error u
      | .par body =>
        match ana fns fuel stack (.block body) with
        | .ok a => .ok (a || quantumPlay)
        | .error u => .error u
      | .ifS c t e =>
        match ana fns fuel stack (.expr c) with
        | .ok a => match ana fns fuel stack (.block t) with
          | .ok b => match ana fns fuel stack (.block e) with
            | .ok d => .ok (a || b || d)
            | .error u => .error u
          | .error u => .error u
        | .error u => .error u
      | .forS _ a b st body =>
        match ana fns fuel stack (.exprs [a, b, st]) with
        | .ok x => match ana fns fuel stack (.block body) with
          | .ok y => .ok (x || y)
          | .error u => .error u
        | .error u => .error u
      | .assertS c => ana fns fuel stack (.expr c)
      | .ret e => ana fns fuel stack (.expr e)

/-- `RuntimeAnalysis(...).has_quantum_runtime(kernel)` -/
def hasQuantumRuntime (fns : List Fn) (fuel : Nat) (name : String) : AOut :=
  ana fns fuel [] (.fn name)

end Shuttle.Lang
