import Shuttle.Model.Lang
import Shuttle.Gen.RuntimeQuantum
/-!
# Model of the quantum-runtime analysis (`analysis/runtime.py`) on the program language

The analysis walks the code structurally: both branches of an `if`, the body of a loop
once, the body of every statically invoked subroutine, the body of every closure (at the
point where the closure is created — the real analysis follows the constant hint at the call
site; the generator makes sure every closure has a call site).  A statement marks the frame
as quantum when the regenerated `runtime` method-table registry says so.  A recursive
invocation adds nothing (its body is already under analysis); an unknown function is a
refusal (`Except.error`).
-/
namespace Shuttle.Lang

/-- does the `runtime` method table mark this effect statement as quantum -/
def quantumEff (op : String) : Bool :=
  Gen.RuntimeQuantum.table.any fun e => e.1 == op && e.2.1 && e.2.2

/-- a device call / parallel block compiles to `path.Play` -/
def quantumPlay : Bool := quantumEff "play"

inductive ATask where
  | expr (e : Expr)
  | exprs (es : List Expr)
  | stmt (s : Stmt)
  | block (ss : List Stmt)
  | fn (name : String)

/-- `.ok b` = the analysis finishes with `is_quantum = b`; `.error ()` = it raises -/
abbrev AOut := Except Unit Bool

/-- both sub-analyses finish; the frame is quantum if either says so -/
def both (x y : AOut) : AOut :=
  match x, y with
  | .ok a, .ok b => .ok (a || b)
  | .error u, _ => .error u
  | _, .error u => .error u

/-- the sub-analysis finishes; the statement itself marks the frame when `b` -/
def orB (x : AOut) (b : Bool) : AOut :=
  match x with
  | .ok a => .ok (a || b)
  | .error u => .error u

mutual
/-- a value without closures inside -/
def Val.fo : Val → Bool
  | .list l => foList l
  | .clos _ _ => false
  | _ => true
def foList : List Val → Bool
  | [] => true
  | v :: vs => v.fo && foList vs
end

/-- can `Func.call` resolve the callee: it needs a constant hint identifying the closure; that exists when the callee is
a closure defined in scope (a variable carrying the nested function's name, or the closure expression itself); anything
else is a dynamic call and raises -/
def resolvable (fns : List Fn) : Expr → Bool
  | .var x => fns.any (·.name == x)
  | .lam _ => true
  | _ => false

def ana (fns : List Fn) : Nat → List String → ATask → AOut
  | 0, _, _ => .error ()
  | fuel + 1, stack, t =>
    match t with
    | .expr e =>
      match e with
      -- literals of the source language are first-order (the wire format cannot even express a closure literal)
      | .lit v => if v.fo then .ok false else .error ()
      | .var _ => .ok false
      | .look _ _ => .ok false
      | .prim _ args => ana fns fuel stack (.exprs args)
      | .call fn args => both (ana fns fuel stack (.exprs args)) (ana fns fuel stack (.fn fn))
      | .callV f args =>
        if !(resolvable fns f) then .error ()
        else both (ana fns fuel stack (.expr f)) (ana fns fuel stack (.exprs args))
      | .lam fn => ana fns fuel stack (.fn fn)
    | .exprs [] => .ok false
    | .exprs (e :: es) => both (ana fns fuel stack (.expr e)) (ana fns fuel stack (.exprs es))
    | .fn name =>
      if name ∈ stack then .ok false          -- recursion: the body is already being analysed further up
                                              -- (kirin stops at its depth limit without raising)
      else match fns.find? (·.name == name) with
        | none => .error ()
        | some f => ana fns fuel (name :: stack) (.block f.body)
    | .block [] => .ok false
    | .block (s :: ss) => both (ana fns fuel stack (.stmt s)) (ana fns fuel stack (.block ss))
    | .stmt s =>
      match s with
      | .assign _ e => ana fns fuel stack (.expr e)
      | .exprS e => ana fns fuel stack (.expr e)
      | .eff op args => orB (ana fns fuel stack (.exprs args)) (quantumEff op)
      | .devcall f args _ => orB (ana fns fuel stack (.exprs (f :: args))) quantumPlay
      | .par body => orB (ana fns fuel stack (.block body)) quantumPlay
      | .ifS c t e =>
        both (ana fns fuel stack (.expr c)) (both (ana fns fuel stack (.block t)) (ana fns fuel stack (.block e)))
      | .forS _ a b st body => both (ana fns fuel stack (.exprs [a, b, st])) (ana fns fuel stack (.block body))
      | .assertS c => ana fns fuel stack (.expr c)
      | .ret e => ana fns fuel stack (.expr e)

/-- `RuntimeAnalysis(...).has_quantum_runtime(kernel)` -/
def hasQuantumRuntime (fns : List Fn) (fuel : Nat) (name : String) : AOut :=
  ana fns fuel [] (.fn name)

end Shuttle.Lang
