import Shuttle.Gen.Vocab
/-!
# Vocabulary of the three kernel kinds (C17)

`documented` is written by hand from the property's text; `accepts` is what the code
does: a wrapper is usable in a kernel kind iff the dialect of its statement belongs to
that kind's dialect group (kirin's lowering rejects statements of other dialects with
"unsupported dialect").
-/
namespace Shuttle.Vocab

/-- categories of operations, by the interface module that publishes them -/
def categories : List String :=
  ["action", "schedule", "gate", "init", "measure", "atom", "spec", "grid", "filled"]

/-- the documented vocabulary: category × kernel kind -/
def documented (category kind : String) : Bool :=
  match kind with
  | "tweezer" => category ∈ ["action", "spec", "grid", "filled"]
  | "move" => category ∈ ["schedule", "gate", "init", "measure", "spec", "grid", "filled"]
  | "kernel" => category ∈ ["atom", "gate", "spec", "grid", "filled"]
  | _ => false

/-- what the code accepts: the statement's dialect is in the group -/
def accepts (dialect kind : String) : Bool :=
  match Gen.Vocab.groups.lookup kind with
  | some ds => dialect ∈ ds
  | none => false

def kinds : List String := ["tweezer", "move", "kernel"]

end Shuttle.Vocab
