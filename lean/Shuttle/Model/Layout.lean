import Shuttle.Model.Grid
/-!
# Model of `arch.py`: `Layout` and `ArchSpec`

Dicts are association lists with unique keys, sets are lists observed through membership.
`postInit` is `Layout.__post_init__` (build the grid → name index, reject duplicate grids);
`eq` / `hashKey` are `__eq__` / `__hash__`.
-/
namespace Shuttle

structure Layout where
  staticTraps : List (String × Grid)
  fillable : List String
  hasCz : List String
  hasLocal : List String
  specialGrid : List (String × Grid)
deriving Repr, Inhabited, DecidableEq

namespace Layout

/-- `chain(static_traps.items(), special_grid.items())` -/
def zones (l : Layout) : List (String × Grid) := l.staticTraps ++ l.specialGrid

/-- the loop of `__post_init__`: `none` = ValueError (duplicate grid) -/
def buildIndex : List (Grid × String) → List (String × Grid) → Option (List (Grid × String))
  | idx, [] => some idx
  | idx, (n, g) :: rest =>
    if (idx.lookup g).isSome then none else buildIndex (idx ++ [(g, n)]) rest

/-- `Layout.__post_init__`: the reverse index, or `none` when two names denote one grid -/
def postInit (l : Layout) : Option (List (Grid × String)) := buildIndex [] l.zones

/-- `Layout.get_zone_id` on a constructed layout -/
def getZoneId (idx : List (Grid × String)) (g : Grid) : Option String := idx.lookup g

/-- set equality of two lists -/
def setEq {α} [DecidableEq α] (a b : List α) : Bool := a.all (· ∈ b) && b.all (· ∈ a)

/-- `Layout.__eq__`: all five fields (dict / set equality) -/
def eq (a b : Layout) : Bool :=
  setEq a.staticTraps b.staticTraps && setEq a.fillable b.fillable && setEq a.hasCz b.hasCz &&
  setEq a.hasLocal b.hasLocal && setEq a.specialGrid b.specialGrid

/-- what `Layout.__hash__` depends on: the five frozensets -/
def hashKey (l : Layout) :
    ((String × Grid) → Bool) × (String → Bool) × (String → Bool) × (String → Bool) × ((String × Grid) → Bool) :=
  (fun p => decide (p ∈ l.staticTraps), fun s => decide (s ∈ l.fillable), fun s => decide (s ∈ l.hasCz),
   fun s => decide (s ∈ l.hasLocal), fun p => decide (p ∈ l.specialGrid))

def optMin (a : Option Rat) (b : Rat) : Option Rat := match a with | none => some b | some x => some (min x b)
def optMax (a : Option Rat) (b : Rat) : Option Rat := match a with | none => some b | some x => some (max x b)

/-- running minimum / maximum starting from "nothing seen" (`inf` / `-inf` in the code) -/
def foldMin (l : List Rat) : Option Rat := l.foldl optMin none
def foldMax (l : List Rat) : Option Rat := l.foldl optMax none

/-- a zone has sites iff neither axis is empty -/
def hasSites (g : Grid) : Bool := g.xInit.isSome && g.yInit.isSome

/-- `Layout.bounding_box`: zones with an empty axis (no sites) are skipped; the four
accumulators of the loop are independent of each other, so the loop is four folds.
`none` = ValueError (incomplete data). -/
def boundingBox (l : Layout) : Option (Rat × Rat × Rat × Rat) :=
  let zs := (l.zones.map (·.2)).filter hasSites
  match foldMin (zs.filterMap (·.xInit)),
        foldMax (zs.filterMap fun z => z.xInit.map (· + z.width)),
        foldMin (zs.filterMap (·.yInit)),
        foldMax (zs.filterMap fun z => z.yInit.map (· + z.height)) with
  | some a, some b, some c, some d => some (a, b, c, d)
  | _, _, _, _ => none

end Layout

structure ArchSpec where
  layout : Layout
  floatC : List (String × Rat)
  intC : List (String × Int)
deriving Repr, Inhabited, DecidableEq

namespace ArchSpec

/-- dataclass `__eq__` of the frozen `ArchSpec`: layout (`Layout.__eq__`) and the two dicts -/
def eq (a b : ArchSpec) : Bool :=
  a.layout.eq b.layout && Layout.setEq a.floatC b.floatC && Layout.setEq a.intC b.intC

end ArchSpec
end Shuttle
