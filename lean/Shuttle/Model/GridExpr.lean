import Shuttle.Model.Grid
/-! Grid-valued expressions (the `grid` dialect operations a kernel can apply), with the
error behaviour of the Python methods. -/
namespace Shuttle

inductive GExpr where
  | lit (g : Grid)
  | fromPos (xs ys : List Rat)
  | shift (e : GExpr) (dx dy : Rat)
  | scale (e : GExpr) (sx sy : Rat)
  | rep (e : GExpr) (xt yt : Int) (xg yg : Rat)
  | sub (e : GExpr) (xi yi : List Int)
  | item (e : GExpr) (ix iy : GIndex)
deriving Repr, Inhabited

def GExpr.eval : GExpr → Option GridV
  | .lit g => some (.plain g)
  | .fromPos xs ys => some (.plain (Grid.fromPositions xs ys))
  | .shift e dx dy => e.eval.map (·.shift dx dy)
  | .scale e sx sy => e.eval.map (·.scale sx sy)
  | .rep e xt yt xg yg => e.eval.bind (·.repeat_ xt yt xg yg)
  | .sub e xi yi => e.eval.bind (·.getView xi yi)
  | .item e ix iy => e.eval.bind (·.getItem ix iy)

end Shuttle
