import Shuttle.Model.Filled
/-! Expressions over grids and filled grids (the `grid` + `filled` dialect operations),
evaluated with the dispatch the Python methods have: the same method name on a
`FilledGrid` and on a `Grid`. -/
namespace Shuttle

inductive XExpr where
  | lit (g : Grid)
  | fromPos (xs ys : List Rat)
  | shift (e : XExpr) (dx dy : Rat)
  | scale (e : XExpr) (sx sy : Rat)
  | rep (e : XExpr) (xt yt : Int) (xg yg : Rat)
  | sub (e : XExpr) (xi yi : List Int)
  | item (e : XExpr) (ix iy : GIndex)
  | vacate (e : XExpr) (l : List Idx)
  | fill (e : XExpr) (l : List Idx)
  | parent (e : XExpr)
deriving Repr, Inhabited

def XExpr.eval : XExpr → Option GridOrFilled
  | .lit g => some (.grid (.plain g))
  | .fromPos xs ys => some (.grid (.plain (Grid.fromPositions xs ys)))
  | .shift e dx dy => e.eval.map fun
      | .grid g => .grid (g.shift dx dy)
      | .filled f => .filled (f.shift dx dy)
  | .scale e sx sy => e.eval.map fun
      | .grid g => .grid (g.scale sx sy)
      | .filled f => .filled (f.scale sx sy)
  | .rep e xt yt xg yg => e.eval.bind fun
      | .grid g => (g.repeat_ xt yt xg yg).map .grid
      | .filled f => (f.repeat_ xt yt xg yg).map .filled
  | .sub e xi yi => e.eval.bind fun
      | .grid g => (g.getView xi yi).map .grid
      | .filled f => (f.getView xi yi).map .filled
  | .item e ix iy => e.eval.bind fun
      | .grid g => (g.getItem ix iy).map .grid
      | .filled f => (f.getItem ix iy).map .filled
  | .vacate e l => e.eval.map fun v => .filled (Filled.vacate v l)
  | .fill e l => e.eval.map fun v => .filled (Filled.fill v l)
  | .parent e => e.eval.bind fun
      | .grid _ => none            -- get_casted(FilledGrid) fails
      | .filled f => some (.grid f.parent)

end Shuttle
