import Shuttle.Model.Tracer
import Shuttle.Gen.TracerShape
/-!
# One tracer instance used for several traces (C15)

The instance state is the pair of fields `(trace, curr_pos)`; what `initialize` resets
is read from the regenerated `TracerShape` flags, so a tracer that forgets to reset a
field is expressible.  A history is a list of `run_trace` calls (operation sequences).
-/
namespace Shuttle

/-- `TraceInterpreter.initialize` -/
def TState.initialize (s : TState) : TState :=
  { trace := if Gen.TracerShape.initResetsTrace then [] else s.trace,
    cur := if Gen.TracerShape.initResetsCur then none else s.cur }

/-- one `run_trace` call on an instance in state `s`: the result and the state left
behind (also after a failure: the fields keep whatever the aborted run wrote) -/
def callOn (static : Sel → Bool) (s : TState) (ops : List Op) : Except TErr Path × TState :=
  let s0 := if Gen.TracerShape.runInitialises then s.initialize else s
  -- run, remembering the last state reached
  let rec go (s : TState) : List Op → Except TErr Path × TState
    | [] => (.ok s.trace, s)
    | o :: os =>
      match step static s o with
      | .error e => (.error e, s)
      | .ok s' => go s' os
  go s0 ops

/-- a whole history on one instance: the list of results -/
def runHistory (static : Sel → Bool) : TState → List (List Op) → List (Except TErr Path)
  | _, [] => []
  | s, ops :: rest =>
    let (r, s') := callOn static s ops
    r :: runHistory static s' rest

end Shuttle
