import Shuttle.Model.Layout
/-!
# Model of the library's architecture builders
(`stdlib/layouts/single_col_zone.py`, `two_col_zone.py`, `stdlib/spec.py`,
`gemini/base_spec.py`, `gemini/logical.py`)
-/
namespace Shuttle.StdLib
open Shuttle

/-- `tuple(repeat(v, n))`; a negative count gives the empty tuple -/
def rep (v : Rat) (n : Int) : List Rat := List.replicate n.toNat v

/-- `single_col_zone.get_spec(num_x, num_y, spacing)` -/
def singleZone (nx ny : Int) (s : Rat) : ArchSpec :=
  { layout := ⟨[("traps", ⟨rep s (nx - 1), rep s (ny - 1), some 0, some 0⟩)], ["traps"], ["traps"], ["traps"], []⟩,
    floatC := [], intC := [] }

/-- the deprecated `stdlib.spec.single_zone_spec` -/
def singleZoneOld (nx ny : Int) (s : Rat) : ArchSpec :=
  { layout := ⟨[("traps", ⟨rep s (nx - 1), rep s (ny - 1), some 0, some 0⟩)], ["traps"], ["traps"], ["traps"], []⟩,
    floatC := [], intC := [] }

/-- `sum(repeat((gs, s), n), ())` -/
def pairs (gs s : Rat) : Nat → List Rat
  | 0 => []
  | n + 1 => gs :: s :: pairs gs s n

/-- `range(start, stop, 2)` for `0 ≤ start` -/
def range2 (start stop : Int) : List Int :=
  (List.range ((stop - start + 1) / 2).toNat).map fun (k : Nat) => start + 2 * (k : Int)

def rangeI (n : Int) : List Int := (List.range n.toNat).map fun (k : Nat) => (k : Int)

/-- `two_col_zone.get_spec(num_x, num_y, spacing, gate_spacing)`; `none` when a view is
empty (ValueError from SubGrid) -/
def twoCol (nx ny : Int) (s gs : Rat) : Option ArchSpec := do
  let all : Grid := ⟨pairs gs s (nx - 1).toNat ++ [gs], rep s (ny - 1), some 0, some 0⟩
  let left ← all.subGrid (range2 0 (nx * 2)) (rangeI ny)
  let right ← all.subGrid (range2 1 (nx * 2)) (rangeI ny)
  some { layout := ⟨[("traps", all), ("left_traps", left), ("right_traps", right)], ["left_traps"], ["traps"], ["traps"], []⟩,
         floatC := [], intC := [] }

/-! ## Gemini -/

def sl (a b c : Option Int) : GIndex := .slice ⟨a, b, c⟩
def allSl : GIndex := sl none none none

structure GeminiBase where
  gateZone : GridV
  topRes : GridV
  botRes : GridV
  aom : GridV

/-- `get_base_spec()` geometry -/
def geminiBaseGrids : Option GeminiBase := do
  let rowSep : Rat := 10
  let colSep : Rat := 8
  let ally : Rat := 6
  let gateSp : Rat := 2
  let single := GridV.plain (Grid.fromPositions [0, gateSp] [0])
  let gate := (← single.repeat_ 17 5 colSep rowSep).shift (-81) (-20)
  let resCol := colSep + gateSp - ally
  let pair := GridV.plain (Grid.fromPositions [0, ally] [0])
  let res ← pair.repeat_ 17 19 resCol 4
  let top := res.shift (-81 - ally) (rowSep * 3)
  let bot := res.shift (-81 - ally) (-3 * rowSep - 4 * (19 - 1))
  let aom := (← gate.getItem (sl none none (some 2)) allSl).shift (-gateSp) 0
  some ⟨gate, top, bot, aom⟩

def geminiBase : Option ArchSpec := do
  let b ← geminiBaseGrids
  some { layout := ⟨[("gate_zone", b.gateZone.val), ("top_reservoir", b.topRes.val), ("bottom_reservoir", b.botRes.val)],
                    [], [], [], [("aom_sites", b.aom.val)]⟩,
         floatC := [("row_separation", 10), ("col_separation", 8), ("gate_spacing", 2)], intC := [] }

/-- `logical.get_spec()` -/
def geminiLogical : Option ArchSpec := do
  let b ← geminiBaseGrids
  let some' (i : Int) : Option Int := some i
  let left ← b.gateZone.getItem (sl none none (some' 2)) allSl
  let right ← b.gateZone.getItem (sl (some' 1) none (some' 2)) allSl
  let S ← b.topRes.getItem (sl (some' 4) (some' (4 + 7 * 4)) none) (sl (some' 8) (some' (8 + 5 * 2)) (some' 2))
  let M ← b.botRes.getItem (sl (some' 4) (some' (4 + 7 * 4)) none) (sl (some' 2) (some' (2 + 5 * 2)) (some' 2))
  let S0 ← S.getItem (sl none (some' 14) none) allSl
  let S1 ← S.getItem (sl (some' 14) none none) allSl
  let M0 ← M.getItem (sl none (some' 14) none) allSl
  let M1 ← M.getItem (sl (some' 14) none none) allSl
  let ev := sl none none (some' 2)
  let od := sl (some' 1) none (some' 2)
  let SL0 ← S0.getItem ev allSl
  let SR0 ← S0.getItem od allSl
  let SL1 ← S1.getItem ev allSl
  let SR1 ← S1.getItem od allSl
  let ML0 ← M0.getItem ev allSl
  let MR0 ← M0.getItem od allSl
  let ML1 ← M1.getItem ev allSl
  let MR1 ← M1.getItem od allSl
  let GL ← left.getItem (sl (some' 2) (some' 16) none) allSl
  let GR ← right.getItem (sl (some' 2) (some' 16) none) allSl
  let GL0 ← GL.getItem (sl none (some' 7) none) allSl
  let GR0 ← GR.getItem (sl none (some' 7) none) allSl
  let GL1 ← GL.getItem (sl (some' 7) (some' 14) none) allSl
  let GR1 ← GR.getItem (sl (some' 7) (some' 14) none) allSl
  let AOM0 ← b.aom.getItem (sl (some' 2) (some' 9) none) allSl
  let AOM1 ← b.aom.getItem (sl (some' 9) (some' 16) none) allSl
  some {
    layout := ⟨[("gate_zone", b.gateZone.val), ("top_reservoir", b.topRes.val), ("bottom_reservoir", b.botRes.val),
                ("left_gate_zone_sites", left.val), ("right_gate_zone_sites", right.val),
                ("GL_blocks", GL.val), ("GR_blocks", GR.val),
                ("GL0_block", GL0.val), ("GL1_block", GL1.val), ("GR0_block", GR0.val), ("GR1_block", GR1.val),
                ("SL0_block", SL0.val), ("SL1_block", SL1.val), ("SR0_block", SR0.val), ("SR1_block", SR1.val),
                ("ML0_block", ML0.val), ("ML1_block", ML1.val), ("MR0_block", MR0.val), ("MR1_block", MR1.val)],
               ["GL0_block", "GL1_block"], ["gate_zone"], ["GL0_block", "GL1_block", "GR0_block", "GR1_block"],
               [("aom_sites", b.aom.val), ("AOM0_block", AOM0.val), ("AOM1_block", AOM1.val)]⟩,
    floatC := [("row_separation", 10), ("col_separation", 8), ("gate_spacing", 2)],
    intC := [("logical_rows", GL0.val.numY), ("logical_cols", 2), ("code_size", 7)] }

end Shuttle.StdLib
