import Shuttle.Model.Reuse
/-!
# The tracer instance with object identity (C15, second half)

`Model/Reuse.lean` is value-based; this model adds what the second half of C15 is about:
list objects and action objects with identity, in-place mutation (`add_waypoint` mutates
the last action object; `append` mutates the trace list object) and what `run_trace`
hands out (a shallow copy of the list, or the list itself — regenerated flag).

A heap is two append-only tables: list objects (each a list of action ids) and action
objects.  `view` dereferences a list id to the path a caller sees through it.
-/
namespace Shuttle
open Gen.ActionTables (Tag)

structure HState where
  lists : List (List Nat)       -- list objects
  acts : List Action            -- action objects
  trace : Nat                   -- `self.trace` (a list id)
  cur : Option Grid             -- `self.curr_pos`
deriving Repr

/-- what a holder of list `lid` sees -/
def HState.view (s : HState) (lid : Nat) : List Action :=
  (s.lists.getD lid []).filterMap fun a => s.acts[a]?

/-- `TraceInterpreter.initialize`: a fresh list object when the code assigns a new list -/
def HState.initialize (s : HState) : HState :=
  let s1 := if Gen.TracerShape.initResetsTrace then { s with lists := s.lists ++ [[]], trace := s.lists.length } else s
  if Gen.TracerShape.initResetsCur then { s1 with cur := none } else s1

/-- one traced statement, on objects -/
def hstep (static : Sel → Bool) (s : HState) : Op → Except TErr HState
  | .setLoc g =>
    .ok { s with acts := s.acts ++ [.way [g]], lists := s.lists.modify s.trace (· ++ [s.acts.length]), cur := some g }
  | .move g =>
    match s.cur with
    | none => .error .notSet
    | some c =>
      match (s.lists.getD s.trace []).getLast? with
      | none => .error .assert_
      | some a =>
        match s.acts[a]? with
        | some (.way _) =>
          if c.shape ≠ g.shape then .error .shape
          else .ok { s with acts := s.acts.modify a (addWay g), cur := some g }      -- in-place `add_waypoint`
        | _ => .error .assert_
  | .turn on x y =>
    match s.cur with
    | none => .error .notSet
    | some c =>
      match recordedTag on (static x) (static y) x y with
      | none => .error .table
      | some t =>
        .ok { s with acts := s.acts ++ [.sw t x y, .way [c]],
                     lists := s.lists.modify s.trace (· ++ [s.acts.length, s.acts.length + 1]) }

def hrun (static : Sel → Bool) : HState → List Op → Except TErr HState × HState
  | s, [] => (.ok s, s)
  | s, o :: os =>
    match hstep static s o with
    | .error e => (.error e, s)
    | .ok s' => hrun static s' os

/-- one `run_trace` call: the id of the returned list (or the error) and the instance afterwards -/
def hcall (static : Sel → Bool) (s : HState) (ops : List Op) : Except TErr Nat × HState :=
  let s0 := if Gen.TracerShape.runInitialises then s.initialize else s
  match hrun static s0 ops with
  | (.error e, s') => (.error e, s')
  | (.ok _, s') =>
    if Gen.TracerShape.returnsCopy then
      (.ok s'.lists.length, { s' with lists := s'.lists ++ [s'.lists.getD s'.trace []] })   -- `self.trace.copy()`
    else (.ok s'.trace, s')

/-- a history of calls: the returned list ids and the final instance -/
def hhistory (static : Sel → Bool) : HState → List (List Op) → List (Except TErr Nat) × HState
  | s, [] => ([], s)
  | s, ops :: rest =>
    let (r, s') := hcall static s ops
    let (rs, s'') := hhistory static s' rest
    (r :: rs, s'')

def HState.fresh : HState := ⟨[[]], [], 0, none⟩

end Shuttle
