/-!
# Model of `bloqade.geometry.dialects.grid.types` (Grid / SubGrid) and of the
Python indexing conventions the shuttle code relies on.

The model computes what the Python computes: prefix sums for positions,
`sum(spacing[start:end])` with CPython slice clamping for sub-grids (so that the
behaviour on unsorted / negative index lists is reproduced, not idealised).
Coordinates are `Rat`; the harness only feeds dyadic values for which binary64
arithmetic is exact (DESIGN.md §2.4).
-/
namespace Shuttle

/-! ## Python list indexing and slicing -/

/-- `l[i]` with Python semantics (negative indices count from the end). -/
def pyIndex {α} (l : List α) (i : Int) : Option α :=
  let n : Int := l.length
  let j := if i < 0 then i + n else i
  if j < 0 ∨ j ≥ n then none else l[j.toNat]?

/-- CPython `PySlice_AdjustIndices` for one bound. -/
def adjustBound (len : Int) (step : Int) (b : Int) : Int :=
  if b < 0 then
    let b' := b + len
    if b' < 0 then (if step < 0 then -1 else 0) else b'
  else if b ≥ len then (if step < 0 then len - 1 else len)
  else b

/-- A Python `slice(start, stop, step)`. -/
structure PySlice where
  start : Option Int
  stop : Option Int
  step : Option Int
deriving DecidableEq, Repr, Inhabited

/-- arithmetic progression `start, start+step, …` of `n` terms -/
def progression (start step : Int) : Nat → List Int
  | 0 => []
  | n + 1 => start :: progression (start + step) step n

/-- `list(range(len)[s])`; `none` when the step is zero (Python raises ValueError). -/
def PySlice.indices (s : PySlice) (len : Nat) : Option (List Nat) :=
  let step := s.step.getD 1
  if step = 0 then none else
  let n : Int := len
  let start := match s.start with
    | none => if step < 0 then n - 1 else 0
    | some b => adjustBound n step b
  let stop := match s.stop with
    | none => if step < 0 then -1 else n
    | some b => adjustBound n step b
  let count : Nat :=
    if step > 0 then (if start < stop then ((stop - start - 1) / step + 1).toNat else 0)
    else (if stop < start then ((start - stop - 1) / (-step) + 1).toNat else 0)
  some ((progression start step count).map Int.toNat)

/-- `l[a:b]` (step 1), bounds optional. -/
def pySlice1 {α} (l : List α) (a b : Option Int) : List α :=
  let n : Int := l.length
  let start := match a with | none => 0 | some x => adjustBound n 1 x
  let stop := match b with | none => n | some x => adjustBound n 1 x
  (l.drop start.toNat).take (stop - start).toNat

def sumRat (l : List Rat) : Rat := l.foldl (· + ·) 0

/-! ## Grid -/

structure Grid where
  xSpacing : List Rat
  ySpacing : List Rat
  xInit : Option Rat
  yInit : Option Rat
deriving DecidableEq, Repr, Inhabited

namespace Grid

/-- positions along one axis: `init, init+s₀, init+s₀+s₁, …` -/
def axisPositions : Option Rat → List Rat → List Rat
  | none, _ => []
  | some p, [] => [p]
  | some p, s :: ss => p :: axisPositions (some (p + s)) ss

def xPositions (g : Grid) : List Rat := axisPositions g.xInit g.xSpacing
def yPositions (g : Grid) : List Rat := axisPositions g.yInit g.ySpacing

def numX (g : Grid) : Nat := match g.xInit with | none => 0 | some _ => g.xSpacing.length + 1
def numY (g : Grid) : Nat := match g.yInit with | none => 0 | some _ => g.ySpacing.length + 1
def shape (g : Grid) : Nat × Nat := (g.numX, g.numY)

/-- `Grid.positions`: the lexicographic product (x major). -/
def positions (g : Grid) : List (Rat × Rat) :=
  g.xPositions.flatMap fun x => g.yPositions.map fun y => (x, y)

def width (g : Grid) : Rat := sumRat g.xSpacing
def height (g : Grid) : Rat := sumRat g.ySpacing

def spacingOf : List Rat → List Rat
  | a :: b :: t => (b - a) :: spacingOf (b :: t)
  | _ => []

/-- `Grid.from_positions` -/
def fromPositions (xs ys : List Rat) : Grid :=
  ⟨spacingOf xs, spacingOf ys, xs.head?, ys.head?⟩

def shift (g : Grid) (dx dy : Rat) : Grid :=
  { g with xInit := g.xInit.map (· + dx), yInit := g.yInit.map (· + dy) }

def scale (g : Grid) (sx sy : Rat) : Grid :=
  { g with xSpacing := g.xSpacing.map (· * sx), ySpacing := g.ySpacing.map (· * sy) }

/-- `sum((sp + (gap,) for _ in range(times-1)), ()) + sp` -/
def repeatSpacing (sp : List Rat) (gap : Rat) : Nat → List Rat
  | 0 => sp            -- unreachable for times ≥ 1 (times-1 = 0 handled below)
  | 1 => sp
  | n + 1 => sp ++ gap :: repeatSpacing sp gap n

/-- `Grid.repeat`; `none` when a count is < 1 (ValueError). -/
def repeat_ (g : Grid) (xt yt : Int) (xgap ygap : Rat) : Option Grid :=
  if xt < 1 ∨ yt < 1 then none else
  some { g with xSpacing := repeatSpacing g.xSpacing xgap xt.toNat,
                ySpacing := repeatSpacing g.ySpacing ygap yt.toNat }

/-- spacings of a sub-grid: `sum(parent.spacing[start:end])` over consecutive index pairs -/
def subSpacing (sp : List Rat) : List Int → List Rat
  | a :: b :: t => sumRat (pySlice1 sp (some a) (some b)) :: subSpacing sp (b :: t)
  | _ => []

def subInit (init : Option Rat) (sp : List Rat) (idx : List Int) : Option Rat :=
  match init, idx with
  | some p, i :: _ => some (p + sumRat (pySlice1 sp none (some i)))
  | _, _ => none

/-- `SubGrid(parent, x_indices, y_indices)` as a plain grid value; `none` when an index
list is empty (ValueError). -/
def subGrid (g : Grid) (xi yi : List Int) : Option Grid :=
  if xi.isEmpty ∨ yi.isEmpty then none else
  some ⟨subSpacing g.xSpacing xi, subSpacing g.ySpacing yi,
        subInit g.xInit g.xSpacing xi, subInit g.yInit g.ySpacing yi⟩

end Grid

/-- An index as accepted by `Grid.__getitem__` / `get_indices`. -/
inductive GIndex where
  | int (i : Int)
  | slice (s : PySlice)
  | list (l : List Int)
deriving DecidableEq, Repr, Inhabited

/-- `get_indices(size, index)`; `none` on IndexError / zero step. -/
def getIndices (size : Nat) : GIndex → Option (List Int)
  | .int i =>
    let j := if i < 0 then i + size else i
    if j < 0 ∨ j ≥ size then none else some [j]
  | .slice s => (s.indices size).map (·.map Int.ofNat)
  | .list l => some l

/-- `grid[ix, iy]` -/
def Grid.getItem (g : Grid) (ix iy : GIndex) : Option Grid := do
  let xi ← getIndices (g.xSpacing.length + 1) ix
  let yi ← getIndices (g.ySpacing.length + 1) iy
  g.subGrid xi yi

/-! ## Grid values that remember being a `SubGrid`

`SubGrid.get_view` re-indexes through the parent (`self.parent.get_view([self.x_indices[i] …])`),
so a view of a view is not the same computation as a view of an equal plain grid.  A
`SubGrid`'s parent is always a plain `Grid` (views are flattened on creation);
`shift`/`scale`/`repeat` of a `SubGrid` build a plain `Grid` from its fields. -/
structure GridV where
  val : Grid
  view : Option (Grid × List Int × List Int) := none
deriving DecidableEq, Repr, Inhabited

namespace GridV

def plain (g : Grid) : GridV := ⟨g, none⟩

/-- `g.get_view(xi, yi)`; `none` on IndexError (re-indexing) or ValueError (empty). -/
def getView (g : GridV) (xi yi : List Int) : Option GridV :=
  match g.view with
  | none => (g.val.subGrid xi yi).map fun v => ⟨v, some (g.val, xi, yi)⟩
  | some (p, pxi, pyi) => do
    let xi' ← xi.mapM (pyIndex pxi)
    let yi' ← yi.mapM (pyIndex pyi)
    let v ← p.subGrid xi' yi'
    some ⟨v, some (p, xi', yi')⟩

/-- `g[ix, iy]` (sizes are taken from the value's own spacing, as `__getitem__` does) -/
def getItem (g : GridV) (ix iy : GIndex) : Option GridV := do
  let xi ← getIndices (g.val.xSpacing.length + 1) ix
  let yi ← getIndices (g.val.ySpacing.length + 1) iy
  g.getView xi yi

def shift (g : GridV) (dx dy : Rat) : GridV := plain (g.val.shift dx dy)
def scale (g : GridV) (sx sy : Rat) : GridV := plain (g.val.scale sx sy)
def repeat_ (g : GridV) (xt yt : Int) (xg yg : Rat) : Option GridV :=
  (g.val.repeat_ xt yt xg yg).map plain

end GridV

end Shuttle
