import Shuttle.Model.Tracer
/-!
# Model of `inv()` / `reverse_path` (taskgen.py:17-121) and of schedule-level
reversal (`ScheduleInterpreter.reverse`, the `reverse` branch of the `gen`s).

`inv` is driven by the table regenerated from the eight `inv` methods.
-/
namespace Shuttle
open Gen.ActionTables (Tag)

/-- `a.inv()`; `none` when the regenerated table has no usable entry. -/
def Action.inv : Action → Option Action
  | .way ws => if Gen.ActionTables.wayInvReverses then some (.way ws.reverse) else none
  | .sw t x y =>
    match Gen.ActionTables.inv.lookup t with
    | some (t', xx, yy, xy, yx) =>
      -- which stored selector feeds which constructor argument
      let x' := if xx then some x else if xy then some y else none
      let y' := if yy then some y else if yx then some x else none
      match x', y' with
      | some x', some y' => some (.sw t' x' y')
      | _, _ => none
    | none => none

/-- `reverse_path(path) = [a.inv() for a in reversed(path)]` -/
def reversePath (p : Path) : Option Path := p.reverse.mapM Action.inv

/-- the intended meaning of `inv`, used by the specification side -/
def Action.flip : Action → Action
  | .way ws => .way ws.reverse
  | .sw t x y => .sw ⟨!t.on, t.xsl, t.ysl⟩ x y

def flipPath (p : Path) : Path := p.reverse.map Action.flip

/-! ## schedule level -/

/-- a device task value: `DeviceFunction` or `ReverseDeviceFunction` wrapping one -/
inductive DevTask (F : Type) where
  | fwd (f : F)
  | rev (f : F)
deriving DecidableEq, Repr

/-- `ScheduleInterpreter.reverse`: wrap a DeviceFunction, unwrap a ReverseDeviceFunction -/
def DevTask.reverse {F} : DevTask F → DevTask F
  | .fwd f => .rev f
  | .rev f => .fwd f

/-- the `gen` implementations: trace the kernel, reverse the path when the task is a
`ReverseDeviceFunction` (`trace f args` abstracts `TraceInterpreter.run_trace`). -/
def genPath {F A} (trace : F → A → Option Path) (t : DevTask F) (a : A) : Option Path :=
  match t with
  | .fwd f => trace f a
  | .rev f => (trace f a).bind reversePath

end Shuttle
