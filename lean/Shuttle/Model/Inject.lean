import Shuttle.Model.Lang
import Shuttle.Gen.InjectKinds
/-!
# Model of `InjectSpecRule` / `InjectSpecsPass` on the program language (C06)

`inject` replaces every spec lookup whose kind the rule handles and whose name the spec
defines by the constant the spec holds — in every function of the program (the pass walks
the call graph; callees are cloned, which matters for C07, not here).
-/
namespace Shuttle.Lang

/-- which lookup kinds the rule handles, and the spec it injects -/
structure InjCfg where
  handles : LookKind → Bool
  look : LookKind → String → Option Val

mutual
def injE (cfg : InjCfg) : Expr → Expr
  | .lit v => .lit v
  | .var x => .var x
  | .prim op args => .prim op (injEs cfg args)
  | .look k n =>
    if cfg.handles k then
      match cfg.look k n with
      | some v => .lit v
      | none => .look k n
    else .look k n
  | .call fn args => .call fn (injEs cfg args)
  | .callV f args => .callV (injE cfg f) (injEs cfg args)
  | .lam fn => .lam fn
def injEs (cfg : InjCfg) : List Expr → List Expr
  | [] => []
  | e :: es => injE cfg e :: injEs cfg es
end

mutual
def injS (cfg : InjCfg) : Stmt → Stmt
  | .assign x e => .assign x (injE cfg e)
  | .exprS e => .exprS (injE cfg e)
  | .eff op args => .eff op (injEs cfg args)
  | .devcall f args kw => .devcall (injE cfg f) (injEs cfg args) kw
  | .par body => .par (injSs cfg body)
  | .ifS c t e => .ifS (injE cfg c) (injSs cfg t) (injSs cfg e)
  | .forS x a b st body => .forS x (injE cfg a) (injE cfg b) (injE cfg st) (injSs cfg body)
  | .assertS c => .assertS (injE cfg c)
  | .ret e => .ret (injE cfg e)
def injSs (cfg : InjCfg) : List Stmt → List Stmt
  | [] => []
  | s :: ss => injS cfg s :: injSs cfg ss
end

def injF (cfg : InjCfg) (f : Fn) : Fn := { f with body := injSs cfg f.body }

/-- the compiled program: every function rewritten -/
def injProg (cfg : InjCfg) (fns : List Fn) : List Fn := fns.map (injF cfg)

def injT (cfg : InjCfg) : Task → Task
  | .expr e => .expr (injE cfg e)
  | .exprs es => .exprs (injEs cfg es)
  | .stmt s => .stmt (injS cfg s)
  | .block ss => .block (injSs cfg ss)
  | .loop x vals body => .loop x vals (injSs cfg body)
  | .callFn n args cenv => .callFn n args cenv
  | .devCalls ss => .devCalls (injSs cfg ss)

end Shuttle.Lang
