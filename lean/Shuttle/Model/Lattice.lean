/-!
# Model of `bloqade.shuttle.analysis.zone.lattice`

Each `is_subseteq` of lattice.py is one group of equations of `le`; `join`/`meet`
are kirin's `SimpleJoinMixin`/`SimpleMeetMixin` except for the `InvalidSpecId.join`
override.  Python equality of the (dataclass) lattice elements is structural
equality here.
-/
namespace Shuttle

inductive Zone where
  | notZone                       -- NotZone      (bottom)
  | unknown                       -- UnknownZone  (top)
  | invalid                       -- InvalidZone
  | invalidId (s : String)        -- InvalidSpecId
  | spec (s : String)             -- SpecZone
  | item (z i : Zone)             -- GetItemOfZone
  | sub (z x y : Zone)            -- GetSubGridOfZone
deriving DecidableEq, Repr, Inhabited

namespace Zone

def bottom : Zone := notZone
def top : Zone := unknown

/-- `a.is_subseteq(b)`; one group of equations per class of lattice.py -/
def le : Zone → Zone → Bool
  | notZone, _ => true                          -- NotZone.is_subseteq
  | unknown, unknown => true                    -- UnknownZone.is_subseteq
  | invalid, unknown => true                    -- InvalidZone.is_subseteq
  | invalid, invalid => true
  | invalidId _, unknown => true                -- InvalidSpecId.is_subseteq
  | invalidId _, invalid => true
  | invalidId s, invalidId t => s == t
  | spec _, unknown => true                     -- SpecZone.is_subseteq
  | spec s, spec t => s == t
  | item _ _, unknown => true                   -- GetItemOfZone.is_subseteq
  | item z i, item z' i' => le z z' && le i i'
  | sub _ _ _, unknown => true                  -- GetSubGridOfZone.is_subseteq
  | sub z x y, sub z' x' y' => le z z' && le x x' && le y y'
  | _, _ => false

/-- kirin `SimpleJoinMixin.join` -/
def simpleJoin (a b : Zone) : Zone :=
  if le a b then b else if le b a then a else top

/-- kirin `SimpleMeetMixin.meet` -/
def meet (a b : Zone) : Zone :=
  if le a b then a else if le b a then b else bottom

/-- `a.join(b)`; only `InvalidSpecId` overrides the mixin. -/
def join (a b : Zone) : Zone :=
  match a, b with
  | invalidId s, invalidId t => if s == t then a else invalid
  | _, _ => simpleJoin a b

def depth : Zone → Nat
  | item z i => 1 + max z.depth i.depth
  | sub z x y => 1 + max z.depth (max x.depth y.depth)
  | _ => 0

end Zone
end Shuttle
