import Shuttle.Model.Action
/-!
# Model of `TraceInterpreter` / `ActionTracer` (`codegen/taskgen.py:130-224`)

State = the two instance fields `trace` and `curr_pos`.  Each `step*` mirrors one
`@impl` method, including the order in which the code appends and checks
(`move` appends the waypoint *before* it compares shapes).  The class of a recorded
switch is looked up the way the code obtains it: the desugar table picks the statement
class from the *static* slice-ness `(sx, sy)` that kirin's type inference attributes to
the operands, and the regenerated `tracer` table says which action class the tracer
records for that statement class and the *run-time* form of the selectors.
-/
namespace Shuttle
open Gen.ActionTables (Tag)

structure TState where
  trace : List Action
  cur : Option Grid
deriving Repr, DecidableEq

inductive TErr where
  | notSet      -- InterpreterError: position of AOD not set
  | shape       -- InterpreterError: different shapes
  | assert_     -- AssertionError: trace[-1] is not a waypoint segment
  | table       -- dispatch table has no entry (extraction failed)
deriving DecidableEq, Repr

def TState.init : TState := ⟨[], none⟩

/-- statement class chosen by `DesugarTurnOn/OffRewrite.get_stmt_type` -/
def desugarTag (on sx sy : Bool) : Option Tag := Gen.ActionTables.desugar.lookup (on, sx, sy)

/-- action class recorded by `construct_intensity_actions` -/
def tracerTag (stmt : Tag) (rx ry : Bool) : Option Tag := Gen.ActionTables.tracer.lookup (stmt, rx, ry)

/-- the tag the pipeline records for a source-level `turn_on/off(x, y)` whose operands
were statically classified `(sx, sy)` -/
def recordedTag (on sx sy : Bool) (x y : Sel) : Option Tag :=
  (desugarTag on sx sy).bind fun st => tracerTag st x.isSlice y.isSlice

/-- replace the last element -/
def modifyLast {α} (f : α → α) : List α → List α
  | [] => []
  | [a] => [f a]
  | a :: b :: t => a :: modifyLast f (b :: t)

def addWay (g : Grid) : Action → Action
  | .way ws => .way (ws ++ [g])
  | a => a

/-- `ActionTracer.set` -/
def stepSet (s : TState) (g : Grid) : Except TErr TState :=
  .ok { trace := s.trace ++ [.way [g]], cur := some g }

/-- `ActionTracer.move` -/
def stepMove (s : TState) (g : Grid) : Except TErr TState :=
  match s.cur with
  | none => .error .notSet
  | some c =>
    match s.trace.getLast? with
    | some (.way _) =>
      -- add_waypoint happens first; the shape check then aborts the whole trace
      if c.shape ≠ g.shape then .error .shape
      else .ok { trace := modifyLast (addWay g) s.trace, cur := some g }
    | _ => .error .assert_

/-- `ActionTracer.construct_intensity_actions`; `(sx, sy)` = static classification -/
def stepTurn (s : TState) (on sx sy : Bool) (x y : Sel) : Except TErr TState :=
  match s.cur with
  | none => .error .notSet
  | some c =>
    match recordedTag on sx sy x y with
    | none => .error .table
    | some t => .ok { s with trace := s.trace ++ [.sw t x y, .way [c]] }

/-- one kernel operation; the static classification of a switch is a parameter -/
def step (static : Sel → Bool) (s : TState) : Op → Except TErr TState
  | .setLoc g => stepSet s g
  | .move g => stepMove s g
  | .turn on x y => stepTurn s on (static x) (static y) x y

def run (static : Sel → Bool) : TState → List Op → Except TErr TState
  | s, [] => .ok s
  | s, o :: os =>
    match step static s o with
    | .error e => .error e
    | .ok s' => run static s' os

/-- `TraceInterpreter.run_trace` on a fresh instance: the returned path, or the error. -/
def runTrace (static : Sel → Bool) (ops : List Op) : Except TErr Path :=
  (run static .init ops).map (·.trace)

/-! ## Reference AOD semantics (written independently of the tracer's data layout)

Closed actions so far, plus the open waypoint segment.  `none` = no `set_loc` yet. -/

structure RState where
  done : List Action
  seg : List Grid
deriving Repr, DecidableEq

def refTag (on : Bool) (x y : Sel) : Tag := ⟨on, x.isSlice, y.isSlice⟩

/-- outer `none` = error -/
def rstep : Option RState → Op → Option (Option RState)
  | none, .setLoc g => some (some ⟨[], [g]⟩)
  | none, _ => none
  | some r, .setLoc g => some (some ⟨r.done ++ [.way r.seg], [g]⟩)
  | some r, .turn on x y =>
    match r.seg.getLast? with
    | none => none
    | some c => some (some ⟨r.done ++ [.way r.seg, .sw (refTag on x y) x y], [c]⟩)
  | some r, .move g =>
    match r.seg.getLast? with
    | none => none
    | some c => if c.shape ≠ g.shape then none else some (some ⟨r.done, r.seg ++ [g]⟩)

def rrun : Option RState → List Op → Option (Option RState)
  | r, [] => some r
  | r, o :: os =>
    match rstep r o with
    | none => none
    | some r' => rrun r' os

def rout : Option RState → Path
  | none => []
  | some r => r.done ++ [.way r.seg]

/-- the reference AOD model: the path for an operation sequence, or `none` (error) -/
def refPath (ops : List Op) : Option Path := (rrun none ops).map rout

/-! ## Well-formedness of a path (C11) -/

def sameShape : List Grid → Bool
  | [] => true
  | g :: t => t.all fun h => h.shape == g.shape

def segOK (ws : List Grid) : Bool := !ws.isEmpty && sameShape ws

/-- Recogniser state while reading a path front to back. -/
inductive WSt where
  | start                      -- nothing read yet
  | seg (s : List Grid)        -- last thing read: a (valid) waypoint segment
  | sw (s : List Grid)         -- last thing read: a switch that followed segment `s`
  | bad
deriving DecidableEq, Repr

/-- One action of the path.  Every segment must be non-empty and of a single shape; a
switch must be preceded and followed by a segment, and those two segments must meet at
one position (last waypoint of the one = first waypoint of the other), which is where the
switch happens.  Consecutive segments without a switch are allowed (each `set_loc`
opens a new segment). -/
def wstep : WSt → Action → WSt
  | .start, .way ws => if segOK ws then .seg ws else .bad
  | .seg _, .way ws => if segOK ws then .seg ws else .bad
  | .seg s, .sw .. => .sw s
  | .sw s, .way ws => if segOK ws && s.getLast? == ws.head? then .seg ws else .bad
  | _, _ => .bad

def WSt.accept : WSt → Bool
  | .start => true      -- the empty path
  | .seg _ => true      -- ends with a segment
  | _ => false

/-- C11's predicate on a whole path: begins and ends with a segment (or is empty), only
segments and switches, segments non-empty and single-shaped, segments around a switch
meet at the switching position. -/
def WF (p : Path) : Bool := (p.foldl wstep .start).accept

end Shuttle
