import Shuttle.Model.Lattice
import Shuttle.Model.Grid
/-!
# Model of the zone analysis (`analysis/zone/analysis.py`, `impl/spec.py`, `impl/grid.py`,
`impl/py.py`) on straight-line code

The analysis only has method tables for four statement kinds and a fallback; control-flow
statements fall to the fallback, so hints exist for the statements of the kernel's top-level
block only.  SSA value `i` is the result of statement `i`.
-/
namespace Shuttle.ZoneAI
open Shuttle

/-- the statements the analysis distinguishes -/
inductive ZStmt where
  | trap (name : String)                          -- spec.get_static_trap(zone_id=name)
  | constGrid (g : Grid)                          -- py.Constant holding a plain Grid (spec folded in)
  | constSub (parent : Grid) (xi yi : List Int)   -- py.Constant holding a SubGrid
  | constOther                                    -- py.Constant holding anything else
  | subGrid (v : Nat) (xi yi : List Int)          -- grid.sub_grid(v, xi, yi)
  | getItem (v : Nat) (ix iy : GIndex)            -- v[ix, iy]  (py.indexing.GetItem with a constant index)
  | gridOp (v : Nat) (dx dy : Rat)                -- any other statement with a grid-typed result (modelled: shift)
  | other                                         -- any statement with a non-grid result
deriving Repr, Inhabited

/-- the spec as the analysis sees it -/
structure ZSpec where
  staticTraps : List (String × Grid)
  zoneIndex : List (Grid × String)     -- `Layout._zone_to_id` (static traps and special grids)

/-- `ZoneAnalysis.get_grid_lattice` -/
def gridLattice (sp : ZSpec) (g : Grid) : Zone :=
  match sp.zoneIndex.lookup g with
  | some n => .spec n
  | none => .unknown

def isInvalid : Zone → Bool
  | .invalid => true
  | .invalidId _ => true
  | _ => false

/-- abstract transfer function; `env[i]` = abstract value of SSA value `i` -/
def absStep (sp : ZSpec) (env : List Zone) : ZStmt → Zone
  | .trap n => if (sp.staticTraps.lookup n).isSome then .spec n else .invalidId n
  | .constGrid g => gridLattice sp g
  | .constSub p _ _ => .sub (gridLattice sp p) .notZone .notZone
  | .constOther => .notZone
  | .subGrid v _ _ =>
    let z := env.getD v .notZone
    if isInvalid z then .invalid else .sub z .notZone .notZone
  | .getItem v _ _ =>
    let z := env.getD v .notZone
    if isInvalid z then .invalid else .item z .notZone
  | .gridOp _ _ _ => .unknown          -- eval_stmt_fallback: grid-typed result → top
  | .other => .notZone                 -- eval_stmt_fallback: anything else → bottom

def absRun (sp : ZSpec) : List Zone → List ZStmt → List Zone
  | env, [] => env
  | env, s :: ss => absRun sp (env ++ [absStep sp env s]) ss

/-- the analysis of a straight-line block -/
def analyse (sp : ZSpec) (p : List ZStmt) : List Zone := absRun sp [] p

/-! ## concrete semantics -/

inductive CVal where
  | grid (g : GridV)
  | other
deriving Repr, Inhabited

/-- `none` = the statement raises (nothing after it is computed) -/
def conStep (sp : ZSpec) (env : List CVal) : ZStmt → Option CVal
  | .trap n => (sp.staticTraps.lookup n).map fun g => .grid (.plain g)
  | .constGrid g => some (.grid (.plain g))
  | .constSub p xi yi => (GridV.getView (.plain p) xi yi).map .grid
  | .constOther => some .other
  | .subGrid v xi yi => match env[v]? with
    | some (.grid g) => (g.getView xi yi).map .grid
    | _ => none
  | .getItem v ix iy => match env[v]? with
    | some (.grid g) => (g.getItem ix iy).map .grid
    | _ => none
  | .gridOp v dx dy => match env[v]? with
    | some (.grid g) => some (.grid (g.shift dx dy))
    | _ => none
  | .other => some .other

/-- run until the first statement that raises; returns the values computed so far -/
def conRun (sp : ZSpec) : List CVal → List ZStmt → List CVal
  | env, [] => env
  | env, s :: ss => match conStep sp env s with
    | some v => conRun sp (env ++ [v]) ss
    | none => env

/-- the named zone an abstract value attributes its value to (as the zone itself or as a
view / sub-grid / item of it) -/
def claims : Zone → Option String
  | .spec n => some n
  | .sub z _ _ => claims z
  | .item z _ => claims z
  | _ => none

end Shuttle.ZoneAI
