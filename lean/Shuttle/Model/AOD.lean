import Shuttle.Model.Gen3
/-!
# An atom-level simulator of the crossed AOD (the physics oracle of C08)

Fixed here, once: a spot exists at `(xs[i], ys[j])` for every pair of active x / y tones
(the semantics the repository's own renderer uses).  Picking happens only from occupied
trap sites, releasing only onto vacant trap sites of the layout, tweezers never jump
while holding atoms, every grid of a path has the shape given by the path's tone lists.
Tone on/off state persists across played paths per tone *id*.
-/
namespace Shuttle.AOD
open Shuttle

abbrev Site := Rat × Rat
abbrev Spot := Int × Int          -- (x tone id, y tone id)

structure State where
  occ : List Site                 -- occupied trap sites
  held : List (Spot × Site)       -- atoms in tweezers: spot ↦ current position
  X : List Int                    -- active x tone ids
  Y : List Int                    -- active y tone ids
deriving Repr, DecidableEq

inductive Reject where
  | shape          -- a grid's shape differs from (len x_tones, len y_tones)
  | jump           -- tweezers would jump while holding atoms
  | pickVacant     -- a new spot is not on an occupied trap site
  | dropBad        -- a released atom is not over a vacant trap site of the layout
  | selector       -- selector out of range / malformed path
  | collide        -- two atoms at one place
deriving Repr, DecidableEq

/-- tone ids selected by a selector from a tone list -/
def select (tones : List Int) : Sel → Option (List Int)
  | .slice s => (s.indices tones.length).map fun idx => idx.filterMap fun i => tones[i]?
  | .list l => l.mapM fun i => pyIndex tones i

/-- position of spot `(xid, yid)` on grid `g` of a path with tones `xt`, `yt` -/
def spotPos (xt yt : List Int) (g : Grid) (s : Spot) : Option Site := do
  let i ← xt.idxOf? s.1
  let j ← yt.idxOf? s.2
  let x ← g.xPositions[i]?
  let y ← g.yPositions[j]?
  some (x, y)

def shapeOK (xt yt : List Int) (g : Grid) : Bool := g.numX == xt.length && g.numY == yt.length

/-- move every held atom to its spot's position on `g` -/
def carry (xt yt : List Int) (g : Grid) (held : List (Spot × Site)) : Option (List (Spot × Site)) :=
  held.mapM fun h => (spotPos xt yt g h.1).map fun p => (h.1, p)

def cross (X Y : List Int) : List Spot := X.flatMap fun x => Y.map fun y => (x, y)

def dedup (l : List Int) : List Int := l.foldl (fun acc a => if a ∈ acc then acc else acc ++ [a]) []

/-- pick the atoms under the new spots -/
def pickAll (xt yt : List Int) (g : Grid) : List Spot → State → Except Reject State
  | [], s => .ok s
  | sp :: rest, s =>
    match spotPos xt yt g sp with
    | none => .error .selector
    | some p =>
      if p ∈ s.occ then
        if (s.held.any fun h => h.2 == p) then .error .collide
        else pickAll xt yt g rest { s with occ := s.occ.erase p, held := s.held ++ [(sp, p)] }
      else .error .pickVacant

/-- release the atoms of the spots that go off -/
def dropAll (sites : List Site) : List (Spot × Site) → State → Except Reject State
  | [], s => .ok s
  | (sp, p) :: rest, s =>
    if p ∈ sites ∧ p ∉ s.occ ∧ (sp, p) ∈ s.held then
      dropAll sites rest { s with occ := s.occ ++ [p], held := s.held.erase (sp, p) }
    else .error .dropBad

/-- one action of a path; `cur` = current waypoint grid -/
def stepAction (sites : List Site) (xt yt : List Int) (s : State) (cur : Option Grid) :
    Action → Except Reject (State × Option Grid)
  | .way ws =>
    if !(ws.all (shapeOK xt yt)) then .error .shape else
    match ws with
    | [] => .error .selector
    | g0 :: _ =>
      -- no jump: the held atoms must already be where the first waypoint puts their spots
      match carry xt yt g0 s.held with
      | none => .error .jump
      | some h0 =>
        if h0 != s.held then .error .jump else
        match ws.getLast? with
        | none => .error .selector
        | some gl =>
          match carry xt yt gl s.held with
          | none => .error .jump
          | some h' => .ok ({ s with held := h' }, some gl)
  | .sw t x y =>
    match cur with
    | none => .error .selector
    | some g =>
      match select xt x, select yt y with
      | some xs, some ys =>
        if t.on then
          let X' := dedup (s.X ++ xs)
          let Y' := dedup (s.Y ++ ys)
          let newSpots := (cross X' Y').filter fun sp =>
            sp.1 ∈ xt && sp.2 ∈ yt && !(s.held.any fun h => h.1 == sp)
          match pickAll xt yt g newSpots { s with X := X', Y := Y' } with
          | .ok s' => .ok (s', cur)
          | .error e => .error e
        else
          let X' := s.X.filter (· ∉ xs)
          let Y' := s.Y.filter (· ∉ ys)
          let off := s.held.filter fun h => !(h.1.1 ∈ X' && h.1.2 ∈ Y')
          match dropAll sites off { s with X := X', Y := Y' } with
          | .ok s' => .ok (s', cur)
          | .error e => .error e
      | _, _ => .error .selector

def runActions (sites : List Site) (xt yt : List Int) : State → Option Grid → List Action → Except Reject State
  | s, _, [] => .ok s
  | s, cur, a :: rest =>
    match stepAction sites xt yt s cur a with
    | .ok (s', cur') => runActions sites xt yt s' cur' rest
    | .error e => .error e

/-- play one path -/
def playPath (sites : List Site) (s : State) (p : PathVal) : Except Reject State :=
  runActions sites p.xTones p.yTones s none p.path

/-- play a sequence of paths (the events of a move, in order) -/
def playAll (sites : List Site) : State → List PathVal → Except Reject State
  | s, [] => .ok s
  | s, p :: ps => match playPath sites s p with
    | .ok s' => playAll sites s' ps
    | .error e => .error e

def State.init (occ : List Site) : State := ⟨occ, [], [], []⟩

/-- number of atoms in the system -/
def State.atoms (s : State) : Nat := s.occ.length + s.held.length

end Shuttle.AOD
