import Lean
/-!
Audit of a property module, run as `lake env lean --run Audit.lean Shuttle.Props.C18`.

Loads the compiled module, enumerates every theorem whose name lies in the
namespace of the same name, and prints for each the axioms it depends on
(`Lean.collectAxioms`, what `#print axioms` uses).  Output (one line each):

    THEOREM <name> AXIOMS <a1,a2,...>

The caller counts the theorems (= obligations discharged: they are in a
compiled .olean, so the kernel accepted them) and rejects any axiom outside
{propext, Classical.choice, Quot.sound}.
-/
open Lean

unsafe def main (args : List String) : IO UInt32 := do
  let some modStr := args.head? | do IO.eprintln "usage: Audit <module>"; return 2
  let mod := modStr.toName
  initSearchPath (← findSysroot)
  unsafe enableInitializersExecution
  let env ← importModules #[{ module := mod }] {} (loadExts := true)
  let mut n := 0
  let some idx := env.getModuleIdx? mod | do IO.eprintln "module not found"; return 2
  let names := env.header.moduleData[idx.toNat]!.constNames
  for c in names do
    if mod.isPrefixOf c && !c.isInternalDetail then
      if let some (.thmInfo _) := env.find? c then
        let (axs, _) ← (collectAxioms c : CoreM _).toIO
          { fileName := "<audit>", fileMap := default } { env := env }
        let axs := axs.toList.map toString
        IO.println s!"THEOREM {c} AXIOMS {",".intercalate axs}"
        n := n + 1
  IO.println s!"COUNT {n}"
  return 0
