"""S-expression wire format shared with lean/Shuttle/Util/Sexp.lean."""
from fractions import Fraction


def sx(v) -> str:
    """Render a nested Python value as an S-expression.

    str -> atom (must not contain whitespace/parens), bool -> T/F, None -> _,
    int -> decimal, Fraction -> n or n/d, float -> exact fraction,
    list/tuple -> list.
    """
    if v is None:
        return "_"
    if v is True:
        return "T"
    if v is False:
        return "F"
    if isinstance(v, int):
        return str(v)
    if isinstance(v, float):
        return sx(Fraction(v))
    if isinstance(v, Fraction):
        return str(v.numerator) if v.denominator == 1 else f"{v.numerator}/{v.denominator}"
    if isinstance(v, str):
        assert v and not any(c in v for c in " ()\t\n"), repr(v)
        return v
    if isinstance(v, (list, tuple)):
        return "(" + " ".join(sx(x) for x in v) + ")"
    raise TypeError(f"cannot render {type(v)}: {v!r}")


def parse(s: str):
    """Parse one S-expression into nested lists of str atoms."""
    toks = s.replace("(", " ( ").replace(")", " ) ").split()
    stack = [[]]
    for t in toks:
        if t == "(":
            stack.append([])
        elif t == ")":
            top = stack.pop()
            stack[-1].append(top)
        else:
            stack[-1].append(t)
    assert len(stack) == 1 and len(stack[0]) == 1, s
    return stack[0][0]


def frac(x) -> Fraction:
    """Exact conversion of a coordinate; refuses non-dyadic surprises."""
    f = Fraction(x)
    d = f.denominator
    if d & (d - 1) != 0 or d > (1 << 20):
        raise ValueError(f"non-dyadic coordinate {x!r}")
    return f
