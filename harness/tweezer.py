"""Generated tweezer kernels: a small AST, its rendering as real Python source for the
`@tweezer` decorator, and its flattening to the operation sequence the source denotes
(grid operands stay *expressions*, evaluated by the Lean grid model).

AST (nested tuples)
  int expr   ('i', n) | ('v', x) | ('add', a, b) | ('mul', a, b)
  float expr ('f', Fraction) | ('imulf', intexpr, Fraction)
  grid expr  ('gv', x) | ('from', [q..], [q..]) | ('shift', g, fx, fy) | ('scale', g, fx, fy)
             | ('sub', g, [intexpr..], [intexpr..]) | ('item', g, ix, iy) | ('trap', zone)
     index   ('i', n) | ('sl', a, b, c)
  selector   ('li', [intexpr..]) | ('sl', a, b, c) | ('ALL',) | ('sv', x)
  cond       ('lt', a, b) | ('eq', a, b) | ('bv', x)
  stmt       ('set', g) | ('move', g) | ('turn', on, sx, sy) | ('if', c, then, else)
             | ('for', x, start, stop, body) | ('gassign', x, g) | ('iassign', x, e)
             | ('call', kernel_name, [arg exprs]) | ('assert', c)
  kernel     {'name', 'params': [(name, kind, annotation)], 'body': [stmt]}
"""
from __future__ import annotations

import importlib.util
import itertools
import os
import sys
import tempfile
from fractions import Fraction

from .sexp import frac, sx

PRELUDE = """from typing import Any
from bloqade.geometry.dialects import grid
from kirin.dialects import ilist
from bloqade.shuttle import action, filled, spec
from bloqade.shuttle.prelude import tweezer
from harness import tweezer as _TW

"""

_counter = itertools.count()
_tmpdir = None


def load_source(src: str, name_hint: str = "gen"):
    """Write `src` to a real file (kirin's lowering needs inspect.getsource) and import it."""
    global _tmpdir
    if _tmpdir is None:
        _tmpdir = tempfile.mkdtemp(prefix="verif_kernels_")
    name = f"vk_{os.getpid()}_{name_hint}_{next(_counter)}"
    path = os.path.join(_tmpdir, name + ".py")
    with open(path, "w") as f:
        f.write(src)
    spec_ = importlib.util.spec_from_file_location(name, path)
    mod = importlib.util.module_from_spec(spec_)
    sys.modules[name] = mod
    try:
        spec_.loader.exec_module(mod)
    finally:
        sys.modules.pop(name, None)
        try:
            os.unlink(path)
        except OSError:
            pass
    return mod


# --------------------------------------------------------------------------- source
def flt(q) -> str:
    q = Fraction(q)
    return repr(float(q))


# constants every tweezer-level spec defines (two of them zero: a present constant whose value is falsy)
INT_CONSTS = {"n0": 0, "n2": 2}
FLOAT_CONSTS = {"f0": Fraction(0), "fh": Fraction(1, 2)}


def src_int(e) -> str:
    k = e[0]
    if k == "ic":
        return f'spec.get_int_constant(constant_id="{e[1]}")'
    if k == "i":
        return str(e[1]) if e[1] >= 0 else f"({e[1]})"
    if k == "v":
        return e[1]
    if k == "add":
        return f"({src_int(e[1])} + {src_int(e[2])})"
    if k == "mul":
        return f"({src_int(e[1])} * {src_int(e[2])})"
    raise ValueError(e)


def src_float(e) -> str:
    if e[0] == "fc":
        return f'spec.get_float_constant(constant_id="{e[1]}")'
    if e[0] == "f":
        return flt(e[1])
    if e[0] == "imulf":
        return f"({flt(e[2])} * {src_int(e[1])})"
    raise ValueError(e)


def src_slice(s) -> str:
    a, b, c = s[1], s[2], s[3]
    return f"slice({a}, {b}, {c})"


def src_index(ix) -> str:
    if ix[0] == "i":
        return str(ix[1])
    a, b, c = ix[1], ix[2], ix[3]
    r = ("" if a is None else str(a)) + ":" + ("" if b is None else str(b))
    if c is not None:
        r += ":" + str(c)
    return r


def src_grid(g) -> str:
    k = g[0]
    if k == "gv":
        return g[1]
    if k == "from":
        return f"grid.from_positions([{', '.join(flt(q) for q in g[1])}], [{', '.join(flt(q) for q in g[2])}])"
    if k == "shift":
        return f"grid.shift({src_grid(g[1])}, {src_float(g[2])}, {src_float(g[3])})"
    if k == "scale":
        return f"grid.scale({src_grid(g[1])}, {src_float(g[2])}, {src_float(g[3])})"
    if k == "sub":
        return (f"grid.sub_grid({src_grid(g[1])}, [{', '.join(src_int(i) for i in g[2])}], "
                f"[{', '.join(src_int(i) for i in g[3])}])")
    if k == "item":
        return f"{src_grid(g[1])}[{src_index(g[2])}, {src_index(g[3])}]"
    if k == "trap":
        return f'spec.get_static_trap(zone_id="{g[1]}")'
    if k == "special":
        return f'spec.get_special_grid(grid_id="{g[1]}")'
    if k in ("vac", "fil"):
        fn = "vacate" if k == "vac" else "fill"
        return f"filled.{fn}({src_grid(g[1])}, [{', '.join(f'({i}, {j})' for i, j in g[2])}])"
    raise ValueError(g)


def src_sel(s) -> str:
    k = s[0]
    if k == "li":
        return "[" + ", ".join(src_int(i) for i in s[1]) + "]"
    if k == "sl":
        return src_slice(s)
    if k == "ALL":
        return "action.ALL"
    if k == "sv":
        return s[1]
    raise ValueError(s)


def src_cond(c) -> str:
    if c[0] == "lt":
        return f"{src_int(c[1])} < {src_int(c[2])}"
    if c[0] == "eq":
        return f"{src_int(c[1])} == {src_int(c[2])}"
    if c[0] == "bv":
        return c[1]
    raise ValueError(c)


def src_body(body, ind) -> list[str]:
    pad = "    " * ind
    out = []
    for st in body:
        k = st[0]
        if k == "set":
            out.append(f"{pad}action.set_loc({src_grid(st[1])})")
        elif k == "move":
            out.append(f"{pad}action.move({src_grid(st[1])})")
        elif k == "turn":
            fn = "turn_on" if st[1] else "turn_off"
            out.append(f"{pad}action.{fn}({src_sel(st[2])}, {src_sel(st[3])})")
        elif k == "if":
            out.append(f"{pad}if {src_cond(st[1])}:")
            out += src_body(st[2], ind + 1) or [f"{pad}    pass"]
            if st[3]:
                out.append(f"{pad}else:")
                out += src_body(st[3], ind + 1)
        elif k == "for":
            out.append(f"{pad}for {st[1]} in range({src_int(st[2])}, {src_int(st[3])}):")
            out += src_body(st[4], ind + 1)
        elif k == "gassign":
            out.append(f"{pad}{st[1]} = {src_grid(st[2])}")
        elif k == "iassign":
            out.append(f"{pad}{st[1]} = {src_int(st[2])}")
        elif k == "call":
            out.append(f"{pad}{st[1]}({', '.join(src_arg(a) for a in st[2])})")
        elif k == "assert":
            out.append(f"{pad}assert {src_cond(st[1])}")
        else:
            raise ValueError(st)
    return out


def src_arg(a) -> str:
    kind, e = a
    if kind == "int":
        return src_int(e)
    if kind == "grid":
        return src_grid(e)
    if kind == "sel":
        return src_sel(e)
    if kind == "bool":
        return src_cond(e)
    raise ValueError(a)


def kernel_source(kern, opts="") -> str:
    ps = []
    for name, kind, ann in kern["params"]:
        ps.append(f"{name}: {ann}" if ann else name)
    lines = ["@tweezer" + opts, f"def {kern['name']}({', '.join(ps)}):"]
    body = src_body(kern["body"], 1)
    lines += body or ["    pass"]
    return "\n".join(lines) + "\n\n"


def program_source(kernels, opts="") -> str:
    """opts: decorator options of every kernel, e.g. "(fold=False)" """
    return PRELUDE + "".join(kernel_source(k, opts) for k in kernels)


# --------------------------------------------------------------------------- reference flattening
class KernelError(Exception):
    """the source itself raises (assert false) — not an AOD error"""


def ev_int(e, env) -> int:
    k = e[0]
    if k == "ic":
        return INT_CONSTS[e[1]]
    if k == "i":
        return e[1]
    if k == "v":
        return env[e[1]]
    if k == "add":
        return ev_int(e[1], env) + ev_int(e[2], env)
    if k == "mul":
        return ev_int(e[1], env) * ev_int(e[2], env)
    raise ValueError(e)


def ev_float(e, env) -> Fraction:
    if e[0] == "fc":
        return FLOAT_CONSTS[e[1]]
    if e[0] == "f":
        return Fraction(e[1])
    if e[0] == "imulf":
        return Fraction(e[2]) * ev_int(e[1], env)
    raise ValueError(e)


def ev_grid(g, env, traps):
    """-> sexp-able grid expression with all variables resolved"""
    k = g[0]
    if k == "gv":
        return env[g[1]]
    if k == "from":
        return ("from", [Fraction(q) for q in g[1]], [Fraction(q) for q in g[2]])
    if k == "shift":
        return ("shift", ev_grid(g[1], env, traps), ev_float(g[2], env), ev_float(g[3], env))
    if k == "scale":
        return ("scale", ev_grid(g[1], env, traps), ev_float(g[2], env), ev_float(g[3], env))
    if k == "sub":
        return ("sub", ev_grid(g[1], env, traps), [ev_int(i, env) for i in g[2]], [ev_int(i, env) for i in g[3]])
    if k == "item":
        return ("item", ev_grid(g[1], env, traps), g[2], g[3])
    if k == "trap":
        return traps[g[1]]
    if k == "special":
        return SPECIALS[g[1]]
    if k == "vac":
        return ("shift", ev_grid(g[1], env, traps), filled_token(g[2]), Fraction(0))
    if k == "fil":
        nx, ny = g[3]
        return ("shift", ev_grid(g[1], env, traps),
                filled_token([(i, j) for i in range(nx) for j in range(ny) if (i, j) not in set(g[2])]), Fraction(0))
    raise ValueError(g)


def filled_token(vacancies) -> Fraction:
    """The tracer treats a position as an opaque value with a shape and an equality.  A filled grid (parent, vacancies) is
    sent to the model as the parent shifted in x by this offset: far outside the generators' coordinate range, injective in
    the vacancy set, and commuting with `shift` (the only grid operation the generator applies on top of a filled grid) -
    so two positions are equal in the model exactly when the real objects are, and a filled grid never equals a plain one."""
    code = 0
    for k, (i, j) in enumerate(sorted((int(i), int(j)) for i, j in vacancies)):
        if not (-512 <= i < 512 and -512 <= j < 512):
            raise ValueError("vacancy index outside the token range")
        code += ((i + 512) * 1024 + (j + 512) + 1) * (1024 * 1024 + 1) ** k
    return Fraction(2 ** 30) * (1 + code)


def ev_sel(s, env):
    k = s[0]
    if k == "li":
        return ("li",) + tuple(ev_int(i, env) for i in s[1])
    if k == "sl":
        return ("sl", s[1], s[2], s[3])
    if k == "ALL":
        return ("sl", None, None, None)
    if k == "sv":
        return env[s[1]]
    raise ValueError(s)


def ev_cond(c, env) -> bool:
    if c[0] == "lt":
        return ev_int(c[1], env) < ev_int(c[2], env)
    if c[0] == "eq":
        return ev_int(c[1], env) == ev_int(c[2], env)
    if c[0] == "bv":
        return bool(env[c[1]])
    raise ValueError(c)


def flatten(kernels: dict, name: str, args: list, traps: dict, ops: list, depth=0):
    """Append to `ops` the operations kernel `name` performs on `args` (reference
    semantics of the source: Python's)."""
    kern = kernels[name]
    env = {p[0]: a for p, a in zip(kern["params"], args)}
    _flat_body(kernels, kern["body"], env, traps, ops, depth)


def _flat_body(kernels, body, env, traps, ops, depth):
    for st in body:
        k = st[0]
        if k == "set":
            ops.append(("set", ev_grid(st[1], env, traps)))
        elif k == "move":
            ops.append(("move", ev_grid(st[1], env, traps)))
        elif k == "turn":
            ops.append(("turn", bool(st[1]), ev_sel(st[2], env), ev_sel(st[3], env)))
        elif k == "if":
            _flat_body(kernels, st[2] if ev_cond(st[1], env) else st[3], env, traps, ops, depth)
        elif k == "for":
            for i in range(ev_int(st[2], env), ev_int(st[3], env)):
                env[st[1]] = i
                _flat_body(kernels, st[4], env, traps, ops, depth)
        elif k == "gassign":
            env[st[1]] = ev_grid(st[2], env, traps)
        elif k == "iassign":
            env[st[1]] = ev_int(st[2], env)
        elif k == "call":
            cargs = []
            for kind, e in st[2]:
                cargs.append({"int": ev_int, "bool": ev_cond}[kind](e, env) if kind in ("int", "bool")
                             else ev_grid(e, env, traps) if kind == "grid" else ev_sel(e, env))
            flatten(kernels, st[1], cargs, traps, ops, depth + 1)
        elif k == "assert":
            if not ev_cond(st[1], env):
                raise KernelError("assert")
        else:
            raise ValueError(st)


# --------------------------------------------------------------------------- canonical forms of real values
def canon_geom(g) -> str:
    """the geometry of a real Grid (of a FilledGrid: of the grid under it) as the wire literal `(g (xs) (ys) x0 y0)`"""
    return sx(("g", [frac(v) for v in g.x_spacing], [frac(v) for v in g.y_spacing],
               None if g.x_init is None else frac(g.x_init), None if g.y_init is None else frac(g.y_init)))


def canon_grid(g) -> str:
    """real Grid -> wire literal `(g (xs) (ys) x0 y0)`; a FilledGrid -> its position token (see `filled_token`)"""
    if type(g).__name__ == "FilledGrid":
        p = g.parent
        if p.x_init is None:
            raise ValueError("filled grid over an empty axis has no position token")
        return sx(("g", [frac(v) for v in p.x_spacing], [frac(v) for v in p.y_spacing],
                   frac(Fraction(p.x_init) + filled_token(g.vacancies)), None if p.y_init is None else frac(p.y_init)))
    return sx(("g", [frac(v) for v in g.x_spacing], [frac(v) for v in g.y_spacing],
               None if g.x_init is None else frac(g.x_init), None if g.y_init is None else frac(g.y_init)))


def grid_lit(g):
    return ("g", [frac(v) for v in g.x_spacing], [frac(v) for v in g.y_spacing],
            None if g.x_init is None else frac(g.x_init), None if g.y_init is None else frac(g.y_init))


def canon_sel(s) -> str:
    if isinstance(s, slice):
        return sx(("sl", s.start, s.stop, s.step))
    return sx(("li",) + tuple(int(i) for i in s))


_SUFFIX = {"XY": (False, False), "XSlice": (True, False), "YSlice": (False, True), "XYSlice": (True, True)}


def canon_action(a) -> str:
    n = type(a).__name__
    if n == "WayPointsAction":
        return "(way" + "".join(" " + canon_grid(g) for g in a.way_points) + ")"
    base = n[: -len("Action")] if n.endswith("Action") else n
    for pre, on in (("TurnOn", True), ("TurnOff", False)):
        if base.startswith(pre) and base[len(pre):] in _SUFFIX:
            xs, ys = _SUFFIX[base[len(pre):]]
            return f"(sw ({sx(on)} {sx(xs)} {sx(ys)}) {canon_sel(a.x_tone_indices)} {canon_sel(a.y_tone_indices)})"
    return f"<{n}>"


def canon_path(p) -> str:
    return "(" + " ".join(canon_action(a) for a in p) + ")"


def real_sel(s):
    """wire selector -> the Python value passed to the kernel"""
    from kirin.dialects import ilist
    if s[0] == "sl":
        return slice(s[1], s[2], s[3])
    return ilist.IList(list(s[1:]))


def real_grid_from_lit(g):
    from bloqade.geometry.dialects.grid import Grid
    _, xs, ys, x0, y0 = g
    return Grid(tuple(float(v) for v in xs), tuple(float(v) for v in ys),
                None if x0 is None else float(x0), None if y0 is None else float(y0))


# --------------------------------------------------------------------------- random kernels
class Gen:
    """Random structured tweezer programs (1..3 kernels: optional helpers + main)."""

    def __init__(self, rng, zones: dict):
        self.rng = rng
        self.zones = zones  # zone name -> (nx, ny)

    def q(self):
        return Fraction(self.rng.randrange(-16, 17), self.rng.choice([1, 1, 2, 4]))

    def positions(self, n):
        if n == 0:
            return []
        x = Fraction(self.rng.randrange(-8, 9), self.rng.choice([1, 2]))
        out = [x]
        for _ in range(n - 1):
            x = x + Fraction(self.rng.randrange(0, 9), self.rng.choice([1, 2]))
            out.append(x)
        return out

    def int_expr(self, ivars, lo=0, hi=3):
        r = self.rng.random()
        if r > 0.93:
            ok = [n for n, v in INT_CONSTS.items() if lo <= v <= hi]
            if ok:
                return ("ic", self.rng.choice(ok))
        if ivars and r < 0.35:
            return ("v", self.rng.choice(ivars))
        if ivars and r < 0.45:
            return ("add", ("v", self.rng.choice(ivars)), ("i", self.rng.randrange(0, 2)))
        return ("i", self.rng.randrange(lo, hi + 1))

    def float_expr(self, ivars):
        if self.rng.random() < 0.1:
            return ("fc", self.rng.choice(sorted(FLOAT_CONSTS)))
        if ivars and self.rng.random() < 0.4:
            return ("imulf", ("v", self.rng.choice(ivars)), self.q())
        return ("f", self.q())

    def grid_expr(self, gvars, ivars, shape, depth=2, must_shape=True):
        """A grid expression of the given shape (nx, ny) when must_shape."""
        nx, ny = shape
        r = self.rng.random()
        cands = [g for g, s in gvars.items() if s == shape]
        if depth == 0 or r < 0.25:
            if cands and self.rng.random() < 0.7:
                return ("gv", self.rng.choice(cands))
            return ("from", self.positions(nx), self.positions(ny))
        if r < 0.5:
            return ("shift", self.grid_expr(gvars, ivars, shape, depth - 1), self.float_expr(ivars), self.float_expr(ivars))
        if r < 0.6:
            sc = lambda: ("f", Fraction(self.rng.choice([1, 2, 3, 1]), self.rng.choice([1, 2])))  # noqa: E731
            return ("scale", self.grid_expr(gvars, ivars, shape, depth - 1), sc(), sc())
        if nx == 0 or ny == 0:
            return ("from", self.positions(nx), self.positions(ny))
        # views of something bigger
        big = [(g, s) for g, s in gvars.items() if s[0] >= nx and s[1] >= ny]
        zs = [(z, s) for z, s in self.zones.items() if s[0] >= nx and s[1] >= ny]
        if r < 0.8 and (big or zs):
            sp = [(z, s) for z, s in SPECIAL_SHAPES.items() if s[0] >= nx and s[1] >= ny]
            if sp and self.rng.random() < 0.2:
                z, s = self.rng.choice(sp)
                base = ("special", z)
            elif zs and (not big or self.rng.random() < 0.5):
                z, s = self.rng.choice(zs)
                base = ("trap", z)
            else:
                g, s = self.rng.choice(big)
                base = ("gv", g)
            xi = sorted(self.rng.sample(range(s[0]), nx))
            yi = sorted(self.rng.sample(range(s[1]), ny))
            if self.rng.random() < 0.15:
                self.rng.shuffle(xi)
            return ("sub", base, [("i", i) for i in xi], [("i", i) for i in yi])
        if big:
            g, s = self.rng.choice(big)
            # slicing g[a:a+nx, b:b+ny]
            a = self.rng.randrange(0, s[0] - nx + 1)
            b = self.rng.randrange(0, s[1] - ny + 1)
            ix = ("i", a) if nx == 1 and self.rng.random() < 0.5 else ("sl", a, a + nx, None)
            iy = ("i", b) if ny == 1 and self.rng.random() < 0.5 else ("sl", b, b + ny, None)
            return ("item", ("gv", g), ix, iy)
        return ("from", self.positions(nx), self.positions(ny))

    def pos_expr(self, gvars, ivars, shape, depth=2):
        """a position handed to set_loc / move: a grid expression, or (sometimes) a filled grid built on one"""
        nx, ny = shape
        if nx >= 1 and ny >= 1 and self.rng.random() < self.filled_share:
            inner = self.grid_expr(gvars, ivars, shape, depth=1)
            sites = [(i, j) for i in range(nx) for j in range(ny)]
            pairs = sorted(self.rng.sample(sites, self.rng.randrange(0, min(3, len(sites)) + 1)))
            e = ("vac", inner, pairs) if self.rng.random() < 0.7 else ("fil", inner, pairs, (nx, ny))
            if self.rng.random() < 0.3:
                e = ("shift", e, self.float_expr(ivars), self.float_expr(ivars))
            return e
        return self.grid_expr(gvars, ivars, shape, depth)

    filled_share = 0.12

    def selector(self, svars, ivars, n):
        r = self.rng.random()
        if svars and r < 0.3:
            return ("sv", self.rng.choice(svars))
        if r < 0.45:
            return ("ALL",)
        if r < 0.7:
            a = self.rng.choice([None, 0, 1])
            b = self.rng.choice([None, n, max(n - 1, 0), -1])
            c = self.rng.choice([None, None, 1, 2])
            return ("sl", a, b, c)
        if self.rng.random() < 0.08:
            return ("li", [])          # an empty index list selects no tone on this axis
        k = self.rng.randrange(1, max(n, 1) + 1)
        idx = sorted(self.rng.sample(range(max(n, 1)), min(k, max(n, 1))))
        out = [("i", i) for i in idx]
        if ivars and self.rng.random() < 0.3:
            out[self.rng.randrange(len(out))] = ("v", self.rng.choice(ivars))
        return ("li", out)

    def body(self, gvars, ivars, svars, bvars, shape, budget, depth, helpers, state):
        """state['set'] tracks (approximately) whether a set_loc surely happened."""
        out = []
        n = self.rng.randrange(1, budget + 1)
        for _ in range(n):
            r = self.rng.random()
            if not state["set"] and r < 0.8:
                out.append(("set", self.pos_expr(gvars, ivars, shape)))
                state["set"] = True
                continue
            if r < 0.12:
                out.append(("set", self.pos_expr(gvars, ivars, shape)))
                state["set"] = True
            elif r < 0.40:
                g = self.pos_expr(gvars, ivars, shape)
                if self.rng.random() < 0.06:   # deliberate shape change (also to/from an empty axis)
                    other = self.rng.choice([(shape[0] + 1, shape[1]), (max(shape[0] - 1, 0), shape[1]),
                                             (shape[0], max(shape[1] - 1, 0))])
                    # a different shape with the same number of sites (transposed, or regrouped)
                    same_count = [(a, b) for a in range(0, 5) for b in range(0, 5)
                                  if a * b == shape[0] * shape[1] and (a, b) != tuple(shape)]
                    if same_count and self.rng.random() < 0.5:
                        other = self.rng.choice(same_count)
                    g = self.grid_expr(gvars, ivars, other, depth=1)
                out.append(("move", g))
            elif r < 0.62:
                out.append(("turn", self.rng.random() < 0.5, self.selector(svars, ivars, shape[0]),
                            self.selector(svars, ivars, shape[1])))
            elif r < 0.72 and depth > 0:
                c = self.cond(ivars, bvars)
                st1 = dict(state)
                st2 = dict(state)
                th = self.body(dict(gvars), ivars, svars, bvars, shape, 3, depth - 1, helpers, st1)
                el = self.body(dict(gvars), ivars, svars, bvars, shape, 2, depth - 1, helpers, st2) if self.rng.random() < 0.6 else []
                state["set"] = st1["set"] and (st2["set"] if el else state["set"])
                out.append(("if", c, th, el))
            elif r < 0.82 and depth > 0:
                v = f"i{depth}_{self.rng.randrange(100)}"
                start = ("i", self.rng.randrange(0, 2))
                stop = self.int_expr(ivars, 0, 3)
                st1 = dict(state)
                # a loop-carried counter: kirin's lowering rejects some loop bodies that carry
                # nothing (DESIGN.md §2.3); it also makes the iteration count observable afterwards
                cv = f"c{depth}_{self.rng.randrange(1000)}"
                inner = self.body(dict(gvars), ivars + [v, cv], svars, bvars, shape, 3, depth - 1, helpers, st1)
                out.append(("iassign", cv, ("i", 0)))
                out.append(("for", v, start, stop, [("iassign", cv, ("add", ("v", cv), ("i", 1)))] + inner))
                ivars = ivars + [cv]
            elif r < 0.835 and state["set"]:
                # a source-level assert (fails for some arguments): a non-AOD failure kind
                out.append(("assert", self.cond(ivars, bvars)))
            elif r < 0.88:
                name = f"g{len(gvars)}_{self.rng.randrange(100)}"
                if name not in gvars:
                    out.append(("gassign", name, self.grid_expr(gvars, ivars, shape)))
                    gvars[name] = shape
            elif r < 0.94 and helpers:
                h = self.rng.choice(helpers)
                args = []
                for pn, kind, ann in h["params"]:
                    if kind == "int":
                        args.append(("int", self.int_expr(ivars, 0, 2)))
                    elif kind == "grid":
                        args.append(("grid", self.grid_expr(gvars, ivars, shape, depth=1)))
                    elif kind == "sel":
                        args.append(("sel", self.selector(svars, ivars, shape[0])))
                    else:
                        args.append(("bool", self.cond(ivars, bvars)))
                out.append(("call", h["name"], args))
                if h.get("sets"):
                    state["set"] = True
            else:
                out.append(("turn", self.rng.random() < 0.5, self.selector(svars, ivars, shape[0]),
                            self.selector(svars, ivars, shape[1])))
        return out

    def cond(self, ivars, bvars):
        r = self.rng.random()
        if bvars and r < 0.4:
            return ("bv", self.rng.choice(bvars))
        a = self.int_expr(ivars, 0, 3)
        b = self.int_expr(ivars, 0, 3)
        return (self.rng.choice(["lt", "eq"]), a, b)

    SEL_ANNS = [None, None, "ilist.IList[int, Any]", "slice", "Any"]

    def kernel(self, name, shape, helpers, is_helper):
        params = [("g", "grid", "grid.Grid[Any, Any]")]
        gvars = {"g": shape}
        ivars, svars, bvars = [], [], []
        for i in range(self.rng.randrange(0, 3)):
            params.append((f"n{i}", "int", "int"))
            ivars.append(f"n{i}")
        for i in range(self.rng.randrange(0, 3)):
            params.append((f"s{i}", "sel", self.rng.choice(self.SEL_ANNS)))
            svars.append(f"s{i}")
        if self.rng.random() < 0.5:
            params.append(("b0", "bool", "bool"))
            bvars.append("b0")
        state = {"set": False if not is_helper else self.rng.random() < 0.5}
        pre_set = state["set"]
        body = self.body(gvars, ivars, svars, bvars, shape, 6 if not is_helper else 4, 2, helpers, state)
        return {"name": name, "params": params, "body": body, "shape": shape,
                "sets": (not pre_set) and state["set"], "assumes_set": pre_set}

    def program(self):
        shape = (self.rng.randrange(1, 4), self.rng.randrange(1, 4))
        if self.rng.random() < 0.06:   # a grid that is empty along one axis
            shape = (0, shape[1]) if self.rng.random() < 0.5 else (shape[0], 0)
        helpers = []
        for i in range(self.rng.choice([0, 0, 1, 2])):
            helpers.append(self.kernel(f"helper{i}", shape, helpers[:], True))
        main = self.kernel("main", shape, helpers, False)
        return helpers + [main], shape

    def args_for(self, kern, shape):
        """concrete arguments: wire forms (for the reference) and how to build real values"""
        wire = []
        for name, kind, ann in kern["params"]:
            if kind == "grid":
                wire.append(("from", self.positions(shape[0]), self.positions(shape[1])))
            elif kind == "int":
                wire.append(self.rng.randrange(0, 3))
            elif kind == "bool":
                wire.append(self.rng.random() < 0.5)
            else:
                want_slice = {"slice": True, "ilist.IList[int, Any]": False}.get(ann, self.rng.random() < 0.5)
                if want_slice:
                    wire.append(("sl", self.rng.choice([None, 0]), self.rng.choice([None, 1, 2]), self.rng.choice([None, 1])))
                else:
                    k = self.rng.randrange(0 if self.rng.random() < 0.1 else 1, 3)
                    wire.append(("li",) + tuple(sorted(self.rng.sample(range(3), k))))
        return wire


def real_args(kern, wire):
    from bloqade.geometry.dialects.grid import Grid
    out = []
    for (name, kind, ann), w in zip(kern["params"], wire):
        if kind == "grid":
            out.append(Grid.from_positions([float(q) for q in w[1]], [float(q) for q in w[2]]))
        elif kind in ("int", "bool"):
            out.append(w)
        else:
            out.append(real_sel(w))
    return tuple(out)


# --------------------------------------------------------------------------- shared: traced cases
def default_spec():
    from bloqade.geometry.dialects.grid import Grid
    from bloqade.shuttle.arch import ArchSpec, Layout
    traps = Grid.from_positions([0.0, 2.0, 10.0, 12.0], [0.0, 10.0, 20.0])
    left = traps.get_view([0, 2], [0, 1, 2])
    # special grids: "left" also names a static trap zone (another grid), "park" does not
    layout = Layout({"traps": traps, "left": left}, {"traps"}, {"traps"}, {"traps"},
                    special_grid={"left": traps.get_view([1, 3], [0, 1, 2]), "park": Grid.from_positions([-3.0, -1.0], [1.0, 2.0])})
    return ArchSpec(layout=layout, int_constants=dict(INT_CONSTS), float_constants={k: float(v) for k, v in FLOAT_CONSTS.items()})


def zone_wire(z):
    """wire expression denoting a spec zone (SubGrid zones keep their parent/indices)"""
    if type(z).__name__ == "SubGrid":
        return ("sub", grid_lit(z.parent), [int(i) for i in z.x_indices], [int(i) for i in z.y_indices])
    return grid_lit(z)


SPECIALS = {}          # special-grid name -> wire expression (set by spec_tables)
SPECIAL_SHAPES = {}
SPEC_SLOT = None       # the spec of `@tweezer(arch_spec=_TW.SPEC_SLOT)` variants


def spec_tables(spec):
    traps = {n: zone_wire(z) for n, z in spec.layout.static_traps.items()}
    zones = {n: z.shape for n, z in spec.layout.static_traps.items()}
    SPECIALS.clear()
    SPECIALS.update({n: zone_wire(z) for n, z in spec.layout.special_grid.items()})
    SPECIAL_SHAPES.clear()
    SPECIAL_SHAPES.update({n: z.shape for n, z in spec.layout.special_grid.items()})
    return traps, zones


class TraceCase:
    __slots__ = ("kernels", "wire_args", "source", "ops", "req", "kernel_error", "impl", "path", "mt", "rargs", "shared_impl", "kw_impl")

    def as_case(self):
        return {"kernels": self.kernels, "args": self.wire_args, "source": self.source[len(PRELUDE):],
                "args_wire": sx(list(self.wire_args)), "ops": self.req}


def compile_program(ctx, kernels, opts=""):
    src = program_source(kernels, opts)
    try:
        mod = load_source(src, "k")
    except Exception as e:  # noqa: BLE001
        ctx.count("compile_fail")
        ctx.count(f"compile_fail_{type(e).__name__}")
        if ctx.counts["compile_fail"] <= 3:
            ctx.note(f"compile failure {type(e).__name__}: {str(e)[:200]} :: {src[-500:]}")
        return None, src
    ctx.count("programs")
    return mod, src


def trace_program(ctx, spec, traps, kernels, arg_sets, tracer=None, opts=""):
    """Compile `kernels` with the real decorator and trace `main` on each argument tuple.
    `tracer`: optional callable (mt, args) -> path, default a fresh TraceInterpreter per call."""
    from bloqade.shuttle.codegen import TraceInterpreter
    mod, src = compile_program(ctx, kernels, opts)
    if mod is None:
        return []
    kmap = {k["name"]: k for k in kernels}
    main = kmap["main"]
    mt = getattr(mod, "main")
    out = []
    for wire in arg_sets:
        tc = TraceCase()
        tc.kernels, tc.wire_args, tc.source, tc.mt = kernels, list(wire), src, mt
        ops = []
        tc.kernel_error = False
        try:
            flatten(kmap, "main", list(wire), traps, ops)
        except KernelError:
            tc.kernel_error = True
        tc.ops = ops
        tc.req = sx(ops)
        tc.rargs = real_args(main, wire)
        try:
            if tracer is None:
                tc.path = TraceInterpreter(spec).run_trace(mt, tc.rargs, {})
            else:
                tc.path = tracer(mt, tc.rargs)
        except Exception as e:  # noqa: BLE001
            tc.path = None
            tc.impl = "err"
            ctx.count(f"impl_err_{type(e).__name__}")
        if tc.path is not None:
            try:
                tc.impl = "ok " + canon_path(tc.path)
            except Exception as e:  # noqa: BLE001
                # the tracer returned something that is no path of grids and switches: not the same as raising
                tc.impl = f"ok <uncanonical path: {type(e).__name__}: {repr(tc.path)[:200]}>"
                tc.path = None
        # the same call with every argument given by keyword
        tc.kw_impl = None
        if tracer is None and main["params"]:
            try:
                pk = TraceInterpreter(spec).run_trace(mt, (), dict(zip([p_[0] for p_ in main["params"]], tc.rargs)))
                try:
                    tc.kw_impl = "ok " + canon_path(pk)
                except Exception as e:  # noqa: BLE001
                    tc.kw_impl = f"ok <uncanonical path: {type(e).__name__}>"
            except Exception:  # noqa: BLE001
                tc.kw_impl = "err"
        # the same trace on one long-lived instance that has seen every earlier kernel of this run (failing ones included)
        tc.shared_impl = None
        if tracer is None:
            sh = _SHARED.get(id(spec))
            if sh is None or sh[0] is not spec:
                sh = _SHARED[id(spec)] = (spec, TraceInterpreter(spec))
            try:
                p2 = sh[1].run_trace(mt, tc.rargs, {})
            except Exception:  # noqa: BLE001
                p2 = None
                tc.shared_impl = "err"
            if p2 is not None:
                try:
                    tc.shared_impl = "ok " + canon_path(p2)
                except Exception as e:  # noqa: BLE001
                    tc.shared_impl = f"ok <uncanonical path: {type(e).__name__}>"
        out.append(tc)
    return out


_SHARED = {}


def random_traces(ctx, spec, n_prog, tracer=None, unfolded_share=0.0):
    """unfolded_share: fraction of the programs that are additionally compiled with @tweezer(fold=False)"""
    traps, zones = spec_tables(spec)
    g = Gen(ctx.rng, zones)
    out = []
    for _ in range(n_prog):
        kernels, shape = g.program()
        arg_sets = [g.args_for(kernels[-1], shape) for _ in range(ctx.rng.randrange(2, 5))]
        out += trace_program(ctx, spec, traps, kernels, arg_sets, tracer)
        if ctx.rng.random() < unfolded_share:
            ctx.count("programs_also_compiled_with_fold_False")
            out += trace_program(ctx, spec, traps, kernels, arg_sets[:2], tracer, opts="(fold=False)")
        if ctx.rng.random() < unfolded_share:
            # the spec given to the decorator (lookups resolved at compile time)
            global SPEC_SLOT
            SPEC_SLOT = spec
            ctx.count("programs_also_compiled_with_arch_spec")
            out += trace_program(ctx, spec, traps, kernels, arg_sets[:2], tracer, opts="(arch_spec=_TW.SPEC_SLOT)")
    return out


def detuple(x):
    """JSON round trip of a replay: lists back to tuples, stringified Fractions back"""
    if isinstance(x, list):
        return tuple(detuple(y) for y in x)
    if isinstance(x, dict):
        return {k: detuple(v) for k, v in x.items()}
    if isinstance(x, str) and "/" in x and x.replace("/", "").replace("-", "").isdigit():
        return Fraction(x)
    return x


def norm_result(s):
    return "err" if s.startswith("err") else s


# --------------------------------------------------------------------------- corpus: hand-picked / minimised past failures
G = ("g", "grid", "grid.Grid[Any, Any]")
CORPUS = [
    # F1: index lists of different lengths through typed arguments
    {"kernels": [{"name": "main", "params": [G, ("s0", "sel", "ilist.IList[int, Any]"), ("s1", "sel", "ilist.IList[int, Any]")],
                  "body": [("set", ("gv", "g")), ("turn", True, ("sv", "s0"), ("sv", "s1")),
                           ("turn", False, ("li", [("i", 0), ("i", 1)]), ("li", [("i", 1)]))]}],
     "args": [("from", [0, 1], [0, 1]), ("li", 0, 1), ("li", 0)]},
    # F1: slice through untyped arguments
    {"kernels": [{"name": "main", "params": [G, ("s0", "sel", None), ("s1", "sel", None)],
                  "body": [("set", ("gv", "g")), ("turn", True, ("sv", "s0"), ("sv", "s1")),
                           ("move", ("shift", ("gv", "g"), ("f", 1), ("f", 0))), ("turn", False, ("sv", "s0"), ("sv", "s1"))]}],
     "args": [("from", [0, 1], [0, 1]), ("sl", None, None, None), ("li", 0, 1)]},
    {"kernels": [{"name": "main", "params": [G], "body": [("move", ("gv", "g"))]}], "args": [("from", [0, 1], [0])]},
    {"kernels": [{"name": "main", "params": [G], "body": [("turn", True, ("ALL",), ("ALL",))]}], "args": [("from", [0, 1], [0])]},
    {"kernels": [{"name": "main", "params": [G], "body": [("set", ("gv", "g")), ("move", ("from", [0, 1, 2], [0]))]}],
     "args": [("from", [0, 1], [0])]},
    # shape (1, n) vs (0, n): an empty axis is a different shape (mutant C11/B)
    {"kernels": [{"name": "main", "params": [G], "body": [("set", ("gv", "g")), ("move", ("from", [], [0, 1]))]}],
     "args": [("from", [3], [0, 1])]},
    {"kernels": [{"name": "main", "params": [G], "body": [("set", ("from", [0], [])), ("move", ("gv", "g"))]}],
     "args": [("from", [0], [5])]},
    # empty index list on one axis; move to the current position; set_loc right after a switch
    {"kernels": [{"name": "main", "params": [G], "body": [("set", ("gv", "g")), ("turn", True, ("ALL",), ("li", [("i", 0)])),
                                                          ("turn", True, ("li", []), ("li", [("i", 1)])), ("move", ("gv", "g")),
                                                          ("move", ("gv", "g")), ("turn", False, ("ALL",), ("ALL",)),
                                                          ("set", ("shift", ("gv", "g"), ("f", 2), ("f", 0))),
                                                          ("turn", True, ("li", [("i", 0)]), ("ALL",))]}],
     "args": [("from", [0, 1], [0, 1])]},
    # a closed loop between two switches (ends where it started, by another way), a there-and-back, and a loop without switches
    {"kernels": [{"name": "main", "params": [G], "body": [("set", ("gv", "g")), ("turn", True, ("ALL",), ("ALL",)),
                                                          ("move", ("shift", ("gv", "g"), ("f", 2), ("f", 0))),
                                                          ("move", ("shift", ("gv", "g"), ("f", 2), ("f", 3))),
                                                          ("move", ("shift", ("gv", "g"), ("f", 0), ("f", 3))),
                                                          ("move", ("gv", "g")), ("turn", False, ("ALL",), ("ALL",)),
                                                          ("move", ("shift", ("gv", "g"), ("f", 1), ("f", 0))), ("move", ("gv", "g"))]}],
     "args": [("from", [0, 1], [0, 1])]},
    # a later set_loc may go to a grid of another shape (only `move` is bound to the current shape)
    {"kernels": [{"name": "main", "params": [G], "body": [("set", ("gv", "g")), ("move", ("shift", ("gv", "g"), ("f", 1), ("f", 0))),
                                                          ("set", ("from", [0, 1, 2], [5])), ("turn", True, ("ALL",), ("ALL",)),
                                                          ("move", ("from", [0, 1, 4], [6])), ("turn", False, ("ALL",), ("ALL",)),
                                                          ("set", ("from", [7], [])), ("set", ("gv", "g"))]}],
     "args": [("from", [0, 1], [0, 1])]},
    {"kernels": [{"name": "main", "params": [G], "body": [("set", ("gv", "g")), ("move", ("shift", ("gv", "g"), ("f", 1), ("f", 0))),
                                                          ("move", ("shift", ("gv", "g"), ("f", 1), ("f", 1))),
                                                          ("move", ("shift", ("gv", "g"), ("f", -1), ("f", 2))), ("move", ("gv", "g"))]}],
     "args": [("from", [5], [0, 1])]},
    # a move onto a grid with the same NUMBER of sites but another shape (2x2 -> 1x4, 1x2 -> 2x1) is a shape error
    {"kernels": [{"name": "main", "params": [G], "body": [("set", ("gv", "g")), ("turn", True, ("ALL",), ("ALL",)),
                                                          ("move", ("from", [0, 1, 2, 3], [5]))]}],
     "args": [("from", [0, 1], [0, 1])]},
    {"kernels": [{"name": "main", "params": [G], "body": [("set", ("from", [0, 1], [5])), ("move", ("from", [7], [5, 6])),
                                                          ("turn", False, ("ALL",), ("ALL",))]}],
     "args": [("from", [0, 1], [0, 1])]},
    # a set_loc while tones are on, to a grid of another shape, opens a new segment (it is not a move)
    {"kernels": [{"name": "main", "params": [G], "body": [("set", ("gv", "g")), ("turn", True, ("ALL",), ("ALL",)),
                                                          ("move", ("shift", ("gv", "g"), ("f", 1), ("f", 0))),
                                                          ("set", ("from", [0, 1, 2], [5])),
                                                          ("move", ("from", [0, 1, 4], [6])), ("turn", False, ("ALL",), ("ALL",))]}],
     "args": [("from", [0, 1], [0, 1])]},
    # a running position updated from its previous value in a loop and not read afterwards
    {"kernels": [{"name": "main", "params": [G, ("n", "int", "int")],
                  "body": [("set", ("gv", "g")), ("turn", True, ("ALL",), ("ALL",)), ("gassign", "p", ("gv", "g")), ("iassign", "c", ("i", 0)),
                           ("for", "i", ("i", 0), ("v", "n"), [("iassign", "c", ("add", ("v", "c"), ("i", 1))),
                                                               ("gassign", "p", ("shift", ("gv", "p"), ("f", Fraction(3, 2)), ("f", 0))),
                                                               ("move", ("gv", "p"))]),
                           ("turn", False, ("ALL",), ("ALL",))]}],
     "args": [("from", [0, 1], [0, 1]), 3]},
    # constants of the spec, two of them zero (a present constant whose value is falsy)
    {"kernels": [{"name": "main", "params": [G], "body": [("set", ("gv", "g")), ("turn", True, ("ALL",), ("ALL",)),
                                                          ("move", ("shift", ("gv", "g"), ("fc", "f0"), ("fc", "fh"))),
                                                          ("move", ("shift", ("gv", "g"), ("imulf", ("ic", "n2"), Fraction(1, 2)), ("fc", "f0"))),
                                                          ("move", ("shift", ("gv", "g"), ("imulf", ("ic", "n0"), Fraction(3)), ("f", 1))),
                                                          ("turn", False, ("ALL",), ("ALL",))]}],
     "args": [("from", [0, 1], [0, 1])]},
    # after a set_loc to a grid of another shape, a move to a grid of the FIRST shape is a shape error (the shape that counts is
    # the current one)
    {"kernels": [{"name": "main", "params": [G], "body": [("set", ("gv", "g")), ("turn", True, ("ALL",), ("ALL",)),
                                                          ("move", ("shift", ("gv", "g"), ("f", 1), ("f", 0))),
                                                          ("turn", False, ("ALL",), ("ALL",)),
                                                          ("set", ("from", [0, 1, 2], [5])), ("move", ("gv", "g"))]}],
     "args": [("from", [0, 1], [0, 1])]},
    # lookups of both kinds under one name: "left" is a static trap zone AND (another grid) a special grid; "park" is special only
    {"kernels": [{"name": "main", "params": [G], "body": [("set", ("special", "left")), ("turn", True, ("ALL",), ("ALL",)),
                                                          ("move", ("shift", ("special", "left"), ("f", 1), ("f", 0))),
                                                          ("move", ("trap", "left")), ("turn", False, ("ALL",), ("ALL",)),
                                                          ("set", ("trap", "left")), ("move", ("special", "left"))]}],
     "args": [("from", [0, 1], [0, 1])]},
    {"kernels": [{"name": "main", "params": [G], "body": [("set", ("special", "park")), ("turn", True, ("ALL",), ("li", [("i", 0)])),
                                                          ("move", ("shift", ("special", "park"), ("f", 0), ("f", 2))),
                                                          ("turn", False, ("ALL",), ("li", [("i", 0)]))]}],
     "args": [("from", [0, 1], [0, 1])]},
]
