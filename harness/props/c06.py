"""C06 — spec injection is behaviour preserving and complete."""
from ..core import HarnessFault
from .. import lang as L
from .. import tweezer as T
from .. import events as EV

ID = "C06"
MODULES = ["Shuttle.Props.C06"]
RULE = ("seeded random move programs mixing the four lookup kinds (static trap, special grid, int and float constant; known "
        "and unknown names) at call depth 0-3 through subroutines, recursive subroutines, closures capturing looked-up values, "
        "device calls and parallel blocks; several specs (constants 0 and 0.0 included); each program is compiled twice from "
        "the same source - @move and @move(arch_spec=spec) - and run on 3 argument tuples: the specialised kernel under a plain "
        "interpreter with no spec available vs the unspecialised kernel under the spec-carrying interpreter; both compared "
        "with the Lean evaluator (inject-then-plain and spec). non-trivial = run whose program contains a lookup inside a "
        "subroutine or closure; distinct = distinct (program, spec, arguments).")
TRUSTED = ["modelled, not verified: kirin lowering, interpreter, CallGraphPass and fold (exercised by every case); "
           "Model/Lang.lean is the reference semantics of the generated sources (validated against the real interpreter on every run)"]
ASSUMPTIONS = ["coordinates are dyadic rationals for which binary64 arithmetic is exact",
               "generated subroutines have no `return` inside a branch: with such a callee kirin's constant propagation folds the "
               "call to the wrong constant once the spec is known (known finding F26, reproduced and reported under C04, whose "
               "fixed-source stream contains that program)"]

SPEC_SLOT = None   # read by the generated source: @move(arch_spec=<this>)
SPEC_SLOT2 = None  # second entry point `main2`, same body, compiled afterwards with this spec


def specs():
    from bloqade.geometry.dialects.grid import Grid
    from bloqade.shuttle.arch import ArchSpec, Layout
    s0 = L.default_move_spec()
    A = Grid.from_positions([1.0, 2.0, 4.0], [0.0, 0.5])
    B = Grid.from_positions([-3.0, 5.0], [2.0, 3.0])
    S = Grid.from_positions([0.0, 8.0], [1.0])
    s1 = ArchSpec(layout=Layout({"A": A, "B": B}, {"A"}, {"A", "B"}, {"A"}, special_grid={"S": S, "B": B.shift(1.0, 1.0)}),
                  float_constants={"f0": 1.5, "fh": 0.0, "f3": -2.0, "n2": 2.5},
                  int_constants={"n0": 3, "n1": 0, "n2": 1, "fh": 7})
    return [s0, s1]


def canon_run(r):
    if r.error is not None:
        return "err"
    try:
        return f"ok {L.canon_value(r.result)} {EV.canon_events(r.events)}"
    except Exception as e:  # noqa: BLE001
        return f"<uncanonical {type(e).__name__}>"


def has_deep_lookup(fns):
    def in_body(body):
        return "'look'" in repr(body)
    main = fns[-1]
    return any(in_body(f["body"]) for f in fns[:-1] if not f["tweezer"]) or \
        any(in_body(n["body"]) for n in main["nested"].values())


FIRST_CLASS_SRC = '''from kirin.dialects import ilist
from bloqade.shuttle import gate, spec
from bloqade.shuttle.prelude import move
from harness.props import c06 as _C06

@move
def leafm(i: int):
    return spec.get_int_constant(constant_id="n2") + i

@move
def plain(n: int):
    return ilist.map(leafm, ilist.range(n))

@move(arch_spec=_C06.SPEC_SLOT)
def specialised(n: int):
    return ilist.map(leafm, ilist.range(n))

@move
def midm(n: int):
    return ilist.map(leafm, ilist.range(n))

@move
def plain2(n: int):
    return ilist.map(midm, ilist.range(n))

@move(arch_spec=_C06.SPEC_SLOT)
def specialised2(n: int):
    return ilist.map(midm, ilist.range(n))

@move
def viam(i: int):
    return leafm(i) * 2

@move
def plain3(n: int):
    return ilist.map(viam, ilist.range(n))

@move(arch_spec=_C06.SPEC_SLOT)
def specialised3(n: int):
    return ilist.map(viam, ilist.range(n))

@move
def recm(i: int):
    if i <= 0:
        return spec.get_int_constant(constant_id="n2")
    return recm(i - 1) + 1

@move
def plain4(n: int):
    return ilist.map(recm, ilist.range(n))

@move(arch_spec=_C06.SPEC_SLOT)
def specialised4(n: int):
    return ilist.map(recm, ilist.range(n))

@move
def make_adder(k: int):
    def adder(i: int):
        return spec.get_int_constant(constant_id="n2") * k + i
    return adder

@move
def plain6(n: int):
    f = make_adder(3)
    return ilist.map(f, ilist.range(n))

@move(arch_spec=_C06.SPEC_SLOT)
def specialised6(n: int):
    f = make_adder(3)
    return ilist.map(f, ilist.range(n))

@move
def adder3_map(n: int):
    f = make_adder(3)          # folded to a constant closure (with its captured value) when this subroutine is compiled
    return ilist.map(f, ilist.range(n))

@move
def plain8(n: int):
    return adder3_map(n)

@move(arch_spec=_C06.SPEC_SLOT)
def specialised8(n: int):
    return adder3_map(n)

@move
def plain7(n: int):
    def local_adder(i: int):
        return spec.get_int_constant(constant_id="n2") + i + n
    return ilist.map(local_adder, ilist.range(n))

@move(arch_spec=_C06.SPEC_SLOT)
def specialised7(n: int):
    def local_adder(i: int):
        return spec.get_int_constant(constant_id="n2") + i + n
    return ilist.map(local_adder, ilist.range(n))

def _rows():
    @move
    def position(i: int):
        return spec.get_int_constant(constant_id="n2") + i
    return position

def _cols():
    @move
    def position(i: int):
        return spec.get_int_constant(constant_id="n2") * 10 + i
    return position

rows_position = _rows()
cols_position = _cols()

@move
def plain5(n: int):
    return (ilist.map(rows_position, ilist.range(n)), ilist.map(cols_position, ilist.range(n)))

@move(arch_spec=_C06.SPEC_SLOT)
def specialised5(n: int):
    return (ilist.map(rows_position, ilist.range(n)), ilist.map(cols_position, ilist.range(n)))

@move
def absent_leaf(i: int):
    return spec.get_int_constant(constant_id="not_there") + i

@move
def plain_absent(n: int):
    x = spec.get_float_constant(constant_id="not_there_either")
    return absent_leaf(n)

@move
def plain_absent_sub(n: int):
    return absent_leaf(n)

@move
def plain_direct(n: int):
    return leafm(n)

@move(arch_spec=_C06.SPEC_SLOT)
def specialised_direct(n: int):
    return leafm(n)
'''


def first_class_stream(ctx, spec):
    """a spec-reading subroutine used as a first-class value (ilist.map): real code against real code"""
    global SPEC_SLOT
    SPEC_SLOT = spec
    try:
        mod = T.load_source(FIRST_CLASS_SRC, "c06fc")
    except Exception as e:  # noqa: BLE001
        # the same source without the `arch_spec=` options compiles (it is what the reference kernels are)
        ctx.fail({"source": FIRST_CLASS_SRC},
                 f"kernels that use spec-reading subroutines as first-class values do not compile with a spec: {type(e).__name__}: {str(e)[:200]}")
        return
    for n in (0, 1, 3):
        for a, b, what in ((mod.plain, mod.specialised, "passed to ilist.map"), (mod.plain_direct, mod.specialised_direct, "called directly"),
                           (mod.plain2, mod.specialised2, "passed to ilist.map by a subroutine that is itself passed to ilist.map"),
                           (mod.plain3, mod.specialised3, "invoked by a subroutine that is passed to ilist.map"),
                           (mod.plain4, mod.specialised4, "recursive and passed to ilist.map"),
                           (mod.plain5, mod.specialised5, "one of two distinct subroutines with the same Python name, both passed to ilist.map"),
                           (mod.plain6, mod.specialised6, "a closure with a captured value, made by a subroutine called with literal arguments, passed to ilist.map"),
                           (mod.plain7, mod.specialised7, "a local closure capturing a run-time value, passed to ilist.map"),
                           (mod.plain8, mod.specialised8, "a constant closure with a captured value inside an already compiled subroutine, passed to ilist.map")):
            ref = EV.run_with_events(a, spec, (n,))
            got = EV.run_with_events(b, spec, (n,), plain=True)
            def show(v):
                return [show(x) for x in v] if hasattr(v, "__iter__") else v
            r1 = "err" if ref.error else f"ok {show(ref.result)}"
            r2 = "err" if got.error else f"ok {show(got.result)}"
            ctx.count("first_class_runs")
            if r1 != r2:
                ctx.fail({"source": FIRST_CLASS_SRC, "kernel": b.sym_name, "args": [n]},
                         f"a spec-reading subroutine {what}: specialised kernel run without a spec gives {r2}, the unspecialised "
                         f"kernel against the spec gives {r1}",
                         key="F22-first-class-method-not-injected" if what == "passed to ilist.map" and r2 == "err" else None)


SINGLE_KIND_SRC = '''from bloqade.shuttle import spec
from bloqade.shuttle.prelude import move
from harness.props import c06 as _C06

@move
def leaf_{k}():
    return {look}

@move
def rec_{k}(i: int):
    if i <= 0:
        return {look}
    return rec_{k}(i - 1)

@move
def plain_{k}(n: int):
    return (leaf_{k}(), rec_{k}(n))

@move(arch_spec=_C06.SPEC_SLOT)
def folded_{k}(n: int):
    return (leaf_{k}(), rec_{k}(n))

@move(arch_spec=_C06.SPEC_SLOT, fold=False)
def unfolded_{k}(n: int):
    return (leaf_{k}(), rec_{k}(n))
'''


def single_kind_stream(ctx, spec):
    """kernels whose ONLY spec lookups are of one kind and sit in subroutines (plain and recursive): nothing else in the call
    graph gives the injection pass a reason to re-link the caller to the specialised subroutines"""
    global SPEC_SLOT
    SPEC_SLOT = spec
    looks = {"special": 'spec.get_special_grid(grid_id="S")', "trap": 'spec.get_static_trap(zone_id="A")',
             "intc": 'spec.get_int_constant(constant_id="n2")', "floatc": 'spec.get_float_constant(constant_id="fh")'}
    for k, look in looks.items():
        src = SINGLE_KIND_SRC.replace("{k}", k).replace("{look}", look)
        try:
            mod = T.load_source(src, "c06k")
        except Exception as e:  # noqa: BLE001
            ctx.fail({"source": src}, f"a kernel whose only lookups are {k} lookups in subroutines does not compile with the spec: "
                                      f"{type(e).__name__}: {str(e)[:160]}")
            continue
        for n in (0, 2):
            ref = EV.run_with_events(getattr(mod, f"plain_{k}"), spec, (n,))
            r1 = "err" if ref.error else f"ok {ref.result!r}"
            for variant in ("folded", "unfolded"):
                got = EV.run_with_events(getattr(mod, f"{variant}_{k}"), spec, (n,), plain=True)
                r2 = "err" if got.error else f"ok {got.result!r}"
                ctx.count("single_kind_subroutine_runs")
                if r1 != r2:
                    ctx.fail({"source": src, "kernel": f"{variant}_{k}", "args": [n]},
                             f"only {k} lookups, all in subroutines: the specialised kernel run without a spec gives {r2[:160]}, the "
                             f"unspecialised kernel against the spec gives {r1[:160]}")


def mapping_tables_stream(ctx, spec):
    """the spec's constant tables may be any mapping - here dict subclasses that answer every key (`defaultdict`): a name that
    is not *in* the table is absent on both routes"""
    import collections
    import dataclasses
    global SPEC_SLOT
    from bloqade.shuttle.prelude import move
    from bloqade.shuttle.passes.inject_spec import InjectSpecsPass
    ints = collections.defaultdict(int, spec.int_constants)
    floats = collections.defaultdict(float, spec.float_constants)
    dd = dataclasses.replace(spec, int_constants=ints, float_constants=floats)
    SPEC_SLOT = dd
    try:
        mod = T.load_source(FIRST_CLASS_SRC, "c06dd")
    except Exception:  # noqa: BLE001
        return      # reported by first_class_stream
    for name in ("plain_absent", "plain_absent_sub"):
        base = getattr(mod, name)
        ref = EV.run_with_events(base, dd, (1,))
        ctx.count("mapping_table_runs")
        try:
            comp = base.similar()
            InjectSpecsPass(move, arch_spec=dd)(comp)
            got = EV.run_with_events(comp, dd, (1,), plain=True)
            r2 = "err" if got.error else f"ok {got.result}"
        except Exception:  # noqa: BLE001
            r2 = "err"      # refused at compile time: the name was not given a value
        r1 = "err" if ref.error else f"ok {ref.result}"
        if r1 != "err" or r2 != "err":
            ctx.fail({"source": FIRST_CLASS_SRC, "kernel": name, "spec": "constant tables are collections.defaultdict"},
                     f"a lookup of a name that is not in the spec's table was given a value: spec at run time {r1}, injected {r2}")
    if "not_there" in ints or "not_there_either" in floats:
        ctx.fail({"spec": "constant tables are collections.defaultdict"}, "a lookup of an absent name added the name to the spec's table")


def run(ctx):
    global SPEC_SLOT, SPEC_SLOT2
    feat = {"unknown": 0.05, "assert": 0.0, "wrong_kind": 0.05, "devfn_param": 0.2, "alias_subs": 0.3}
    g = L.MoveGen(ctx.rng, feat)
    # programs all of whose lookups are of ONE kind and that have no device call (nothing else for the pass to rewrite)
    g_one = {k: L.MoveGen(ctx.rng, dict(feat, look_kinds=(k,), devcalls=False, parallel=False, devfn_param=0.0, unknown=0.0,
                                          wrong_kind=0.0))
             for k in ("special", "trap", "intC", "floatC")}
    n_prog = 500 if ctx.tier == "thorough" else 60
    sp_list = specs()
    lines_spec, lines_inj, rows = [], [], []
    for pi in range(n_prog):
        if pi % 4 == 3:
            kind = ("special", "special", "trap", "intC", "floatC")[(pi // 4) % 5]
            fns, argsets = g_one[kind].program()
            ctx.count("single_kind_programs_" + kind)
        else:
            fns, argsets = g.program()
        spec = sp_list[pi % len(sp_list)]
        table = L.sx_spec_table(spec)
        src_plain = L.program_source(fns)
        src_spec = L.program_source(fns, main_decorator="move(arch_spec=_C06.SPEC_SLOT)").replace(
            "from bloqade.shuttle.prelude import tweezer, move\n",
            "from bloqade.shuttle.prelude import tweezer, move\nfrom harness.props import c06 as _C06\n")
        # a second entry point with the same body, compiled after the first one with ANOTHER spec:
        # the subroutines are shared between the two specialised kernels
        spec2 = sp_list[(pi + 1) % len(sp_list)]
        main2 = dict(fns[-1], name="main2")
        src_spec += "\n".join(L.fn_source(main2, 0, True, "move(arch_spec=_C06.SPEC_SLOT2)")) + "\n"
        SPEC_SLOT2 = spec2
        try:
            mod_plain = T.load_source(src_plain, "c06p")
        except Exception as e:  # noqa: BLE001
            ctx.count("compile_fail")
            continue
        SPEC_SLOT = spec
        try:
            mod_spec = T.load_source(src_spec, "c06s")
            spec_compile_err = None
        except Exception as e:  # noqa: BLE001
            mod_spec = None
            spec_compile_err = f"{type(e).__name__}: {str(e)[:200]}"
        ctx.count("programs")
        prog_sx = L.sx_program(fns)
        deep = has_deep_lookup(fns)
        for a in argsets:
            ref = canon_run(EV.run_with_events(mod_plain.main, spec, a))
            if mod_spec is None:
                comp = "compile-error"
            else:
                comp = canon_run(EV.run_with_events(mod_spec.main, spec, a, plain=True))
            case = {"source": src_plain[len(L.HDR):], "args": list(a), "spec": "s%d" % (pi % len(sp_list)),
                    "spec_compile_error": spec_compile_err}
            argsx = " ".join(L.sx_val(x) for x in a)
            lines_spec.append(f"(LANG (run spec {table} {prog_sx} main ({argsx})))")
            lines_inj.append(f"(LANG (run inject {table} {prog_sx} main ({argsx})))")
            rows.append((case, ref, comp))
            # second entry point under the second spec
            ref2 = canon_run(EV.run_with_events(mod_plain.main, spec2, a))
            comp2 = "compile-error" if mod_spec is None else canon_run(EV.run_with_events(mod_spec.main2, spec2, a, plain=True))
            table2 = L.sx_spec_table(spec2)
            lines_spec.append(f"(LANG (run spec {table2} {prog_sx} main ({argsx})))")
            lines_inj.append(f"(LANG (run inject {table2} {prog_sx} main ({argsx})))")
            rows.append((dict(case, spec="second entry point, spec s%d, compiled after the first" % ((pi + 1) % len(sp_list))), ref2, comp2))
            ctx.seen((src_plain, a, pi % len(sp_list)), deep)
            ctx.count("runs")
            ctx.count("runs_ok" if ref.startswith("ok") else "runs_err")
    if ctx.counts.get("compile_fail", 0) > 0.3 * n_prog:
        raise HarnessFault("generator degenerate: >30% of generated programs do not compile")
    first_class_stream(ctx, sp_list[0])
    mapping_tables_stream(ctx, sp_list[0])
    single_kind_stream(ctx, sp_list[0])
    m_spec = ctx.driver(lines_spec)
    m_inj = ctx.driver(lines_inj)
    ctx.traces_validated = len(rows)
    for (case, ref, comp), ms, mi in zip(rows, m_spec, m_inj):
        if ms.startswith("bad") or mi.startswith("bad") or "fuel" in (ms, mi):
            raise HarnessFault(f"driver could not run a program: {ms[:100]} {mi[:100]}")
        if ref != ms:
            ctx.disagree(case, ref[:400], ms[:400], "unspecialised kernel under the spec interpreter vs Lang.run spec")
        if comp != mi and comp != "compile-error":
            ctx.disagree(case, comp[:400], mi[:400], "specialised kernel under the plain interpreter vs Lang.run (inject, no spec)")
        # ---- the property on the real code --------------------------------------------
        if comp == "compile-error":
            # no compiled kernel exists, so the property says nothing; counted, and the run fails
            # its own sanity check below if this becomes frequent (kirin's verifier rejects some
            # callee clones whose call-site operand types it could not infer)
            ctx.count("spec_compile_rejected")
            ctx.note(f"spec compile rejected: {case['spec_compile_error'][:160]}")
            if not case["spec_compile_error"].startswith("TypeCheckError"):
                # kirin's verifier rejecting a callee clone (TypeCheckError) is the one benign rejection seen on the pinned
                # tree; anything else means a program that compiles without a spec cannot be compiled with one
                ctx.fail(case, f"the program compiles without a spec, but compiling it with the spec raises: {case['spec_compile_error'][:200]}")
        elif comp != ref:
            ctx.fail(case, f"specialised kernel run without a spec differs from the unspecialised kernel run against the spec: "
                           f"compiled={comp[:300]} reference={ref[:300]}")
    for k in (0, len(rows) // 2):
        if k < len(rows):
            ctx.sample({"source": rows[k][0]["source"][:1200], "args": rows[k][0]["args"], "reference": rows[k][1][:300], "compiled": rows[k][2][:300]})
    if ctx.counts.get("spec_compile_rejected", 0) > 0.1 * len(rows):
        # an occasional verifier rejection of a callee clone is known on the pinned tree (none at most seeds); one program in ten
        # is not that: programs that compile without a spec stop compiling with one
        first = next((r[0] for r in rows if r[0].get("spec_compile_error")), {"note": "see notes"})
        ctx.fail(first, f"{ctx.counts['spec_compile_rejected']} of {len(rows)} runs: the program compiles without a spec but is rejected "
                        f"when compiled with one: {str(first.get('spec_compile_error'))[:200]}")
    if ctx.counts.get("runs_ok", 0) < 0.3 * len(rows) or ctx.counts.get("runs_err", 0) < 3:
        raise HarnessFault(f"generator degenerate: {ctx.counts}")
