"""C02 — reversal is exact time reversal and an involution."""
from ..core import HarnessFault
from ..sexp import sx
from .. import tweezer as T

ID = "C02"
CASE_REPLAY = True
MODULES = ["Shuttle.Props.C02"]
RULE = ("reverse_path on (a) every path traced from seeded random tweezer programs and (b) synthetic action lists "
        "over all eight switch classes with slice and list selectors (not necessarily well formed), compared with the "
        "model driven by the regenerated inv table and with the specification flipPath; involution checked on the real "
        "objects; schedule level: f / reverse(f) / reverse(reverse(f)) played through the real interpreter. "
        "non-trivial = path with a switch and a multi-waypoint segment; distinct = distinct canonical paths.")
TRUSTED = ["modelled, not verified: kirin interpreter loop, bloqade-geometry Grid, dataclass equality of actions"]
ASSUMPTIONS = ["coordinates are dyadic rationals for which binary64 arithmetic is exact"]


def synth_path(rng):
    from kirin.dialects import ilist
    from bloqade.geometry.dialects.grid import Grid
    from bloqade.shuttle.codegen import taskgen as tg
    classes = [getattr(tg, f"Turn{o}{s}Action") for o in ("On", "Off") for s in ("XY", "XSlice", "YSlice", "XYSlice")]
    out = []
    for _ in range(rng.randrange(0, 7)):
        if rng.random() < 0.5:
            n = rng.randrange(0, 4)
            out.append(tg.WayPointsAction([Grid.from_positions([float(rng.randrange(5)), 7.5], [float(rng.randrange(3))])
                                           for _ in range(n)]))
        else:
            c = rng.choice(classes)
            def sel():
                if rng.random() < 0.5:
                    return slice(rng.choice([None, 0, 1]), rng.choice([None, 2, -1]), rng.choice([None, 1, 2]))
                return ilist.IList([rng.randrange(4) for _ in range(rng.randrange(0, 3))])
            out.append(c(sel(), sel()))
    return out


def run(ctx):
    from bloqade.shuttle.codegen import reverse_path
    spec = T.default_spec()
    traps, zones = T.spec_tables(spec)
    paths = []   # (case, real path)
    if ctx.replay_case is not None and "kernels" in ctx.replay_case:
        rc = T.detuple(ctx.replay_case)
        for c in T.trace_program(ctx, spec, traps, list(rc["kernels"]), [rc["args"]]):
            if c.path is not None:
                paths.append((c.as_case(), c.path))
    else:
        n_prog = 600 if ctx.tier == "thorough" else 80
        corpus = []
        for c in T.CORPUS:
            corpus += T.trace_program(ctx, spec, traps, c["kernels"], [c["args"]])
        for c in corpus + T.random_traces(ctx, spec, n_prog):
            if c.path is not None:
                paths.append((c.as_case(), c.path))
        for i in range(3000 if ctx.tier == "thorough" else 400):
            p = synth_path(ctx.rng)
            paths.append(({"synthetic_path": T.canon_path(p)}, p))
    reqs, impls = [], []
    for case, p in paths:
        cp = T.canon_path(p)
        reqs.append(cp)
        try:
            r = reverse_path(p)
            impls.append("ok " + T.canon_path(r))
            rr = reverse_path(r)
            if rr != p or T.canon_path(rr) != cp:
                ctx.fail(case, "reverse_path(reverse_path(p)) != p on the real objects")
            if r is p or any(a is b for a in r for b in p if type(a).__name__ == "WayPointsAction"):
                ctx.fail(case, "reverse_path shares mutable waypoint objects with its input")
        except Exception as e:  # noqa: BLE001
            impls.append("err")
            ctx.fail(case, f"reverse_path raised {type(e).__name__}")
        ctx.seen(cp, "(sw" in cp and ") (g" in cp)
        ctx.count("paths")
        ctx.count("with_switch" if "(sw" in cp else "without_switch")
    model = ctx.driver([f"(C02 (rev {r}))" for r in reqs])
    spec_ = ctx.driver([f"(C02 (flip {r}))" for r in reqs])
    ctx.traces_validated = len(reqs)
    for (case, p), i, m, s in zip(paths, impls, model, spec_):
        if m.startswith("bad") or s.startswith("bad"):
            raise HarnessFault(f"driver rejected a path: {m} {s}")
        if i != m:
            ctx.disagree(case, i, m, "reverse_path vs model")
        if i != s:
            ctx.fail(case, f"reverse_path is not time reversal: impl={i[:400]} spec={s[:400]}")
    for k in (0, len(reqs) // 2, len(reqs) - 1):
        if 0 <= k < len(reqs):
            ctx.sample({"path": reqs[k][:300], "reverse_path": impls[k][:300], "spec": spec_[k][:300]})
    schedule_level(ctx, spec)
    if ctx.replay_case is None and ctx.counts.get("with_switch", 0) < 50:
        raise HarnessFault("generator degenerate: too few paths with switches")


SCHED_SRC = '''
from typing import Any
from bloqade.geometry.dialects import grid
from kirin.dialects import ilist
from bloqade.shuttle import action, spec, schedule
from bloqade.shuttle.prelude import tweezer, move

@tweezer
def kern(g: grid.Grid[Any, Any], n: int, s):
    action.set_loc(g)
    action.turn_on(s, action.ALL)
    c = 0
    for i in range(n):
        c = c + 1
        action.move(grid.shift(g, 1.5 * c, 0.5 * i))
    action.turn_off(s, [0])
    action.move(grid.shift(g, 0.0, -2.0))

@move
def prog(g: grid.Grid[Any, Any], n: int, s):
    f = schedule.device_fn(kern, ilist.IList([0, 1]), ilist.IList([0]))
    f(g, n, s)
    r = schedule.reverse(f)
    r(g, n, s)
    rr = schedule.reverse(r)
    rr(g, n, s)
    rrr = schedule.reverse(rr)
    rrr(g, s=s, n=n)

@move
def undo(task):
    return schedule.reverse(task)

@move
def undo_and_play(task, g: grid.Grid[Any, Any], n: int, s):
    r = schedule.reverse(task)
    r(g, n, s)

@move
def prog2(g: grid.Grid[Any, Any], n: int, s):
    # the reversals happen in helper kernels: what is reversed there is a parameter, not the result of a visible `reverse`
    f = schedule.device_fn(kern, ilist.IList([0, 1]), ilist.IList([0]))
    f(g, n, s)
    undo_and_play(f, g, n, s)
    undo_and_play(schedule.reverse(f), g, n, s)
    rrr = schedule.reverse(undo(undo(f)))
    rrr(g, s=s, n=n)
'''


def schedule_level(ctx, spec):
    """f, reverse(f), reverse(reverse(f)), reverse^3(f) with equal arguments through the real
    interpreter: paths 0 and 2 equal, 1 and 3 equal, and 1 = time reversal of 0."""
    from kirin.dialects import ilist
    from bloqade.geometry.dialects.grid import Grid
    from ..events import run_with_events
    mod = T.load_source(SCHED_SRC, "sched")
    reqs = []
    metas = []
    for n in range(0, 4):
        for s in (slice(None), slice(0, 1), ilist.IList([0]), ilist.IList([0, 1])):
          for prog in (mod.prog, mod.prog2):
              g = Grid.from_positions([0.0, float(2 + n)], [1.0])
              ev = run_with_events(prog, spec, (g, n, s))
              if ev.error is not None:
                  ctx.fail({"schedule": True, "n": n, "sel": T.canon_sel(s)},
                           f"schedule-level run raised {ev.error}")
                  continue
              ps = [e[1] for e in ev.events if e[0] == "play"]
              if len(ps) != 4:
                  raise HarnessFault(f"expected 4 played paths, got {len(ps)}")
              cps = [T.canon_path(p.path) for p in ps]
              case = {"schedule": True, "program": prog.sym_name, "n": n, "sel": T.canon_sel(s)}
              ctx.seen(("sched", prog.sym_name, n, T.canon_sel(s)), True)
              ctx.count("schedule_runs")
              if cps[0] != cps[2]:
                  ctx.fail(case, "reverse(reverse(f)) does not behave as f")
              if cps[1] != cps[3]:
                  ctx.fail(case, "reverse^3(f) does not behave as reverse(f)")
              reqs.append(cps[0])
              metas.append((case, cps[1]))
    flips = ctx.driver([f"(C02 (flip {r}))" for r in reqs])
    for (case, got), want in zip(metas, flips):
        if "ok " + got != want:
            ctx.fail(case, f"f and reverse(f) are not mutually reversed: got={got[:300]} want={want[:300]}")
