"""C12 — a filled grid is its grid minus its vacancies, under all operations."""
import itertools
from fractions import Fraction

from ..core import HarnessFault
from ..sexp import frac, sx
from .. import tweezer as T

ID = "C12"
MODULES = ["Shuttle.Props.C12"]
RULE = ("operation chains over filled grids: base grids of every shape up to 3x3, vacate/fill with index lists "
        "(inside and outside the shape, repeated), get_view with sorted / unsorted / repeated indices, slicing, shift, "
        "scale, repeat, get_parent; exhaustive small scope (all shapes <= 2x2 (thorough 3x2) x all vacancy subsets x all "
        "view index selections x repeat counts) plus seeded random chains of <= 7 operations; each chain is evaluated "
        "by the Python methods, by a generated @move kernel using the filled/grid statements, and by the Lean model; "
        "the denotational oracle (occupied sites transform like the underlying sites) is evaluated on the real objects. "
        "non-trivial = chain with a vacancy inside the shape and at least one transforming operation; distinct = distinct chains.")
TRUSTED = ["modelled, not verified: bloqade-geometry Grid/SubGrid (Model/Grid.lean, compared on every chain), kirin lowering and "
           "interpreter for the kernel-level route, Python frozenset semantics"]
ASSUMPTIONS = ["coordinates are dyadic rationals for which binary64 arithmetic is exact"]

KSRC = '''from typing import Any
from bloqade.geometry.dialects import grid
from kirin.dialects import ilist
from bloqade.shuttle import filled
from bloqade.shuttle.prelude import move

'''


# ------------------------------------------------------------------ expression helpers
def fl(q):
    return repr(float(Fraction(q)))


def src(e) -> str:
    """kernel-source rendering of a chain expression"""
    k = e[0]
    if k == "from":
        return f"grid.from_positions([{', '.join(fl(q) for q in e[1])}], [{', '.join(fl(q) for q in e[2])}])"
    if k in ("vacate", "fill"):
        return f"filled.{k}({src(e[1])}, ilist.IList([{', '.join(f'({a}, {b})' for a, b in e[2])}]))"
    if k == "shift":
        return f"filled.shift({src(e[1])}, {fl(e[2])}, {fl(e[3])})"
    if k == "scale":
        return f"filled.scale({src(e[1])}, {fl(e[2])}, {fl(e[3])})"
    if k == "rep":
        return f"filled.repeat({src(e[1])}, {e[2]}, {e[3]}, {fl(e[4])}, {fl(e[5])})"
    if k == "sub":
        return f"grid.sub_grid({src(e[1])}, [{', '.join(map(str, e[2]))}], [{', '.join(map(str, e[3]))}])"
    if k == "item":
        return f"{src(e[1])}[{T.src_index(e[2])}, {T.src_index(e[3])}]"
    if k == "parent":
        return f"filled.get_parent({src(e[1])})"
    raise ValueError(e)


def py_eval(e):
    """evaluate with the Python methods of the real classes"""
    from kirin.dialects import ilist
    from bloqade.geometry.dialects.grid import Grid
    from bloqade.shuttle.dialects.filled.types import FilledGrid
    k = e[0]
    if k == "from":
        return Grid.from_positions([float(q) for q in e[1]], [float(q) for q in e[2]])
    return _apply(e, py_eval(e[1]))


def _apply(e, v):
    """apply the outermost operation of `e` to the already evaluated operand `v`"""
    from kirin.dialects import ilist
    from bloqade.shuttle.dialects.filled.types import FilledGrid
    k = e[0]
    if k == "vacate":
        # `vacancies: Iterable[...]`: every kind of iterable, one-shot ones included (the form is a function of the indices,
        # so a replay uses the same one)
        pairs = [tuple(p) for p in e[2]]
        form = (len(pairs) + sum(a + 2 * b for a, b in pairs)) % 6
        arg = (ilist.IList(pairs), pairs, tuple(pairs), (p for p in pairs), zip([a for a, _ in pairs], [b for _, b in pairs]),
               iter(pairs))[form]
        return FilledGrid.vacate(v, arg)
    if k == "fill":
        pairs = [tuple(p) for p in e[2]]
        form = (len(pairs) + sum(a + 2 * b for a, b in pairs)) % 3
        return FilledGrid.fill(v, (ilist.IList(pairs), pairs, tuple(pairs))[form])
    if k == "shift":
        return v.shift(float(e[2]), float(e[3]))
    if k == "scale":
        return v.scale(float(e[2]), float(e[3]))
    if k == "rep":
        return v.repeat(e[2], e[3], float(e[4]), float(e[5]))
    if k == "sub":
        return v.get_view(ilist.IList(list(e[2])), ilist.IList(list(e[3])))
    if k == "item":
        def ix(i):
            return i[1] if i[0] == "i" else slice(i[1], i[2], i[3])
        return v[ix(e[2]), ix(e[3])]
    if k == "parent":
        if not isinstance(v, FilledGrid):
            raise TypeError("not filled")
        return v.parent
    raise ValueError(e)


def observe(v):
    """read everything a caller may read from a grid value (fills cached properties)"""
    _ = (v.positions, v.x_positions, v.y_positions, v.shape, v.width, v.height, hash(v), v == v)
    try:
        _ = (v.x_bounds(), v.y_bounds())
    except ValueError:
        pass
    return v


def py_eval_observing(e):
    """as py_eval, but every intermediate value is observed before it is used"""
    if e[0] == "from":
        return observe(py_eval(e))
    inner = py_eval_observing(e[1])
    return observe(_apply(e, inner))


def underlying(v):
    """root non-filled grid of a (possibly nested) FilledGrid"""
    from bloqade.shuttle.dialects.filled.types import FilledGrid
    while isinstance(v, FilledGrid):
        v = v.parent
    return v


def canon_val(v) -> str:
    from bloqade.shuttle.dialects.filled.types import FilledGrid
    if isinstance(v, FilledGrid):
        vac = sorted((int(a), int(b)) for a, b in v.vacancies)
        pos = [(frac(x), frac(y)) for x, y in v.positions]
        return f"(filled {T.canon_geom(v)} {sx([list(p) for p in vac])} {sx([list(p) for p in pos])})"
    return f"(grid {T.canon_geom(v)})"


def sites(g):
    return [(i, j, frac(x), frac(y)) for i, x in enumerate(g.x_positions) for j, y in enumerate(g.y_positions)]


def occupied(v):
    """specification of the denotation: underlying sites minus vacancies (by index)"""
    vac = set(v.vacancies)
    return [(x, y) for i, j, x, y in sites(underlying(v)) if (i, j) not in vac]


def oracle_step(op, before, after):
    """Does `after = op(before)` transform occupied sites as the property says?  returns problem or None"""
    from bloqade.shuttle.dialects.filled.types import FilledGrid
    k = op[0]
    if not isinstance(after, FilledGrid):
        return None
    got = [(frac(x), frac(y)) for x, y in after.positions]
    if got != occupied(after):
        return "positions != underlying sites minus vacancies"
    # the underlying grid is a grid: nothing in its ancestry is filled, and looking at it through a full view shows every site
    u = after.parent
    anc = u
    while anc is not None:
        if isinstance(anc, FilledGrid):
            return "the underlying grid of a filled grid is (a view of) a filled grid"
        anc = getattr(anc, "parent", None)
    from kirin.dialects import ilist as _il
    nx_, ny_ = u.shape
    if nx_ and ny_:
        w = u.get_view(_il.IList(list(range(nx_))), _il.IList(list(range(ny_))))
        if isinstance(w, FilledGrid) or len(list(w.positions)) != nx_ * ny_:
            return "a full view of the underlying grid of a filled grid does not show all its sites"
    if not isinstance(before, FilledGrid):
        if k == "vacate":
            want_vac = set(tuple(p) for p in op[2])
        elif k == "fill":
            nx, ny = before.shape
            want_vac = set(itertools.product(range(nx), range(ny))) - set(tuple(p) for p in op[2])
        else:
            return None
        return None if set(after.vacancies) == want_vac and underlying(after) == before else f"{k} of a plain grid gives wrong vacancies"
    bocc = occupied(before)
    bu = underlying(before)
    if k == "vacate":
        ok = set(after.vacancies) == set(before.vacancies) | set(tuple(p) for p in op[2]) and underlying(after) == bu
        return None if ok else "vacate is not cumulative over the existing vacancies"
    if k == "fill":
        ok = set(after.vacancies) == set(before.vacancies) - set(tuple(p) for p in op[2]) and underlying(after) == bu
        return None if ok else "fill is not cumulative over the existing vacancies"
    if k == "shift":
        dx, dy = Fraction(op[2]), Fraction(op[3])
        return None if got == [(x + dx, y + dy) for x, y in bocc] else "shift does not move the occupied sites like the grid's sites"
    if k == "scale":
        x0, y0 = frac(bu.x_init), frac(bu.y_init)
        s, t = Fraction(op[2]), Fraction(op[3])
        return None if got == [(x0 + (x - x0) * s, y0 + (y - y0) * t) for x, y in bocc] else "scale does not scale the occupied sites like the grid's sites"
    if k == "rep":
        au = underlying(after)
        nx, ny = bu.shape
        vac = set(before.vacancies)
        want = [(x, y) for i, j, x, y in sites(au) if (i % nx, j % ny) not in vac]
        if underlying(after) != bu.repeat(op[2], op[3], float(op[4]), float(op[5])):
            return "repeat: underlying grid is not the repeated underlying grid"
        return None if got == want else "repeat does not tile the vacancy pattern"
    if k in ("sub", "item"):
        if k == "sub":
            xi, yi = list(op[2]), list(op[3])
        else:
            from bloqade.geometry.dialects.grid.types import get_indices
            def ix(i):
                return i[1] if i[0] == "i" else slice(i[1], i[2], i[3])
            xi = list(get_indices(bu.shape[0], ix(op[2])))
            yi = list(get_indices(bu.shape[1], ix(op[3])))
        if k == "item" and any(i < 0 for i in xi + yi):
            # a negative integer in `[...]` counts from the end, as everywhere in Python: the result is the view with the
            # corresponding non-negative index
            nxb, nyb = bu.shape
            xi = [i + nxb if i < 0 else i for i in xi]
            yi = [j + nyb if j < 0 else j for j in yi]
        if any(i < 0 for i in xi + yi):
            return None   # negative indices in get_view's lists: outside the documented index domain
        vac = set(before.vacancies)
        # (1) the vacancy pattern is re-indexed through the index lists (any lists)
        want_vac = set((a, b) for a, i in enumerate(xi) for b, j in enumerate(yi) if (i, j) in vac)
        if set(after.vacancies) != want_vac:
            return "view does not re-index the vacancy pattern"
        # (2) the occupied sites are the selected sites of the root grid; bloqade-geometry's SubGrid
        # only denotes root sites for ascending index lists (finding F10), so check those only
        au = underlying(after)
        if type(au).__name__ == "SubGrid":
            cxi, cyi = [int(i) for i in au.x_indices], [int(i) for i in au.y_indices]
            if sorted(cxi) == cxi and sorted(cyi) == cyi and min(cxi + cyi) >= 0:
                rx, ry = [frac(x) for x in au.parent.x_positions], [frac(y) for y in au.parent.y_positions]
                want = [(rx[i], ry[j]) for a, i in enumerate(cxi) for b, j in enumerate(cyi) if (a, b) not in want_vac]
                if got != want:
                    return "view does not show exactly the occupied sites of the selected rows/columns"
        return None
    return None


# ------------------------------------------------------------------ generators
def rand_positions(rng, n):
    x = Fraction(rng.randrange(-6, 7), rng.choice([1, 2]))
    out = [x]
    for _ in range(n - 1):
        x += Fraction(rng.randrange(1, 7), rng.choice([1, 2]))
        out.append(x)
    return out


def rand_chain(rng):
    nx, ny = rng.randrange(1, 4), rng.randrange(1, 4)
    e = ("from", rand_positions(rng, nx), rand_positions(rng, ny))
    ops = []
    filled = False
    for _ in range(rng.randrange(1, 8)):
        r = rng.random()
        if not filled or r < 0.3:
            k = rng.choice(["vacate", "fill"])
            n = rng.randrange(0, 4)
            idx = [(rng.randrange(-1, nx + 1), rng.randrange(0, ny + 1)) for _ in range(n)]
            e = (k, e, idx)
            filled = True
        elif r < 0.45:
            e = ("shift", e, Fraction(rng.randrange(-8, 9), 2), Fraction(rng.randrange(-8, 9), 2))
        elif r < 0.55:
            e = ("scale", e, Fraction(rng.choice([1, 2, 3, 4]), rng.choice([1, 2])), Fraction(rng.choice([1, 2, 3]), rng.choice([1, 2])))
        elif r < 0.70 and nx * ny <= 9:
            xt, yt = rng.randrange(1, 3), rng.randrange(1, 3)
            e = ("rep", e, xt, yt, Fraction(rng.randrange(1, 9), 2), Fraction(rng.randrange(1, 9), 2))
            nx, ny = nx * xt, ny * yt
        elif r < 0.88:
            kx, ky = rng.randrange(1, min(nx, 3) + 1), rng.randrange(1, min(ny, 3) + 1)
            mode = rng.random()
            if mode < 0.6:
                xi, yi = sorted(rng.sample(range(nx), kx)), sorted(rng.sample(range(ny), ky))
            elif mode < 0.8:   # repeated indices
                xi = sorted(rng.choice(range(nx)) for _ in range(kx + 1))
                yi = sorted(rng.choice(range(ny)) for _ in range(ky))
            else:              # unsorted
                xi, yi = rng.sample(range(nx), kx), rng.sample(range(ny), ky)
            e = ("sub", e, xi, yi)
            nx, ny = len(xi), len(yi)
        elif r < 0.97:
            a = rng.randrange(0, nx)
            b = rng.randrange(0, ny)
            ix = ("i", a) if rng.random() < 0.4 else (("sl", a, rng.randrange(a + 1, nx + 1), None) if rng.random() < 0.6 else
                                                     ("sl", rng.choice([None, 0, a]), None, rng.choice([1, 2, 2, 3])))
            iy = ("i", b) if rng.random() < 0.4 else ("sl", rng.choice([None, b]), None, rng.choice([None, 1, 2]))
            e = ("item", e, ix, iy)
            nx = 1 if ix[0] == "i" else len(range(nx)[slice(ix[1], ix[2], ix[3])])
            ny = 1 if iy[0] == "i" else len(range(ny)[slice(iy[1], iy[2], iy[3])])
            if nx == 0 or ny == 0:
                break
        else:
            e = ("parent", e)
            filled = False
    return e


def exhaustive_chains(thorough):
    """all shapes x all vacancy subsets x one further operation from a complete small menu"""
    out = []
    shapes = [(1, 1), (1, 2), (2, 1), (2, 2)] + ([(3, 2), (2, 3)] if thorough else [])
    for nx, ny in shapes:
        base = ("from", [Fraction(2 * i) + Fraction(i * i, 2) for i in range(nx)], [Fraction(3 * j) for j in range(ny)])
        cells = list(itertools.product(range(nx), range(ny)))
        for r in range(len(cells) + 1):
            for vac in itertools.combinations(cells, r):
                f = ("vacate", base, list(vac))
                out.append(f)
                out.append(("fill", base, list(vac)))
                # all view selections (index lists of length 1..2 over the axis, with repetition, any order)
                xsel = [list(t) for k in (1, 2) for t in itertools.product(range(nx), repeat=k)]
                ysel = [list(t) for k in (1, 2) for t in itertools.product(range(ny), repeat=k)]
                for xi in xsel:
                    for yi in ysel:
                        out.append(("sub", f, xi, yi))
                # slicing, stepped slices included (a vacancy may sit on a skipped row / column)
                sls = [("sl", None, None, None), ("sl", None, None, 2), ("sl", 1, None, 2), ("sl", 0, 1, None), ("i", 0), ("i", -1)]
                for ixs in sls:
                    for iys in sls:
                        if len(range(nx)[slice(*ixs[1:])] if ixs[0] == "sl" else [0]) and len(range(ny)[slice(*iys[1:])] if iys[0] == "sl" else [0]):
                            out.append(("item", f, ixs, iys))
                for xt, yt in ((1, 2), (2, 1), (2, 2)):
                    out.append(("rep", f, xt, yt, Fraction(5, 2), Fraction(7)))
                out.append(("shift", f, Fraction(3, 2), Fraction(-2)))
                out.append(("scale", f, Fraction(2), Fraction(1, 2)))
                for c in cells[:2]:
                    out.append(("vacate", f, [c]))
                    out.append(("fill", f, [c]))
    return out


def steps(e):
    """the chain as [(sub-expression, op)] from the base outwards"""
    out = []
    while e[0] != "from":
        out.append(e)
        e = e[1]
    return list(reversed(out))


def run(ctx):
    from bloqade.shuttle.dialects.filled.types import FilledGrid
    thorough = ctx.tier == "thorough"
    if ctx.replay_case is not None:
        chains = [T.detuple(ctx.replay_case["chain"])]
    else:
        chains = exhaustive_chains(thorough)
        # view selections that repeat one index and skip another, on axes of length 3 and 4
        b32 = ("from", [Fraction(0), Fraction(2), Fraction(5)], [Fraction(0), Fraction(3)])
        b43 = ("from", [Fraction(0), Fraction(1), Fraction(3), Fraction(6)], [Fraction(0), Fraction(2), Fraction(5)])
        for base, vacs, sels in ((b32, [[(1, 0)], [(0, 0), (2, 1)], [(0, 1)]], [([0, 0, 2], [0, 1]), ([0, 2, 2], [0, 1]), ([2, 0, 0], [1, 0])]),
                                 (b43, [[(1, 1)], [(2, 0), (3, 2)], [(0, 0), (1, 2)]], [([1, 1, 3], [0, 1, 2]), ([0, 0, 2], [0, 0, 2]), ([0, 1, 3, 3], [1, 1])])):
            for vac in vacs:
                for xi, yi in sels:
                    chains.append(("sub", ("vacate", base, vac), xi, yi))
                    chains.append(("sub", ("fill", base, vac), xi, yi))
        ctx.count("exhaustive_chains", len(chains))
        chains += [rand_chain(ctx.rng) for _ in range(6000 if thorough else 600)]
        ctx.exhaustive = True
    reqs, impls = [], []
    vals = []
    for e in chains:
        reqs.append("(C12 (eval " + sx(e) + "))")
        try:
            v = py_eval(e)
        except Exception as ex:  # noqa: BLE001
            v = None
            ctx.count("impl_err_" + type(ex).__name__)
        vals.append(v)
        impls.append("err" if v is None else "ok " + canon_val(v))
        inside = any(s[0] in ("vacate", "fill") and s[2] for s in steps(e))
        ctx.seen(sx(e), inside and len(steps(e)) >= 2)
        for s in steps(e):
            ctx.count("op_" + s[0])
    model = ctx.driver(reqs)
    ctx.traces_validated = len(reqs)
    for e, i, m in zip(chains, impls, model):
        if m.startswith("bad"):
            raise HarnessFault(f"driver rejected {sx(e)[:300]}")
        if i != m:
            ctx.disagree({"chain": e}, i[:500], m[:500], "FilledGrid methods vs model")
    # ---- oracle on the real objects: every step of every chain -------------
    for e, v in zip(chains, vals):
        if v is None:
            continue
        st = steps(e)
        cur = None
        try:
            prev = py_eval(st[0][1]) if st else None
            for s in st:
                cur = py_eval(s)
                prob = oracle_step(s, prev, cur)
                if prob:
                    ctx.fail({"chain": e, "step": sx(s)[:300]}, prob)
                    break
                prev = cur
        except Exception as ex:  # noqa: BLE001
            raise HarnessFault(f"oracle crashed on {sx(e)[:300]}: {type(ex).__name__}: {ex}")
    # ---- histories: the same chain evaluated step by step on live objects, observing every
    # intermediate value (positions, shape, bounds, hash, ==) before the next operation; the
    # final value must equal the one obtained without looking
    for e, v, i in zip(chains, vals, impls):
        if v is None or len(steps(e)) < 2:
            continue
        try:
            got = canon_val(py_eval_observing(e))
        except Exception as ex:  # noqa: BLE001
            got = "err:" + type(ex).__name__
        ctx.count("observed_histories")
        if "ok " + got != i:
            ctx.fail({"chain": e, "mode": "intermediate values observed before each step"},
                     f"observing intermediate values changes the result: observed={got[:300]} unobserved={i[:300]}")
    # ---- equality / hash: pairs of chains with the same denotation ----------
    eq_hash(ctx, chains, vals)
    # ---- kernel level: the statements compute what the methods compute ------
    kernel_level(ctx, chains, vals, impls, 400 if thorough else 60)
    for k in (5, len(chains) // 2, len(chains) - 1):
        if 0 <= k < len(chains):
            ctx.sample({"chain": sx(chains[k])[:300], "impl": impls[k][:300], "model": model[k][:300]})


def eq_hash(ctx, chains, vals):
    from bloqade.shuttle.dialects.filled.types import FilledGrid
    fs = [(e, v) for e, v in zip(chains, vals) if isinstance(v, FilledGrid)]
    # bucket by (underlying grid, vacancy set): members must be == and hash-equal; different buckets !=
    buckets = {}
    for e, v in fs:
        key = (T.canon_geom(underlying(v)), frozenset(v.vacancies))
        buckets.setdefault(key, []).append((e, v))
    n_pairs = 0
    for key, members in buckets.items():
        e0, v0 = members[0]
        for e1, v1 in members[1:6]:
            n_pairs += 1
            if not (v0 == v1 and v1 == v0):
                ctx.fail({"chain": e0, "chain2": e1}, "filled grids with the same underlying grid and vacancy set are not ==")
            elif hash(v0) != hash(v1):
                ctx.fail({"chain": e0, "chain2": e1}, "equal filled grids hash differently")
    keys = list(buckets)
    for a, b in zip(keys, keys[1:]):
        va, vb = buckets[a][0][1], buckets[b][0][1]
        n_pairs += 1
        if va == vb:
            ctx.fail({"chain": buckets[a][0][0], "chain2": buckets[b][0][0]},
                     "filled grids differing in underlying grid or vacancy set compare ==")
    # a filled grid against plain grids: never == a grid whose site set differs (in either operand order)
    from bloqade.geometry.dialects.grid import Grid
    for e, v in fs[:400]:
        u = underlying(v)
        plain = Grid(tuple(u.x_spacing), tuple(u.y_spacing), u.x_init, u.y_init)
        n_pairs += 1
        if set(v.positions) != set(plain.positions) and (v == plain or plain == v):
            ctx.fail({"chain": e}, "a filled grid with vacant sites compares == to the plain grid it was made from")
        elif (v == plain) != (plain == v):
            ctx.fail({"chain": e}, "== between a filled grid and a plain grid depends on the operand order")
    ctx.count("eq_pairs", n_pairs)
    ctx.count("eq_buckets_multi", sum(1 for m in buckets.values() if len(m) > 1))


def kernel_level(ctx, chains, vals, impls, n):
    pick = [i for i in range(len(chains)) if vals[i] is not None and
            all(s[0] != "item" or True for s in steps(chains[i]))]
    ctx.rng.shuffle(pick)
    pick = pick[:n]
    if not pick:
        return
    body = [KSRC]
    for k, i in enumerate(pick):
        body.append(f"@move\ndef k{k}():\n    return {src(chains[i])}\n\n")
    try:
        mod = T.load_source("".join(body), "c12")
    except Exception as ex:  # noqa: BLE001
        raise HarnessFault(f"kernel-level source does not compile: {type(ex).__name__}: {str(ex)[:300]}")
    for k, i in enumerate(pick):
        try:
            r = getattr(mod, f"k{k}")()
            got = "ok " + canon_val(r)
        except Exception as ex:  # noqa: BLE001
            got = "err"
        ctx.count("kernel_level_runs")
        if got != impls[i]:
            ctx.fail({"chain": chains[i], "kernel_source": src(chains[i])},
                     f"@move kernel computes a different value than the Python methods: kernel={got[:300]} methods={impls[i][:300]}")
        elif vals[i] is not None and r != vals[i]:
            ctx.fail({"chain": chains[i]}, f"kernel result and method result are not ==: {r!r} vs {vals[i]!r}")
