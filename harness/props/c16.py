"""C16 — the path visualizer replays events faithfully and in order."""
from ..core import HarnessFault
from ..sexp import frac, sx
from .. import lang as L
from .. import tweezer as T
from .. import events as EV

ID = "C16"
MODULES = ["Shuttle.Props.C16"]
RULE = ("seeded random move programs (gates incl. top_hat_cz with buffers, fills, measurements, device calls, parallel groups "
        "of 1-3 members, loops, branches, subroutines, closures) run in the real PathVisualizer with a recording renderer; the "
        "received call sequence is compared with the model (trap prefix + translation of the evaluator's event log) and with "
        "the event log another executor (the event-logging spec interpreter) obtains from the same compiled kernel. "
        "non-trivial = run with at least one played path and one gate; distinct = distinct (program, arguments).")
TRUSTED = ["modelled, not verified: kirin interpreter and method-table dispatch by key order; the matplotlib renderer is out of "
           "scope (a recording RendererInterface is used; matplotlib itself is replaced by an import stub)"]
ASSUMPTIONS = ["auto() groups have no executor anywhere in the repository; programs use parallel() groups only"]


def recorder():
    from bloqade.shuttle.visualizer import RendererInterface

    class Rec(RendererInterface):
        def __init__(self):
            self.calls = []

        def local_r(self, location):
            self.calls.append(f"(local_r {T.canon_grid(location)})")

        def local_rz(self, location):
            self.calls.append(f"(local_rz {T.canon_grid(location)})")

        def global_r(self):
            self.calls.append("(global_r)")

        def global_rz(self):
            self.calls.append("(global_rz)")

        def top_hat_cz(self, location, upper_buffer=3.0, lower_buffer=3.0):
            self.calls.append(f"(top_hat_cz {T.canon_grid(location)} {sx(frac(upper_buffer))} {sx(frac(lower_buffer))})")

        def render_traps(self, traps, zone_id):
            self.calls.append(f"(render_traps {T.canon_grid(traps)} {zone_id})")

        def set_title(self, title):
            self.calls.append("(set_title)")

        def render_path(self, pth):
            self.calls.append(f"(render_path {EV.canon_pathobj(pth)})")

        def show(self):
            self.calls.append("(show)")

        def clear_paths(self):
            self.calls.append("(clear_paths)")
    return Rec()


def render_of_events(spec, events):
    """the specification, applied to the event log of another executor"""
    out = [f"(render_traps {T.canon_grid(z)} {n})" for n, z in spec.layout.static_traps.items()]
    for e in events:
        k = e[0]
        if k == "cz":
            out.append(f"(top_hat_cz {T.canon_grid(e[1])} {sx(frac(e[2]))} {sx(frac(e[3]))})")
        elif k == "local_r":
            out.append(f"(local_r {T.canon_grid(e[1])})")
        elif k == "local_rz":
            out.append(f"(local_rz {T.canon_grid(e[1])})")
        elif k == "global_r":
            out.append("(global_r)")
        elif k == "global_rz":
            out.append("(global_rz)")
        elif k == "play":
            out.append(f"(render_path {EV.canon_pathobj(e[1])})")
        elif k == "play_group":
            out += [f"(render_path {EV.canon_pathobj(p)})" for p in e[2]]
    return out


FAILING_CALL_SRC = L.HDR + '''
@tweezer
def carry(g: grid.Grid[Any, Any], width: int, dy: float):
    assert dy > -1.0
    action.set_loc(g)
    action.turn_on(action.ALL, action.ALL)
    action.move(grid.shift(g, 0.0, dy))
    action.move(grid.shift(g[0:width, :], 1.0, dy))
    action.turn_off(action.ALL, action.ALL)

@tweezer
def last_tone(g: grid.Grid[Any, Any]):
    action.set_loc(g)
    action.turn_on([-1], [0])
    action.move(grid.shift(g, 0.5, 0.5))
    action.turn_off([-1], [0, -1])

@move
def main(n: int, m: int, b: bool):
    z = spec.get_static_trap(zone_id="A")
    d = schedule.device_fn(carry, [0, 1], [0, 1, 2])
    lt = schedule.device_fn(last_tone, [0, 1, 2], [0, 1])
    lt(z)
    gate.global_rz(0.5)
    d(z, 3, 1.0)
    gate.local_rz(0.25, z)
    d(z, n, 1.0 * m)
    gate.global_r(0.5, 0.25)
    r = schedule.reverse(d)
    r(z, 3, 0.5)
    return n
'''


OPTION_SRC = L.HDR + '''
@tweezer
def hopk(g: grid.Grid[Any, Any], dx: float):
    action.set_loc(g)
    action.move(grid.shift(g, dx, 0.0))

@move{opts}
def main(n: int, m: int, b: bool):
    z = spec.get_static_trap(zone_id="A")
    fa = schedule.device_fn(hopk, [0], [0])
    fb = schedule.device_fn(hopk, [1], [1])
    if b:
        f = fa
    else:
        f = fb
    gate.global_rz(0.5)
    f(z, 1.0)
    g = f
    for i in range(n):
        g(z, 0.5 * i)
        g = schedule.reverse(g)
    gate.global_r(0.5, 0.25)
    return n
'''


def option_stream(ctx, spec, PathVisualizer, recorder):
    """the same program compiled with other decorator options renders the same sequence (a device function that reaches its call
    through an if/else assignment, an alias and a loop-carried variable)"""
    ref = {}
    for opts in ("", "(typeinfer=False)", "(fold=False)", "(typeinfer=False, verify=False)", "(aggressive=True)"):
        src = OPTION_SRC.replace("{opts}", opts)
        for a in ((2, 0, True), (3, 0, False)):
            rec = recorder()
            try:
                mod = T.load_source(src, "c16o")
                PathVisualizer(mod.main.dialects, arch_spec=spec, renderer=rec).run(mod.main, args=a, kwargs={})
                got = "ok (" + " ".join(rec.calls) + ")"
            except Exception as e:  # noqa: BLE001
                got = f"err {type(e).__name__} after (" + " ".join(rec.calls) + ")"
            ctx.count("option_runs")
            if opts == "":
                ref[a] = got
            elif got != ref[a]:
                ctx.fail({"source": src[len(L.HDR):], "args": list(a), "options": opts},
                         f"compiled with @move{opts} the visualizer renders {got[:300]}, compiled with default options {ref[a][:300]}")


def failing_call_stream(ctx, spec, PathVisualizer, recorder):
    """a device call whose move function raises for some arguments (a failing assert, a shape change): the replay stops there
    with an error, exactly like every other executor - nothing after the failing call is rendered"""
    mod = T.load_source(FAILING_CALL_SRC, "c16f")
    # a second, independent executor: the same source with the spec given at compile time, run by the plain interpreter
    from . import c06 as C06
    C06.SPEC_SLOT = spec
    mod_spec = T.load_source(FAILING_CALL_SRC.replace("@move\ndef main(", "@move(arch_spec=_C06.SPEC_SLOT)\ndef main(").replace(
        "from bloqade.shuttle.prelude import tweezer, move\n",
        "from bloqade.shuttle.prelude import tweezer, move\nfrom harness.props import c06 as _C06\n"), "c16fs")
    for a in ((3, 1, True), (2, 1, True), (3, -2, True), (3, 0, False)):
        rec = recorder()
        try:
            PathVisualizer(mod.main.dialects, arch_spec=spec, renderer=rec).run(mod.main, args=a, kwargs={})
            got = "ok (" + " ".join(rec.calls) + ")"
        except Exception:  # noqa: BLE001
            got = "err after (" + " ".join(rec.calls) + ")"
        other = EV.run_with_events(mod.main, spec, a)
        evs = render_of_events(spec, other.events)
        want = ("err after (" if other.error is not None else "ok (") + " ".join(evs) + ")"
        ctx.count("failing_call_runs")
        ctx.count("failing_call_runs_" + ("err" if other.error is not None else "ok"))
        o2 = EV.run_with_events(mod_spec.main, spec, a, plain=True)
        want2 = ("err after (" if o2.error is not None else "ok (") + " ".join(render_of_events(spec, o2.events)) + ")"
        if got != want or got != want2:
            ctx.fail({"source": FAILING_CALL_SRC[len(L.HDR):], "args": list(a)},
                     f"a program with a device call that fails at run time: the visualizer gives {got[:300]}, the event-logging "
                     f"interpreter gives {want[:300]}, the plain interpreter on the kernel compiled with the spec gives {want2[:300]}")


def run(ctx):
    from bloqade.shuttle.visualizer import PathVisualizer
    spec = L.default_move_spec()
    table = L.sx_spec_table(spec)
    g = L.MoveGen(ctx.rng, {"unknown": 0.01, "assert": 0.0, "devfn_param": 0.5, "alias_subs": 0.2})
    n_prog = 400 if ctx.tier == "thorough" else 60
    lines, rows = [], []
    for _ in range(n_prog):
        fns, argsets = g.program()
        src = L.program_source(fns)
        try:
            mod = T.load_source(src, "c16")
        except Exception:  # noqa: BLE001
            ctx.count("compile_fail")
            continue
        # a second, independent executor: the same source specialised at compile time and run by
        # the plain interpreter (path.Gen evaluated by the `main` implementation)
        from . import c06 as C06
        C06.SPEC_SLOT = spec
        src_spec = L.program_source(fns, main_decorator="move(arch_spec=_C06.SPEC_SLOT)").replace(
            "from bloqade.shuttle.prelude import tweezer, move\n",
            "from bloqade.shuttle.prelude import tweezer, move\nfrom harness.props import c06 as _C06\n")
        try:
            mod_spec = T.load_source(src_spec, "c16s")
        except Exception:  # noqa: BLE001
            mod_spec = None
        prog_sx = L.sx_program(fns)
        for a in argsets:
            rec = recorder()
            try:
                PathVisualizer(mod.main.dialects, arch_spec=spec, renderer=rec).run(mod.main, args=tuple(a), kwargs={})
                got = "ok (" + " ".join(rec.calls) + ")"
            except Exception as e:  # noqa: BLE001
                got = "err"
            # the same run with (some of) the arguments given by keyword: same renderer calls
            names = [p[0] for p in fns[-1]["params"]]
            if names and len(names) == len(a):
                cut = 0 if len(lines) % 2 == 0 else len(a) - 1
                rec_kw = recorder()
                try:
                    PathVisualizer(mod.main.dialects, arch_spec=spec, renderer=rec_kw).run(
                        mod.main, args=tuple(a[:cut]), kwargs=dict(zip(names[cut:], a[cut:])))
                    got_kw = "ok (" + " ".join(rec_kw.calls) + ")"
                except Exception as e:  # noqa: BLE001
                    got_kw = "err"
                ctx.count("runs_with_keyword_arguments")
                if got_kw != got:
                    ctx.fail({"source": src[len(L.HDR):], "args": list(a), "by_keyword": names[cut:]},
                             "the visualizer renders a different sequence when arguments are given by keyword: "
                             f"keyword={got_kw[:300]} positional={got[:300]}")
            other = EV.run_with_events(mod.main, spec, a)
            want = "err" if other.error is not None else "ok (" + " ".join(render_of_events(spec, other.events)) + ")"
            want2 = None
            if mod_spec is not None:
                o2 = EV.run_with_events(mod_spec.main, spec, a, plain=True)
                want2 = "err" if o2.error is not None else "ok (" + " ".join(render_of_events(spec, o2.events)) + ")"
            case = {"source": src[len(L.HDR):], "args": list(a)}
            lines.append(f"(LANG (visual {table} {prog_sx} main ({' '.join(L.sx_val(x) for x in a)})))")
            rows.append((case, got, want, want2))
            ctx.seen((src, a), "(render_path" in got and ("(global_r" in got or "(local_r" in got or "(top_hat_cz" in got))
            ctx.count("runs")
            ctx.count("runs_ok" if got.startswith("ok") else "runs_err")
            ctx.count("runs_with_group", int(other.error is None and any(e[0] == "play_group" for e in other.events)))
    if ctx.counts.get("compile_fail", 0) > 0.3 * n_prog:
        raise HarnessFault("generator degenerate: >30% of generated programs do not compile")
    failing_call_stream(ctx, spec, PathVisualizer, recorder)
    option_stream(ctx, spec, PathVisualizer, recorder)
    model = ctx.driver(lines)
    ctx.traces_validated = len(rows)
    for (case, got, want, want2), m in zip(rows, model):
        if m.startswith("bad") or m == "fuel":
            raise HarnessFault("driver could not run a program")
        if got != m:
            ctx.disagree(case, got[:500], m[:500], "PathVisualizer renderer calls vs model")
        if want2 is not None and got != want2:
            ctx.fail(case, "the visualizer does not render the paths the plain interpreter obtains from the same program "
                           f"compiled with the spec: got={got[:400]} other={want2[:400]}")
        if got != want:
            ctx.fail(case, "renderer calls are not (static traps first, then one call per executed gate / played path in "
                           f"execution order, paths equal to those another executor obtains): got={got[:400]} want={want[:400]}")
    for k in (0, len(rows) // 2):
        if k < len(rows):
            ctx.sample({"source": rows[k][0]["source"][:1000], "args": rows[k][0]["args"], "calls": rows[k][1][:500]})
    if ctx.counts.get("runs_ok", 0) < 0.3 * len(rows) or ctx.counts.get("runs_with_group", 0) < 5:
        raise HarnessFault(f"generator degenerate: {ctx.counts}")
