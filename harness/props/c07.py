"""C07 — specialising one kernel never affects another kernel or the spec."""
import copy
import itertools
import re

from ..core import HarnessFault
from .. import lang as L
from .. import tweezer as T
from .. import events as EV

ID = "C07"
MODULES = ["Shuttle.Props.C07"]
RULE = ("histories of 2-6 (thorough: up to 10) compilations with 2-3 specs over modules that define shared helper subroutines "
        "(generated, recursive ones and closure-returning ones included) and 2-4 kernels calling them and the library moves "
        "(stdlib waypoints / single-zone / two-column moves); every order of the kernels for short histories, random orders "
        "otherwise. Observed: printed IR of every shared method (generated helpers and library kernels) before / after each "
        "compilation, the event log of every specialised kernel (plain interpreter) vs the same kernel unspecialised under its "
        "own spec, helpers' behaviour before / after, and every ArchSpec against a deep copy taken first. "
        "non-trivial = history in which two kernels sharing a subroutine get different specs; distinct = distinct histories.")
TRUSTED = ["modelled, not verified: kirin's CallGraphPass / Method.similar (Model/Store.lean mirrors its copy-then-rewrite "
           "discipline), IR printer"]
ASSUMPTIONS = ["none beyond the generator's program shapes"]

SLOTS = {}     # name -> ArchSpec, read by the generated sources


def specs():
    from bloqade.geometry.dialects.grid import Grid
    from bloqade.shuttle.arch import ArchSpec, Layout
    out = []
    for k, (dx, sc, nn, ff) in enumerate([(0.0, 1.0, 2, 0.5), (40.0, 2.0, 0, 0.0), (-8.0, 0.5, 1, 3.0)]):
        A = Grid.from_positions([0.0, 2.0, 10.0], [0.0, 10.0]).shift(dx, 0.0).scale(sc, 1.0)
        B = Grid.from_positions([20.0, 24.0], [1.0, 3.0]).shift(dx, 1.0)
        S = Grid.from_positions([-5.0, -4.0], [7.5]).shift(0.0, dx)
        out.append(ArchSpec(layout=Layout({"A": A, "B": B}, {"A"}, {"A", "B"}, {"A"}, special_grid={"S": S, "B": B.shift(0.25, -1.0)}),
                            float_constants={"f0": ff, "fh": 0.5 * (k + 1), "f3": 3.0}, int_constants={"n0": nn, "n1": 1, "n2": 2 + k}))
    return out


def ir_text(mt):
    s = mt.print_str() if hasattr(mt, "print_str") else None
    if s is None:
        import io
        buf = io.StringIO()
        mt.print(file=buf)
        s = buf.getvalue()
    return re.sub(r"\x1b\[[0-9;]*m", "", s)


def canon_spec(s):
    from .c14 import canon_spec as cs
    return cs(s)


def library_methods():
    from bloqade.shuttle.stdlib import waypoints
    from bloqade.shuttle.stdlib.layouts import single_col_zone, two_col_zone
    out = {"waypoints.move_by_waypoints": waypoints.move_by_waypoints,
           "waypoints.move_by_waypoints_kernel": waypoints.move_by_waypoints_kernel}
    for mod, pre in ((single_col_zone, "single_col_zone."), (two_col_zone, "two_col_zone.")):
        for n in dir(mod):
            o = getattr(mod, n)
            if type(o).__name__ == "Method":
                out[pre + n] = o
    return out


def build_module(rng, g, n_roots):
    """a module: tweezer kernels + shared helper subs + n roots that call the helpers, a library move and do lookups"""
    import copy as _copy
    fns, _ = g.program()
    helpers = [f for f in fns[:-1]]
    # a forwarding chain: fwd (no spec lookup of its own) -> leaf (reads the spec); every root calls fwd
    leaf = {"name": "leafq", "tweezer": False, "params": [("a0", "int")], "nested": {}, "kinds": ["int"], "returns": "int",
            "body": [("eff", "local_rz", [("look", "floatC", "fh"), ("look", "trap", "B")]),
                     ("ret", ("prim", "add", [("look", "intC", "n2"), ("var", "a0")]))]}
    fwd = {"name": "fwdq", "tweezer": False, "params": [("a0", "int")], "nested": {}, "kinds": ["int"], "returns": "int",
           "body": [("assign", "rq", ("call", "leafq", [("var", "a0")])), ("ret", ("var", "rq"))]}
    helpers = helpers + [leaf, fwd]
    shared = [f for f in helpers if not f["tweezer"] and all(k in ("int", "grid") for k in f.get("kinds", []))]
    g2 = L.MoveGen(rng, dict(g.feat, devcalls=False, parallel=False, devfn_param=0.0, dynamic_call=0.0))
    roots = []
    for i in range(n_roots):
        more, _ = g2.program(shared_subs=shared, name=f"root{i}", counter0=1000 * (i + 1))
        main = more[-1]
        body = [s for s in main["body"] if s[0] != "ret"]
        # make sure every shared helper is called at least once from every root
        for h in shared:
            if f"'{h['name']}'" not in repr(body):
                args = [("lit", 1) if k == "int" else ("look", "trap", "A") for k in h["kinds"]]
                body.insert(rng.randrange(0, len(body) + 1), ("expr", ("call", h["name"], args)))
        body.append(("eff", "local_rz", [("look", "floatC", "fh"), ("look", "trap", "B")]))
        main["body"] = body + [("ret", ("look", "intC", "n2"))]
        roots.append(main)
    return helpers, roots


TKQ = '''@tweezer
def tkq(n: int):
    action.set_loc(spec.get_static_trap(zone_id="A"))
    action.move(grid.shift(spec.get_static_trap(zone_id="A"), 1.0, 2.0))

'''

MAPSUB = '''@move
def mapsubq(n: int):
    return ilist.map(leafq, ilist.range(n))

@move
def viaq(i: int):
    return leafq(i) + 1

@move
def mapviaq(n: int):
    return ilist.map(viaq, ilist.range(n))

@move
def make_posq(d: int):
    def posq_inner(i: int):
        return leafq(i) + d
    return posq_inner

posq = make_posq(1)        # a closure made by running a kernel; kernels below pass it around as a value

@move
def sharedmoveq(n: int):
    d = schedule.device_fn(tkq, ilist.IList([0, 1, 2]), ilist.IList([0, 1]))
    d(n)
    r = schedule.reverse(d)
    r(n)
    return n

'''

NESTED = '''@move{inner_dec}
def innerq(n: int):
    dq = schedule.device_fn(tkq, ilist.IList([0, 1, 2]), ilist.IList([0, 1]))
    dq(n)
    gate.local_rz(spec.get_float_constant(constant_id="fh"), spec.get_static_trap(zone_id="B"))
    return n

@move
def outertailq(n: int):
    gate.local_rz(spec.get_float_constant(constant_id="fh"), spec.get_static_trap(zone_id="A"))
    return n

@move{outer_dec}
def outerq(n: int):
    r = innerq(n)
    gate.local_rz(spec.get_float_constant(constant_id="fh"), spec.get_static_trap(zone_id="A"))
    return r

'''

LIB_CALL = '''    dq = schedule.device_fn(tkq, ilist.IList([0, 1, 2]), ilist.IList([0, 1]))
    dq(1)
    mq = mapsubq(2)
    sq = sharedmoveq(2)
    vq = ilist.map(viaq, ilist.range(2))
    pq = ilist.map(posq, ilist.range(2))
    wq = mapviaq(2)
    move_by_waypoints(ilist.IList([spec.get_static_trap(zone_id="A"), grid.shift(spec.get_static_trap(zone_id="A"), 1.0, 2.0)]), True, True)
'''


def module_source(helpers, roots, order, assign):
    """roots defined in `order`; assign[i] = slot name of root i's spec, or None (left unspecialised)"""
    out = [L.HDR, "from bloqade.shuttle.stdlib.waypoints import move_by_waypoints\nfrom harness.props import c07 as _C07\n\n", TKQ]
    for f in helpers:
        out.append("\n".join(L.fn_source(f, 0, True)) + "\n\n")
    out.append(MAPSUB)          # a shared subroutine that passes the spec-reading helper leafq around as a value
    for i in order:
        r = roots[i]
        dec = f"move(arch_spec=_C07.SLOTS['{assign[i]}'])" if assign[i] else "move"
        lines = L.fn_source(r, 0, True, dec)
        # insert the library call before the final return
        lines = lines[:-1] + [LIB_CALL.rstrip("\n")] + lines[-1:]
        out.append("\n".join(lines) + "\n\n")
    # kernels that use a shared, spec-reading helper as a first-class value (ilist.map); they are compiled (after the roots,
    # one per spec in use) but not executed: spec injection does not reach such helpers (known finding F22 of C06), what
    # matters here is that compiling them leaves the shared helper untouched
    for k, slot in enumerate(sorted({a for a in assign if a})):
        out.append(f"@move(arch_spec=_C07.SLOTS['{slot}'])\ndef mapk{k}(n: int):\n    return ilist.map(leafq, ilist.range(n))\n\n")
    # a kernel specialised for one spec invoked by a kernel specialised for another spec (each keeps its own)
    slots = [a for a in assign if a]
    if len(set(slots)) >= 2:
        x = slots[0]
        y = next(a for a in slots if a != x)
        out.append(NESTED.format(inner_dec=f"(arch_spec=_C07.SLOTS['{x}'])", outer_dec=f"(arch_spec=_C07.SLOTS['{y}'])"))
    else:
        out.append(NESTED.format(inner_dec="", outer_dec=""))
    return "".join(out)


def canon_run(r):
    if r.error is not None:
        return "err"
    try:
        return f"ok {L.canon_value(r.result)} {EV.canon_events(r.events)}"
    except Exception as e:  # noqa: BLE001
        return f"<uncanonical {type(e).__name__}>"


TW_SPEC_SRC = L.HDR + '''from harness.props import c07 as _C07

@tweezer
def where(n: int):
    return spec.get_static_trap(zone_id="A")

@tweezer{tw_dec}
def hopw(n: int):
    z = where(n)
    action.set_loc(spec.get_static_trap(zone_id="A"))
    action.move(grid.shift(z, 1.0 * n, 2.0))

@move{mv_dec}
def hop(n: int):
    d = schedule.device_fn(hopw, ilist.IList([0, 1, 2]), ilist.IList([0, 1]))
    d(n)
    return n
'''


def tweezer_spec_stream(ctx):
    """a tweezer kernel compiled with its own spec, which invokes another tweezer routine that reads the spec, used by a move
    kernel compiled with (and run under) another spec: everything the tweezer kernel looks up - its subroutine's lookups
    included - comes from ITS spec"""
    names = sorted(SLOTS)
    if len(names) < 2:
        return
    for a, b in ((names[0], names[1]), (names[1], names[0])):
        ref_mod = T.load_source(TW_SPEC_SRC.replace("{tw_dec}", "").replace("{mv_dec}", ""), "c07tr")
        mod = T.load_source(TW_SPEC_SRC.replace("{tw_dec}", f"(arch_spec=_C07.SLOTS['{a}'])")
                            .replace("{mv_dec}", f"(arch_spec=_C07.SLOTS['{b}'])"), "c07t")
        for n in (1, 2):
            want = canon_run(EV.run_with_events(ref_mod.hop, SLOTS[a], (n,)))
            got = canon_run(EV.run_with_events(mod.hop, SLOTS[b], (n,), plain=True))
            got2 = canon_run(EV.run_with_events(mod.hop, SLOTS[b], (n,)))
            ctx.count("tweezer_kernel_with_own_spec_runs")
            if got != want or got2 != want:
                ctx.fail({"source": TW_SPEC_SRC[len(L.HDR):], "tweezer_spec": a, "move_spec": b, "args": [n]},
                         f"a tweezer kernel compiled with {a} (calling a tweezer subroutine that reads the spec) inside a move kernel "
                         f"compiled with {b}: plain run {got[:200]}, run under {b} {got2[:200]}, expected (everything from {a}) {want[:200]}")


def run(ctx):
    global SLOTS
    rng = ctx.rng
    sp = specs()
    SLOTS = {f"s{k}": s for k, s in enumerate(sp)}
    spec_copies = {k: copy.deepcopy(s) for k, s in SLOTS.items()}
    spec_canon = {k: canon_spec(s) for k, s in SLOTS.items()}
    lib = library_methods()
    lib_ir0 = {n: ir_text(m) for n, m in lib.items()}
    g = L.MoveGen(rng, {"unknown": 0.0, "assert": 0.0, "closures": True, "recursion": True, "alias_subs": 0.0})
    n_mod = 40 if ctx.tier == "thorough" else 12
    args = [(1, 1, True), (2, 0, False)]
    for mi in range(n_mod):
        n_roots = rng.randrange(2, 5)
        helpers, roots = build_module(rng, g, n_roots)
        # reference: everything unspecialised, run under each spec
        try:
            ref_mod = T.load_source(module_source(helpers, roots, list(range(n_roots)), [None] * n_roots), "c07ref")
        except Exception as e:  # noqa: BLE001
            ctx.count("compile_fail")
            ctx.count("compile_fail:" + type(e).__name__ + ":" + str(e)[:80].replace("\n", " "))
            continue
        orders = list(itertools.permutations(range(n_roots))) if n_roots <= 3 else \
            [tuple(rng.sample(range(n_roots), n_roots)) for _ in range(4)]
        if ctx.tier != "thorough":
            orders = orders[:3]
        for order in orders:
            assign = [f"s{rng.randrange(len(sp))}" for _ in range(n_roots)]
            if len(set(assign)) == 1:
                assign[0] = f"s{(int(assign[0][1:]) + 1) % len(sp)}"
            case = {"helpers": [f["name"] for f in helpers], "order": list(order), "specs": assign,
                    "source": module_source(helpers, roots, order, assign)[len(L.HDR):][:4000]}
            # helpers: IR of an unspecialised compilation of the same helpers, before any root is compiled
            try:
                mod = T.load_source(module_source(helpers, roots, order, assign), "c07")
            except Exception as e:  # noqa: BLE001
                ctx.count("spec_compile_rejected")
                # the same module compiles when nothing is specialised: the history cannot be checked
                ctx.disagree(case, f"compiling with the specs raised {type(e).__name__}: {str(e)[:200]}",
                             "the module compiles when no kernel is given a spec", "spec-compile-raised")
                continue
            ctx.count("histories")
            ctx.seen((mi, order, tuple(assign)), len(set(assign)) > 1)
            # (1) shared generated helpers: same printed IR and same behaviour as in the reference module
            for h in helpers:
                a, b = ir_text(getattr(mod, h["name"])), ir_text(getattr(ref_mod, h["name"]))
                if a != b:
                    ctx.fail(dict(case, method=h["name"]), f"shared subroutine {h['name']} prints differently after the compilations")
            # (2) library methods untouched
            for n, m in lib.items():
                if ir_text(m) != lib_ir0[n]:
                    ctx.fail(dict(case, method=n), f"library kernel {n} was modified by a compilation")
                    lib_ir0[n] = ir_text(m)
            # (3) each specialised root sees its own spec
            for i in range(n_roots):
                own = SLOTS[assign[i]]
                for a in args:
                    want = canon_run(EV.run_with_events(getattr(ref_mod, f"root{i}"), own, a))
                    got = canon_run(EV.run_with_events(getattr(mod, f"root{i}"), own, a, plain=True))
                    ctx.count("root_runs")
                    ctx.traces_validated += 1
                    if got != want:
                        ctx.fail(dict(case, root=f"root{i}", args=list(a)),
                                 f"root{i} compiled with {assign[i]} (compile order {list(order)}) does not behave as under its own spec: "
                                 f"got={got[:300]} want={want[:300]}")
            # (3b) a kernel specialised for spec x invoked by a kernel specialised for spec y: the inner part behaves as under x,
            #      the outer part as under y
            slots = [a for a in assign if a]
            if len(set(slots)) >= 2:
                x = slots[0]
                y = next(a for a in slots if a != x)
                for n in (1, 2):
                    ri = EV.run_with_events(ref_mod.innerq, SLOTS[x], (n,))
                    ro = EV.run_with_events(ref_mod.outertailq, SLOTS[y], (n,))
                    got = EV.run_with_events(mod.outerq, SLOTS[y], (n,), plain=True)
                    ctx.count("nested_specialised_runs")
                    if ri.error is None and ro.error is None:
                        want = EV.canon_events(list(ri.events) + list(ro.events))
                        gq = "err" if got.error is not None else EV.canon_events(got.events)
                        if gq != want:
                            ctx.fail(dict(case, kernel="outerq", inner_spec=x, outer_spec=y, args=[n]),
                                     f"a kernel specialised for {x} invoked by a kernel specialised for {y} does not keep its own spec: "
                                     f"got={gq[:300]} want={want[:300]}")
            # (4) specs unmodified
            for k, s in SLOTS.items():
                if not (s == spec_copies[k]) or canon_spec(s) != spec_canon[k]:
                    ctx.fail(dict(case, spec=k), f"ArchSpec {k} was modified by a compilation")
                    spec_copies[k] = copy.deepcopy(s)
                    spec_canon[k] = canon_spec(s)
        if mi == 0:
            ctx.sample({"module": module_source(helpers, roots, list(range(n_roots)), [f"s{i % 2}" for i in range(n_roots)])[len(L.HDR):][:2500]})
    tweezer_spec_stream(ctx)
    if ctx.counts.get("histories", 0) < 5 and not ctx.disagreements:
        raise HarnessFault(f"generator degenerate: {ctx.counts}")
