"""C18 — the zone lattice obeys the bounded-lattice laws."""
import itertools

from ..sexp import sx

ID = "C18"
CASE_REPLAY = True
MODULES = ["Shuttle.Props.C18"]
RULE = ("pairs (a,b) of lattice elements: exhaustive over all elements of nesting depth <= 1 over the "
        "names {a,b} (thorough; quick takes all 56x56 pairs of the depth-0 and GetItem elements plus a "
        "seeded sample) plus seeded random elements of depth <= 3; a pair is non-trivial when both "
        "elements differ from bottom/top; distinct = distinct (a,b) terms. Triples for transitivity.")
TRUSTED = ["modelled, not verified: kirin SimpleJoinMixin/SimpleMeetMixin (three-line methods, mirrored in "
           "Model/Lattice.lean and exercised by every pair), dataclass __eq__ of lattice elements"]
ASSUMPTIONS = ["Python equality of lattice elements is dataclass (structural) equality"]

NAMES = ["a", "b"]


def atoms():
    return ["bot", "top", "inv"] + [("invid", n) for n in NAMES] + [("spec", n) for n in NAMES]


def depth1():
    d0 = atoms()
    items = [("item", z, i) for z in d0 for i in d0]
    subs = [("sub", z, x, y) for z in d0 for x in d0 for y in d0]
    return d0, items, subs


def rand_zone(rng, depth):
    if depth == 0 or rng.random() < 0.3:
        return rng.choice(atoms())
    if rng.random() < 0.5:
        return ("item", rand_zone(rng, depth - 1), rand_zone(rng, depth - 1))
    return ("sub", rand_zone(rng, depth - 1), rand_zone(rng, depth - 1), rand_zone(rng, depth - 1))


def to_obj(L, t):
    if t == "bot":
        return L.NotZone()
    if t == "top":
        return L.UnknownZone()
    if t == "inv":
        return L.InvalidZone()
    if t[0] == "invid":
        return L.InvalidSpecId(t[1])
    if t[0] == "spec":
        return L.SpecZone(t[1])
    if t[0] == "item":
        return L.GetItemOfZone(zone=to_obj(L, t[1]), index=to_obj(L, t[2]))
    if t[0] == "sub":
        return L.GetSubGridOfZone(zone=to_obj(L, t[1]), x_indices=to_obj(L, t[2]), y_indices=to_obj(L, t[3]))
    raise ValueError(t)


def canon(L, z):
    n = type(z).__name__
    if n == "NotZone":
        return "bot"
    if n == "UnknownZone":
        return "top"
    if n == "InvalidZone":
        return "inv"
    if n == "InvalidSpecId":
        return f"(invid {z.spec_id})"
    if n == "SpecZone":
        return f"(spec {z.spec_id})"
    if n == "GetItemOfZone":
        return f"(item {canon(L, z.zone)} {canon(L, z.index)})"
    if n == "GetSubGridOfZone":
        return f"(sub {canon(L, z.zone)} {canon(L, z.x_indices)} {canon(L, z.y_indices)})"
    return f"<{n}>"


def laws(L, a, b):
    """The property's oracle on the real objects; returns the list of violated laws."""
    bad = []
    bot, top = L.Zone.bottom(), L.Zone.top()
    le = lambda x, y: x.is_subseteq(y)  # noqa: E731
    for x in (a, b):
        if not le(x, x):
            bad.append("reflexivity")
        if not le(bot, x):
            bad.append("bottom-below")
        if not le(x, top):
            bad.append("top-above")
        if x.join(x) != x:
            bad.append("join-idempotent")
        if x.meet(x) != x:
            bad.append("meet-idempotent")
    if le(a, b) and le(b, a) and a != b:
        bad.append("antisymmetry")
    j, j2 = a.join(b), b.join(a)
    if j != j2:
        bad.append("join-commutative")
    if not (le(a, j) and le(b, j)):
        bad.append("join-upper-bound")
    if le(a, b) != (j == b):
        bad.append("join-consistent-with-order")
    m, m2 = a.meet(b), b.meet(a)
    if m != m2:
        bad.append("meet-commutative")
    if not (le(m, a) and le(m, b)):
        bad.append("meet-lower-bound")
    if le(a, b) != (m == a):
        bad.append("meet-consistent-with-order")
    return sorted(set(bad))


def run(ctx):
    from bloqade.shuttle.analysis.zone import lattice as L

    rng = ctx.rng
    d0, items, subs = depth1()
    thorough = ctx.tier == "thorough"
    if ctx.replay_case is not None:
        pairs = [tuple(ctx.replay_case["pair"])] if "pair" in ctx.replay_case else []
        triples = [tuple(ctx.replay_case["triple"])] if "triple" in ctx.replay_case else []
        pairs = [tuple(_tup(x) for x in p) for p in pairs]
        triples = [tuple(_tup(x) for x in t) for t in triples]
    else:
        if thorough:
            pool = d0 + items + subs
            ctx.exhaustive = True
        else:
            pool = d0 + items + rng.sample(subs, 24)
        pairs = list(itertools.product(pool, pool))
        n_rand = 30000 if thorough else 3000
        for _ in range(n_rand):
            a = rand_zone(rng, 3)
            # make related pairs likely: mutate a copy half of the time
            b = _mutate(rng, a) if rng.random() < 0.6 else rand_zone(rng, 3)
            pairs.append((a, b))
        tpool = d0 + (items if thorough else rng.sample(items, 12)) + rng.sample(subs, 8)
        triples = list(itertools.product(tpool, tpool, tpool)) if len(tpool) <= 64 else \
            [tuple(rng.choice(tpool) for _ in range(3)) for _ in range(200000)]
        for _ in range(20000 if thorough else 2000):
            a = rand_zone(rng, 3)
            triples.append((a, _mutate(rng, a), _mutate(rng, _mutate(rng, a))))

    # ---- correspondence: le / join / meet on every pair --------------------
    lines, impl = [], []
    for a, b in pairs:
        lines.append("(C18 (ops " + sx(a) + " " + sx(b) + "))")
        oa, ob = to_obj(L, a), to_obj(L, b)
        try:
            impl.append(f"{sx(bool(oa.is_subseteq(ob)))} {sx(bool(ob.is_subseteq(oa)))} "
                        f"{canon(L, oa.join(ob))} {canon(L, oa.meet(ob))}")
        except Exception as e:  # noqa: BLE001
            impl.append(f"raised:{type(e).__name__}")
        nontrivial = a not in ("bot", "top") and b not in ("bot", "top")
        ctx.seen((a, b), nontrivial)
        ctx.count("pairs")
        ctx.count("pairs_depth_%d" % max(_depth(a), _depth(b)))
    model = ctx.driver(lines)
    ctx.traces_validated = len(lines)
    for (a, b), i, m in zip(pairs, impl, model):
        if i != m:
            ctx.disagree({"pair": [a, b]}, i, m)
    for k in range(min(4, len(pairs))):
        idx = (len(pairs) // 5) * k + 3
        if idx < len(pairs):
            ctx.sample({"pair": pairs[idx], "impl": impl[idx], "model": model[idx]})

    # ---- oracle: the laws themselves on the real objects -------------------
    for a, b in pairs:
        oa, ob = to_obj(L, a), to_obj(L, b)
        try:
            bad = laws(L, oa, ob)
        except Exception as e:  # noqa: BLE001
            bad = [f"raised:{type(e).__name__}"]
        if bad:
            ctx.fail({"pair": [a, b]}, "lattice law(s) violated on the real objects: " + ", ".join(bad))
    # the same laws when (one of) the elements went through copy / deepcopy: still the same elements (the lattice classes of
    # the pinned tree cannot be pickled - kirin's lattice metaclass - so pickling is not part of this)
    import copy as _copy
    cloners = (("copy.copy", _copy.copy), ("copy.deepcopy", _copy.deepcopy), ("copy.deepcopy", _copy.deepcopy))
    for k, (a, b) in enumerate(pairs[: (4000 if thorough else 700)]):
        how, mk = cloners[k % 3]
        oa, ob = to_obj(L, a), to_obj(L, b)
        ctx.count("pairs_with_a_cloned_element")
        try:
            ca = mk(oa)
            bad = [] if ca == oa and oa == ca else ["clone-equals-original"]      # (lattice elements are not hashable)
            bad += laws(L, ca, ob) + laws(L, ob, ca)
            if oa.is_subseteq(ob) != ca.is_subseteq(ob) or ob.is_subseteq(oa) != ob.is_subseteq(ca) or ca.join(ob) != oa.join(ob) \
                    or ca.meet(ob) != oa.meet(ob):
                bad.append("clone-behaves-like-original")
        except Exception as e:  # noqa: BLE001
            bad = [f"raised:{type(e).__name__}"]
        if bad:
            ctx.fail({"pair": [a, b], "first_element_cloned_with": how},
                     f"lattice law(s) violated on the real objects when the first element is a {how} of itself: " + ", ".join(sorted(set(bad))))
    for a, b, c in triples:
        oa, ob, oc = to_obj(L, a), to_obj(L, b), to_obj(L, c)
        ctx.count("triples")
        if oa.is_subseteq(ob) and ob.is_subseteq(oc):
            ctx.count("triples_with_chain")
            if not oa.is_subseteq(oc):
                ctx.fail({"triple": [a, b, c]}, "transitivity violated on the real objects")
    if ctx.replay_case is None and ctx.counts.get("triples_with_chain", 0) < 50:
        from ..core import HarnessFault
        raise HarnessFault("generator degenerate: too few ordered chains among the triples")


def _tup(x):
    return tuple(_tup(y) for y in x) if isinstance(x, list) else x


def _depth(t):
    if isinstance(t, str) or t[0] in ("invid", "spec"):
        return 0
    return 1 + max(_depth(x) for x in t[1:])


def _mutate(rng, t):
    """Replace one random sub-term by something comparable-ish."""
    if isinstance(t, str) or t[0] in ("invid", "spec"):
        r = rng.random()
        if r < 0.3:
            return "top"
        if r < 0.5:
            return "bot"
        if r < 0.6 and not isinstance(t, str) and t[0] == "invid":
            return "inv"
        if r < 0.7:
            return rng.choice(atoms())
        return t
    k = rng.randrange(1, len(t))
    if rng.random() < 0.15:
        return rng.choice(["top", "bot"])
    return t[:k] + (_mutate(rng, t[k]),) + t[k + 1:]
