"""C13 — Layout / ArchSpec identity and the zone index."""
import itertools

from ..core import HarnessFault
from ..sexp import frac, sx
from .. import tweezer as T

ID = "C13"
MODULES = ["Shuttle.Props.C13"]
RULE = ("layouts built over a pool of 12 grids (two pairs a relative 5e-8 apart, four with an empty axis of which two differ only in that axis' spacing) x 4 names with every field (static traps, fillable, has_cz, has_local, "
        "special grids) varied independently, incl. aliases (two names, one grid) and empty tables; ArchSpecs adding "
        "float/int constant tables; all pairs and sampled triples for the equivalence / hash laws; every library "
        "builder output (single zone, two column, Gemini base and logical) for index coherence and bounding box. "
        "non-trivial = layout with >= 2 zones; distinct = distinct layouts.")
TRUSTED = ["modelled, not verified: bloqade-geometry Grid equality/hash, Python dict/set/frozenset semantics"]
ASSUMPTIONS = ["coordinates are dyadic rationals for which binary64 arithmetic is exact"]


def grid_pool():
    from bloqade.geometry.dialects.grid import Grid
    return [
        Grid.from_positions([0.0, 2.0, 10.0], [0.0, 5.0]),
        Grid.from_positions([0.0, 2.0, 10.0], [0.0, 5.0]).shift(1.5, 0.0),
        Grid.from_positions([-4.0], [3.0, 4.5, 9.0]),
        Grid.from_positions([0.0, 2.0, 10.0], [0.0, 5.0]).get_view([0, 2], [1]),
        Grid.from_positions([20.0, 21.0], [-7.5]),
        Grid.from_positions([0.0], [0.0]),
        # grids 2^-20 (a relative 5e-8) away from another grid of the pool: different grids
        Grid.from_positions([20.0, 21.0], [-7.5]).shift(2.0 ** -20, 2.0 ** -20),
        Grid.from_positions([-4.0], [3.0, 4.5, 9.0]).shift(-(2.0 ** -20), 0.0).scale(1.0, 1.0),
        # grids with an empty axis: no sites, but still values with an identity
        Grid.from_positions([], [0.0, 1.0]),
        Grid.from_positions([3.0, 4.0], []),
        # two siteless grids that differ only in the spacing of the empty axis
        Grid((1.0,), (2.0,), None, 0.0),
        Grid((3.0,), (2.0,), None, 0.0),
    ]


# pool members that differ from another member by very little (or in nothing a site shows)
TWINS = {4: 6, 6: 4, 2: 7, 7: 2, 10: 11, 11: 10}


NAMES = ["a", "b", "c", "d", ""]     # the empty string is a legal zone name


def nm(n):
    """names on the wire are atoms: the empty name travels as `<empty>` (names are opaque to the model)"""
    return "<empty>" if n == "" else n


def rand_layout_desc(rng, pool):
    """a description (plain data) of a layout: dict name->grid index etc."""
    names = rng.sample(NAMES, rng.randrange(0, 4))
    static = {n: rng.randrange(len(pool)) for n in names}
    sp_names = rng.sample(["s", "t"] + NAMES, rng.randrange(0, 3))
    special = {n: rng.randrange(len(pool)) for n in sp_names}
    pick = lambda: sorted(rng.sample(NAMES, rng.randrange(0, 3)))  # noqa: E731
    return {"static": static, "fillable": pick(), "cz": pick(), "local": pick(), "special": special}


def mutate_desc(rng, d, pool):
    import copy
    d = copy.deepcopy(d)
    k = rng.choice(["static", "fillable", "cz", "local", "special", "none", "order", "move", "move", "near", "near"])
    if k == "near":
        # one zone is replaced by a grid that is almost, but not, the same
        tabs = [(t, n) for t in ("static", "special") for n in d[t] if d[t][n] in TWINS]
        if tabs:
            t, n = rng.choice(sorted(tabs))
            d[t][n] = TWINS[d[t][n]]
        return d
    if k == "move":
        # the same (name, grid) pair changes table: static <-> special
        if d["static"] and (not d["special"] or rng.random() < 0.5):
            n = rng.choice(sorted(d["static"]))
            if n not in d["special"]:
                d["special"][n] = d["static"].pop(n)
        elif d["special"]:
            n = rng.choice(sorted(d["special"]))
            if n not in d["static"]:
                d["static"][n] = d["special"].pop(n)
        return d
    if k == "static":
        d["static"][rng.choice(NAMES)] = rng.randrange(len(pool))
    elif k == "special":
        if d["special"] and rng.random() < 0.5:
            d["special"].pop(next(iter(d["special"])))
        else:
            d["special"][rng.choice(["s", "t"])] = rng.randrange(len(pool))
    elif k in ("fillable", "cz", "local"):
        n = rng.choice(NAMES)
        d[k] = sorted(set(d[k]) ^ {n})
    elif k == "order":
        d["static"] = dict(reversed(list(d["static"].items())))
        d["fillable"] = list(reversed(d["fillable"]))
    return d


def build(desc, pool):
    from bloqade.shuttle.arch import Layout
    return Layout({n: pool[i] for n, i in desc["static"].items()}, set(desc["fillable"]), set(desc["cz"]),
                  set(desc["local"]), special_grid={n: pool[i] for n, i in desc["special"].items()})


def wire(desc, pool):
    g = lambda i: T.grid_lit(pool[i])  # noqa: E731
    return [[[nm(n), g(i)] for n, i in desc["static"].items()], [nm(n) for n in desc["fillable"]], [nm(n) for n in desc["cz"]],
            [nm(n) for n in desc["local"]], [[nm(n), g(i)] for n, i in desc["special"].items()]]


def wire_of_layout(l):
    return [[[nm(n), T.grid_lit(z)] for n, z in l.static_traps.items()], sorted(nm(n) for n in l.fillable),
            sorted(nm(n) for n in l.has_cz), sorted(nm(n) for n in l.has_local),
            [[nm(n), T.grid_lit(z)] for n, z in l.special_grid.items()]]


def same_fields(a, b):
    return (a.static_traps == b.static_traps and a.fillable == b.fillable and a.has_cz == b.has_cz and
            a.has_local == b.has_local and a.special_grid == b.special_grid)


def brute_bbox(l):
    xs, ys = [], []
    for z in itertools.chain(l.static_traps.values(), l.special_grid.values()):
        for (x, y) in z.positions:
            xs.append(frac(x))
            ys.append(frac(y))
    if not xs:
        return None
    return (min(xs), max(xs), min(ys), max(ys))


def canon_layout_obs(l):
    """what the real object answers: zone id of every zone's grid (in table order), bbox"""
    ids = []
    for n, z in itertools.chain(l.static_traps.items(), l.special_grid.items()):
        zid = l.get_zone_id(z)
        ids.append("_" if zid is None else nm(zid))
    try:
        bb = l.bounding_box()
        bbs = "(bbox " + " ".join(sx(frac(v)) for v in bb) + ")"
    except ValueError:
        bbs = "(bbox err)"
    return "ok (" + " ".join(ids) + ") " + bbs


def check_layout_object(ctx, l, case, accepted_hint=True):
    """the property's oracle on one real layout object"""
    # index coherence: every zone's grid maps to a name that maps back to that grid
    for n, z in itertools.chain(l.static_traps.items(), l.special_grid.items()):
        zid = l.get_zone_id(z)
        # a name may be used in both tables; it maps back if either table gives that grid
        backs = [] if zid is None else [t[zid] for t in (l.static_traps, l.special_grid) if zid in t]
        if zid is None or not any(b == z for b in backs):
            ctx.fail(case, f"zone index incoherent: get_zone_id(grid of '{n}') = {zid!r} does not map back to that grid",
                     key=case.get("key"))
            break
    # a grid that is no zone (a proper view of a zone, a shifted copy) gets no name - or a name that maps to an equal grid
    for n, z in itertools.chain(l.static_traps.items(), l.special_grid.items()):
        probes = [z.shift(0.25, 0.0)]
        nx_, ny_ = z.shape
        if nx_ >= 2 and ny_ >= 1:
            probes += [z[1:, :], z[0:1, :], z.get_view(list(range(nx_ - 1)), list(range(ny_)))]
            probes += [probes[1][0:1, :]] if nx_ >= 3 else []
        if ny_ >= 2 and nx_ >= 1:
            probes += [z[:, 1:]]
        for pg in probes:
            zid = l.get_zone_id(pg)
            if zid is not None and not any(t.get(zid) == pg for t in (l.static_traps, l.special_grid)):
                ctx.fail(case, f"get_zone_id of a grid that is no zone (a proper view / a shifted copy of zone '{n}') answers "
                               f"{zid!r}, which maps to a different grid", key=case.get("key"))
                break
    # a copy of a layout (copy, deepcopy, pickle round trip) is the same layout: equal, same hash, same index
    import copy as _copy
    import pickle as _pickle
    for how, mk in (("copy.copy", _copy.copy), ("copy.deepcopy", _copy.deepcopy), ("pickle", lambda o: _pickle.loads(_pickle.dumps(o)))):
        try:
            c = mk(l)
        except Exception as e:  # noqa: BLE001
            ctx.fail(case, f"{how} of a layout raises {type(e).__name__}", key=case.get("key"))
            continue
        ids0 = [l.get_zone_id(z) for z in itertools.chain(l.static_traps.values(), l.special_grid.values())]
        ids1 = [c.get_zone_id(z) for z in itertools.chain(l.static_traps.values(), l.special_grid.values())]
        if not (c == l and l == c and hash(c) == hash(l)) or ids0 != ids1:
            ctx.fail(case, f"{how} of a layout is not the same layout (==, hash or zone index differ: {ids1} vs {ids0})", key=case.get("key"))
            break
    # two names may not denote the same grid
    zs = list(itertools.chain(l.static_traps.items(), l.special_grid.items()))
    for (n1, z1), (n2, z2) in itertools.combinations(zs, 2):
        if z1 == z2:
            ctx.fail(case, f"two names denote the same grid: '{n1}' and '{n2}'", key=case.get("key"))
            break
    # bounding box is tight
    want = brute_bbox(l)
    try:
        got = tuple(frac(v) for v in l.bounding_box())
    except ValueError:
        got = None
    if want is not None and got != want:
        ctx.fail(case, f"bounding box {got} is not the tight box {want}", key=case.get("key"))


def run(ctx):
    from bloqade.shuttle.arch import ArchSpec
    rng = ctx.rng
    pool = grid_pool()
    thorough = ctx.tier == "thorough"
    n = 1500 if thorough else 250
    descs = []
    for _ in range(n // 3):
        d = rand_layout_desc(rng, pool)
        descs.append(d)
        descs.append(mutate_desc(rng, d, pool))
        descs.append(mutate_desc(rng, mutate_desc(rng, d, pool), pool))
    # ---- construction, index, bbox: impl vs model ----------------------------
    reqs, impls, objs = [], [], []
    for d in descs:
        reqs.append("(C13 (layout " + sx(wire(d, pool)) + "))")
        case = {"layout": d}
        try:
            l = build(d, pool)
            objs.append(l)
            impls.append(canon_layout_obs(l))
            check_layout_object(ctx, l, case)
            ctx.count("accepted")
        except ValueError:
            objs.append(None)
            impls.append("err")
            ctx.count("rejected_duplicate")
        ctx.seen(sx(wire(d, pool)), len(d["static"]) + len(d["special"]) >= 2)
    model = ctx.driver(reqs)
    ctx.traces_validated = len(reqs)
    for d, i, m in zip(descs, impls, model):
        if m.startswith("bad"):
            raise HarnessFault("driver rejected a layout")
        if i != m:
            ctx.disagree({"layout": d}, i, m, "Layout construction/index/bbox vs model")
    # ---- equality / hash laws -------------------------------------------------
    live = [(d, l) for d, l in zip(descs, objs) if l is not None]
    sample = live[: (140 if thorough else 60)]
    eq_reqs, eq_impl, eq_meta = [], [], []
    for (d1, l1), (d2, l2) in itertools.product(sample, sample):
        e = (l1 == l2)
        ctx.count("eq_pairs")
        case = {"layout": d1, "layout2": d2}
        if e != same_fields(l1, l2):
            ctx.fail(case, f"Layout == is {e} but the five fields are {'equal' if same_fields(l1, l2) else 'different'}")
        if e and hash(l1) != hash(l2):
            ctx.fail(case, "equal layouts hash differently")
        if e != (l2 == l1):
            ctx.fail(case, "Layout == is not symmetric")
        if e:
            ctx.count("eq_pairs_equal")
        eq_reqs.append("(C13 (eq " + sx(wire(d1, pool)) + " " + sx(wire(d2, pool)) + "))")
        eq_impl.append(sx(bool(e)))
        eq_meta.append(case)
    for case, i, m in zip(eq_meta, eq_impl, ctx.driver(eq_reqs)):
        if i != m:
            ctx.disagree(case, i, m, "Layout.__eq__ vs model")
    for _ in range(20000 if thorough else 3000):
        (d1, a), (d2, b), (d3, c) = rng.choice(sample), rng.choice(sample), rng.choice(sample)
        if a == b and b == c and not a == c:
            ctx.fail({"layout": d1, "layout2": d2, "layout3": d3}, "Layout == is not transitive")
    for d, l in sample:
        if not l == l:
            ctx.fail({"layout": d}, "Layout == is not reflexive")
    # ---- ArchSpec: constants participate in ==, equal specs hash equally -------
    consts = [({}, {}), ({"x": 1.0}, {}), ({"x": 2.0}, {}), ({}, {"n": 0}), ({}, {"n": 1}), ({"x": 1.0}, {"n": 0}),
              ({"x": 0.0}, {"n": 0}),
              # several constants per table, in both insertion orders (equal dicts)
              ({"x": 1.0, "y": 2.0}, {"n": 0, "m": 1}), ({"y": 2.0, "x": 1.0}, {"m": 1, "n": 0}),
              ({"x": 1.0, "y": 2.0}, {"m": 1, "n": 0}), ({"x": 2.0, "y": 1.0}, {"n": 0, "m": 1})]
    specs = []
    for d, l in sample[:12]:
        for fc, ic in consts:
            specs.append((d, fc, ic, ArchSpec(layout=l, float_constants=dict(fc), int_constants=dict(ic))))
    for (d1, f1, i1, s1), (d2, f2, i2, s2) in itertools.product(specs, specs):
        want = (s1.layout == s2.layout) and f1 == f2 and i1 == i2
        got = s1 == s2
        ctx.count("spec_pairs")
        case = {"layout": d1, "layout2": d2, "consts": [f1, i1], "consts2": [f2, i2]}
        if got != want:
            ctx.fail(case, f"ArchSpec == is {got}, but layout/constants are {'equal' if want else 'different'}")
        if got and hash(s1) != hash(s2):
            ctx.fail(case, "equal ArchSpecs hash differently")
    # ---- library builders -------------------------------------------------------
    builders(ctx)
    for k in (0, len(descs) // 2):
        ctx.sample({"layout": descs[k], "impl": impls[k], "model": model[k]})
    if ctx.counts.get("rejected_duplicate", 0) < 5 or ctx.counts.get("eq_pairs_equal", 0) < len(sample) + 5:
        raise HarnessFault("generator degenerate: too few duplicate-grid layouts or too few equal pairs")


def builders(ctx):
    from bloqade.shuttle.stdlib.layouts import single_col_zone, two_col_zone
    from bloqade.shuttle.stdlib.layouts.gemini import base_spec, logical
    import warnings
    with warnings.catch_warnings():
        warnings.simplefilter("ignore")
        from bloqade.shuttle.stdlib import spec as old_spec
    outs = []
    sizes = [(1, 1), (2, 1), (1, 3), (3, 2), (4, 4)] + ([(5, 3), (2, 6)] if ctx.tier == "thorough" else [])
    for nx, ny in sizes:
        outs.append((f"single_col_zone.get_spec({nx},{ny})", single_col_zone.get_spec(nx, ny)))
        outs.append((f"two_col_zone.get_spec({nx},{ny})", two_col_zone.get_spec(nx, ny)))
        outs.append((f"stdlib.spec.single_zone_spec({nx},{ny})", old_spec.single_zone_spec(nx, ny)))
    outs.append(("gemini.base_spec.get_base_spec()", base_spec.get_base_spec()))
    outs.append(("gemini.logical.get_spec()", logical.get_spec()))
    reqs, impls = [], []
    for name, s in outs:
        ctx.count("builder_outputs")
        case = {"builder": name}
        check_layout_object(ctx, s.layout, case)
        reqs.append("(C13 (layout " + sx(wire_of_layout(s.layout)) + "))")
        impls.append(canon_layout_obs(s.layout))
        ctx.seen(name, True)
        if not (s == s and hash(s) == hash(s)):
            ctx.fail(case, "builder output is not equal to itself / hash unstable")
    for (name, s), i, m in zip(outs, impls, ctx.driver(reqs)):
        if i != m:
            ctx.disagree({"builder": name}, i[:400], m[:400], "builder layout index/bbox vs model of Layout")
