"""C01 — tracing reproduces the reference AOD semantics."""
from ..core import HarnessFault
from .. import tweezer as T

ID = "C01"
CASE_REPLAY = True
MODULES = ["Shuttle.Props.C01"]
RULE = ("seeded random tweezer programs (main kernel + 0-2 helper kernels; set_loc/move/turn_on/turn_off with all "
        "four slice/list selector combinations given as literals, action.ALL, typed and untyped kernel arguments; "
        "nested if/for with zero-iteration loops and loop-carried counters; grids from positions, shifts, scales, "
        "sub-grids, slicing, spec zones), each compiled with the real @tweezer (a quarter also with @tweezer(fold=False)) and traced on 2-4 argument tuples; "
        "plus a fixed corpus. A case is one (program, arguments) run; non-trivial = the reference op sequence "
        "contains at least one switch or move; distinct = distinct reference op sequences.")
TRUSTED = ["modelled, not verified: kirin's lowering and interpreter loop (exercised by every case), bloqade-geometry Grid "
           "(Model/Grid.lean, compared on every grid operand)",
           "the program generator's own flattening of its AST to the reference operation sequence (harness/tweezer.py)"]
ASSUMPTIONS = ["coordinates are dyadic rationals for which binary64 arithmetic is exact"]

CORPUS = T.CORPUS


LOOP_SRC = T.PRELUDE + '''
@tweezer
def sweep(g: grid.Grid[Any, Any], n: int):
    action.set_loc(g)
    cols = [0]
    for i in range(n):
        cols = cols + [len(cols)]
        action.move(grid.shift(g, 1.0 * len(cols), 0.5 * i))
    action.turn_on(cols, [0])
    action.move(grid.shift(g, 0.0, 1.0 * len(cols)))

@tweezer
def sweep_unrolled(g: grid.Grid[Any, Any], n: int):
    action.set_loc(g)
    action.move(grid.shift(g, 2.0, 0.0))
    action.move(grid.shift(g, 3.0, 0.5))
    action.move(grid.shift(g, 4.0, 1.0))
    action.turn_on([0, 1, 2, 3], [0])
    action.move(grid.shift(g, 0.0, 4.0))
'''


def loop_list_stream(ctx, spec):
    """a list that grows inside a loop, with len() of it used inside and after the loop: the trace is the trace of the same
    kernel written out without the loop (index lists are outside the generated kernels' language)"""
    from bloqade.geometry.dialects.grid import Grid
    from bloqade.shuttle.codegen import TraceInterpreter
    g = Grid.from_positions([0.0, 1.0, 2.0, 3.0], [0.0])
    for opts in ("", "(fold=False)"):
        mod = T.load_source(LOOP_SRC.replace("@tweezer\ndef sweep(", f"@tweezer{opts}\ndef sweep("), "c01l")
        ctx.count("loop_list_runs")
        try:
            got = T.canon_path(TraceInterpreter(spec).run_trace(mod.sweep, (g, 3), {}))
        except Exception as e:  # noqa: BLE001
            got = f"err {type(e).__name__}"
        want = T.canon_path(TraceInterpreter(spec).run_trace(mod.sweep_unrolled, (g, 3), {}))
        if got != want:
            ctx.fail({"source": LOOP_SRC[len(T.PRELUDE):], "args": ["g", 3], "options": opts},
                     f"a kernel with a list growing in a loop traces to {got[:300]}, written out without the loop it traces to {want[:300]}")


def run(ctx):
    spec = T.default_spec()
    traps, zones = T.spec_tables(spec)
    if ctx.replay_case is not None:
        rc = T.detuple(ctx.replay_case)
        cases = T.trace_program(ctx, spec, traps, list(rc["kernels"]), [rc["args"]])
    else:
        cases = []
        T.SPEC_SLOT = spec
        for c in CORPUS:
            # the fixed corpus is compiled all three ways: default, unfolded, and with the spec given to the decorator
            for opts in ("", "(fold=False)", "(arch_spec=_TW.SPEC_SLOT)"):
                cases += T.trace_program(ctx, spec, traps, c["kernels"], [c["args"]], opts=opts)
        n_prog = 1500 if ctx.tier == "thorough" else 150
        cases += T.random_traces(ctx, spec, n_prog, unfolded_share=0.25)
        if ctx.counts.get("compile_fail", 0) > 0.3 * n_prog:
            raise HarnessFault("generator degenerate: >30% of generated kernels do not compile")
    if ctx.replay_case is None:
        loop_list_stream(ctx, spec)
    # kernel level: the Lean evaluator runs the kernel's *source* (Model/Lang.lean) and the tracer
    # model consumes the operations it performs
    from .. import lang as L
    table = L.sx_spec_table(spec)
    klines = []
    for c in cases:
        fns = [L.tw_fn(k) for k in c.kernels]
        args = " ".join(L.sx_val(a) for a in c.rargs)
        klines.append(f"(LANG (trace {table} {L.sx_program(fns)} main ({args})))")
    kres = ctx.driver(klines)
    for c, kr in zip(cases, kres):
        if kr.startswith("bad") or kr == "fuel":
            raise HarnessFault(f"driver could not evaluate a kernel ({kr}): {c.source[-300:]}")
        if T.norm_result(kr) != T.norm_result(c.impl):
            ctx.disagree(c.as_case(), c.impl[:400], kr[:400], "kernel source evaluated in Lean + tracer model vs TraceInterpreter")
    refs = ctx.driver([f"(C01 (ref {c.req}))" for c in cases])
    trs = ctx.driver([f"(C01 (trace {c.req}))" for c in cases])
    ctx.traces_validated = len(cases)
    n_ok = n_err = 0
    for c, ref, tr in zip(cases, refs, trs):
        if ref.startswith("bad") or tr.startswith("bad"):
            raise HarnessFault(f"driver rejected a request: {c.req[:300]}")
        if c.kernel_error:
            ref = tr = "err"   # the source itself asserts false: no path on any semantics
        n_ok += ref.startswith("ok")
        n_err += not ref.startswith("ok")
        ctx.seen(c.req, any(o[0] in ("move", "turn") for o in c.ops))
        for o in c.ops:
            ctx.count("op_" + o[0])
            if o[0] == "turn":
                ctx.count("turn_%s_%s" % ("S" if o[2][0] == "sl" else "L", "S" if o[3][0] == "sl" else "L"))
        if T.norm_result(c.impl) != T.norm_result(tr):
            ctx.disagree(c.as_case(), c.impl, tr, "tracer model vs TraceInterpreter")
        if T.norm_result(c.impl) != T.norm_result(ref):
            ctx.fail(c.as_case(), "traced path differs from the reference AOD semantics: impl=%s ref=%s"
                     % (c.impl[:400], ref[:400]))
        elif getattr(c, "kw_impl", None) is not None and T.norm_result(c.kw_impl) != T.norm_result(ref):
            ctx.count("keyword_call_differs")
            ctx.fail(c.as_case(), "traced with every argument given by keyword, the path differs from the reference AOD semantics: "
                                  "impl=%s ref=%s" % (c.kw_impl[:400], ref[:400]))
        elif c.shared_impl is not None and T.norm_result(c.shared_impl) != T.norm_result(ref):
            ctx.count("shared_instance_differs")
            ctx.fail(c.as_case(), "traced on an instance that has traced other kernels before (failing ones included), the path "
                                  "differs from the reference AOD semantics: impl=%s ref=%s" % (c.shared_impl[:400], ref[:400]))
    ctx.count("ref_ok", n_ok)
    ctx.count("ref_err", n_err)
    for k in (0, len(cases) // 2, len(cases) - 1):
        if 0 <= k < len(cases):
            c = cases[k]
            ctx.sample({"source": c.source[len(T.PRELUDE):], "args": T.sx(c.wire_args), "ops": c.req[:400],
                        "impl": c.impl[:400], "ref": refs[k][:400]})
    if ctx.replay_case is None and (n_ok < 0.3 * len(cases) or n_err < 0.02 * len(cases)):
        raise HarnessFault(f"generator degenerate: ok={n_ok} err={n_err}")
