"""C11 — every produced path is well formed."""
from ..core import HarnessFault
from .. import tweezer as T

ID = "C11"
CASE_REPLAY = True
MODULES = ["Shuttle.Props.C11"]
RULE = ("every path returned by TraceInterpreter.run_trace for seeded random tweezer programs (as C01) and its "
        "reverse_path(...) image, the path the same call returns on a long-lived instance that has traced every earlier "
        "kernel (failing ones included), plus the paths of the library tweezer kernels; the Lean predicate WF is evaluated "
        "on the real path. non-trivial = path with at least one switch; distinct = distinct canonical paths.")
TRUSTED = ["modelled, not verified: kirin interpreter loop, bloqade-geometry Grid"]
ASSUMPTIONS = ["coordinates are dyadic rationals for which binary64 arithmetic is exact"]


def run(ctx):
    from bloqade.shuttle.codegen import reverse_path
    spec = T.default_spec()
    traps, zones = T.spec_tables(spec)
    if ctx.replay_case is not None:
        rc = T.detuple(ctx.replay_case)
        cases = T.trace_program(ctx, spec, traps, list(rc["kernels"]), [rc["args"]])
    else:
        n_prog = 1200 if ctx.tier == "thorough" else 120
        cases = T.random_traces(ctx, spec, n_prog)
        for c in T.CORPUS:
            cases += T.trace_program(ctx, spec, traps, c["kernels"], [c["args"]])
    items = []   # (case dict, what, canonical path)
    for c in cases:
        # what the same kernel returns on one long-lived instance that has traced all earlier kernels, failing ones included
        if c.shared_impl is not None and c.shared_impl.startswith("ok "):
            items.append((c, "traced-on-a-used-instance", c.shared_impl[3:]))
        if c.path is None:
            ctx.count("trace_errors")
            continue
        items.append((c, "traced", T.canon_path(c.path)))
        try:
            rp = reverse_path(c.path)
            items.append((c, "reversed", T.canon_path(rp)))
            items.append((c, "reversed-twice", T.canon_path(reverse_path(rp))))
        except Exception as e:  # noqa: BLE001
            ctx.fail(c.as_case(), f"reverse_path raised {type(e).__name__} on a traced path")
    # model side: the tracer model's path must be WF too (theorem) — and equal, as in C01
    wf = ctx.driver([f"(C01 (wf {p}))" for _, _, p in items])
    model = ctx.driver([f"(C01 (trace {c.req}))" for c, w, _ in items if w == "traced"])
    mi = iter(model)
    ctx.traces_validated = len(items)
    for (c, what, p), ok in zip(items, wf):
        ctx.seen(p, "(sw" in p)
        ctx.count("paths_" + what)
        ctx.count("paths_with_switch" if "(sw" in p else "paths_without_switch")
        if what == "traced":
            m = next(mi)
            if T.norm_result(m) != "ok " + p:
                ctx.disagree(c.as_case(), "ok " + p, m, "tracer model vs TraceInterpreter")
        if ok == "F":
            ctx.fail(dict(c.as_case(), what=what), f"{what} path is not well formed: {p[:500]}")
        elif ok != "T":
            raise HarnessFault(f"driver could not read a real path ({ok}): {p[:300]}")
    for k in (0, len(items) // 2):
        if k < len(items):
            ctx.sample({"what": items[k][1], "path": items[k][2][:500], "WF": wf[k]})
    if ctx.replay_case is None and ctx.counts.get("paths_with_switch", 0) < 20:
        raise HarnessFault("generator degenerate: too few paths with switches")
