"""C09 — the quantum-runtime query never answers False for a kernel that acts."""
import itertools

from ..core import HarnessFault
from .. import lang as L
from .. import tweezer as T
from .. import events as EV

ID = "C09"
MODULES = ["Shuttle.Props.C09"]
RULE = ("seeded random move programs placing each device-visible statement (fill, measure, the five gates, device calls, "
        "parallel blocks) at top level, in either branch, in loop bodies with loop-carried variables at nesting 1-3, in "
        "subroutines (recursive ones included) and in closures; 40% of the programs have all such statements stripped "
        "(quiet programs). RuntimeAnalysis(move).has_quantum_runtime(main) is compared with the model's answer, and with ground "
        "truth: the event logs of the same compiled kernel on the whole argument domain n<4, m<3, b. "
        "non-trivial = program with a device-visible statement below top level; distinct = distinct programs.")
TRUSTED = ["modelled, not verified: kirin's forward-analysis framework (frames, run_ssacfg_region), const hints for closures; "
           "Model/Lang.lean as reference semantics (validated against the real interpreter on every run)"]
ASSUMPTIONS = ["kirin's folding may legitimately delete a statically dead branch: impl=no / model=yes is accepted when no "
               "execution over the argument domain has an event"]

EFFECT_OPS = {"fill", "measure", "top_hat_cz", "local_r", "local_rz", "global_r", "global_rz"}


def strip_effects(body):
    out = []
    for st in body:
        k = st[0]
        if k == "eff" and st[1] in EFFECT_OPS:
            out.append(("assign", "u0", ("lit", 0)))
        elif k in ("devcall", "par"):
            out.append(("assign", "u0", ("lit", 0)))
        elif k == "if":
            out.append(("if", st[1], strip_effects(st[2]), strip_effects(st[3])))
        elif k == "for":
            out.append(("for", st[1], st[2], st[3], st[4], strip_effects(st[5])))
        else:
            out.append(st)
    return out


def strip_program(fns):
    out = []
    for f in fns:
        if f["tweezer"]:
            out.append(f)
            continue
        g = dict(f)
        g["body"] = strip_effects(f["body"])
        g["nested"] = {n: dict(v, body=strip_effects(v["body"])) for n, v in f["nested"].items()}
        out.append(g)
    return out


def syntactically_quiet(fns):
    if any(f["name"] == "apply_fn" for f in fns):
        return False        # a dynamically resolved call: the property allows a refusal
    r = repr([f["body"] for f in fns if not f["tweezer"]] + [v["body"] for f in fns for v in f["nested"].values()])
    return not any(f"'{op}'" in r for op in EFFECT_OPS | {"devcall", "par"})


def deep_effect(fns):
    main = fns[-1]
    def has(body, depth):
        for st in body:
            if st[0] in ("if",):
                if has(st[2], depth + 1) or has(st[3], depth + 1):
                    return True
            elif st[0] == "for":
                if has(st[5], depth + 1):
                    return True
            elif (st[0] == "eff" and st[1] in EFFECT_OPS) or st[0] in ("devcall", "par"):
                if depth > 0:
                    return True
        return False
    return has(main["body"], 0) or any(has(f["body"], 1) for f in fns[:-1] if not f["tweezer"]) or \
        any(has(v["body"], 1) for v in main["nested"].values())


def run(ctx):
    from bloqade.shuttle.analysis.runtime import RuntimeAnalysis
    from bloqade.shuttle.prelude import move
    spec = L.default_move_spec()
    g = L.MoveGen(ctx.rng, {"unknown": 0.0, "assert": 0.0, "recursion": True, "dynamic_call": 0.12, "dead_effect": 0.15})
    n_prog = 600 if ctx.tier == "thorough" else 90
    domain = [(n, m, b) for n in range(4) for m in range(3) for b in (True, False)]
    lines, rows = [], []
    for pi in range(n_prog):
        fns, _ = g.program()
        if ctx.rng.random() < 0.4:
            fns = strip_program(fns)
        src = L.program_source(fns)
        try:
            mod = T.load_source(src, "c09")
        except Exception:  # noqa: BLE001
            ctx.count("compile_fail")
            continue
        try:
            ans = "yes" if RuntimeAnalysis(move).has_quantum_runtime(mod.main) else "no"
        except Exception as e:  # noqa: BLE001
            ans = "refused"
            ctx.count("refused_" + type(e).__name__)
        acting = None
        for a in domain:
            r = EV.run_with_events(mod.main, spec, a)
            if r.events:
                acting = (a, EV.canon_events(r.events)[:300])
                break
        quiet = syntactically_quiet(fns)
        case = {"source": src[len(L.HDR):], "answer": ans}
        lines.append(f"(LANG (ana {L.sx_program(fns)} main))")
        rows.append((case, ans, acting, quiet))
        ctx.seen(src, deep_effect(fns))
        ctx.count("programs")
        ctx.count("answer_" + ans)
        ctx.count("acting" if acting else "silent")
        ctx.count("syntactically_quiet" if quiet else "has_effect_statement")
    if ctx.counts.get("compile_fail", 0) > 0.3 * n_prog:
        raise HarnessFault("generator degenerate: >30% of generated programs do not compile")
    model = ctx.driver(lines)
    ctx.traces_validated = len(rows)
    for (case, ans, acting, quiet), m in zip(rows, model):
        if m.startswith("bad"):
            raise HarnessFault("driver rejected a program")
        # ---- the property --------------------------------------------------------
        if ans == "no" and acting is not None:
            ctx.fail(dict(case, args=list(acting[0])),
                     f"has_quantum_runtime answered False, yet main{acting[0]} performs {acting[1]}")
        if quiet and ans != "no":
            ctx.fail(case, f"no device-visible statement and no dynamic call anywhere in the call graph, yet the query answered {ans}")
        # ---- correspondence ------------------------------------------------------
        if ans != m:
            if ans == "no" and m == "yes" and acting is None:
                ctx.count("benign_fold_difference")     # a statically dead branch was folded away
            else:
                ctx.disagree(case, ans, m, "has_quantum_runtime vs model")
    for k in (0, len(rows) // 2):
        if k < len(rows):
            ctx.sample({"source": rows[k][0]["source"][:1200], "answer": rows[k][1], "model": model[k],
                        "acting_run": rows[k][2]})
    c = ctx.counts
    if c.get("answer_no", 0) + c.get("silent", 0) < 5 or c.get("acting", 0) < 10:
        raise HarnessFault(f"generator degenerate: {c}")
