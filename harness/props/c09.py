"""C09 — the quantum-runtime query never answers False for a kernel that acts."""
import itertools

from ..core import HarnessFault
from .. import lang as L
from .. import tweezer as T
from .. import events as EV

ID = "C09"
MODULES = ["Shuttle.Props.C09"]
RULE = ("seeded random move programs placing each device-visible statement (fill, measure, the five gates, device calls, "
        "parallel blocks) at top level, in either branch, in loop bodies with loop-carried variables at nesting 1-3, in "
        "subroutines (recursive ones included) and in closures; 40% of the programs have all such statements stripped "
        "(quiet programs). RuntimeAnalysis(move).has_quantum_runtime(main) is compared with the model's answer, and with ground "
        "truth: the event logs of the same compiled kernel on the whole argument domain n<4, m<3, b. "
        "non-trivial = program with a device-visible statement below top level; distinct = distinct programs.")
TRUSTED = ["modelled, not verified: kirin's forward-analysis framework (frames, run_ssacfg_region), const hints for closures; "
           "Model/Lang.lean as reference semantics (validated against the real interpreter on every run)"]
ASSUMPTIONS = ["kirin's folding may legitimately delete a statically dead branch: impl=no / model=yes is accepted when no "
               "execution over the argument domain has an event"]

EFFECT_OPS = {"fill", "measure", "top_hat_cz", "local_r", "local_rz", "global_r", "global_rz"}


def strip_effects(body):
    out = []
    for st in body:
        k = st[0]
        if k == "eff" and st[1] in EFFECT_OPS:
            out.append(("assign", "u0", ("lit", 0)))
        elif k in ("devcall", "par"):
            out.append(("assign", "u0", ("lit", 0)))
        elif k == "if":
            out.append(("if", st[1], strip_effects(st[2]), strip_effects(st[3])))
        elif k == "for":
            out.append(("for", st[1], st[2], st[3], st[4], strip_effects(st[5])))
        else:
            out.append(st)
    return out


def strip_program(fns):
    out = []
    for f in fns:
        if f["tweezer"]:
            out.append(f)
            continue
        g = dict(f)
        g["body"] = strip_effects(f["body"])
        g["nested"] = {n: dict(v, body=strip_effects(v["body"])) for n, v in f["nested"].items()}
        out.append(g)
    return out


def syntactically_quiet(fns):
    if any(f["name"] == "apply_fn" for f in fns):
        return False        # a dynamically resolved call: the property allows a refusal
    r = repr([f["body"] for f in fns if not f["tweezer"]] + [v["body"] for f in fns for v in f["nested"].values()])
    return not any(f"'{op}'" in r for op in EFFECT_OPS | {"devcall", "par"})


def deep_effect(fns):
    main = fns[-1]
    def has(body, depth):
        for st in body:
            if st[0] in ("if",):
                if has(st[2], depth + 1) or has(st[3], depth + 1):
                    return True
            elif st[0] == "for":
                if has(st[5], depth + 1):
                    return True
            elif (st[0] == "eff" and st[1] in EFFECT_OPS) or st[0] in ("devcall", "par"):
                if depth > 0:
                    return True
        return False
    return has(main["body"], 0) or any(has(f["body"], 1) for f in fns[:-1] if not f["tweezer"]) or \
        any(has(v["body"], 1) for v in main["nested"].values())


# ---------------------------------------------------------------------------- placements
def one_effect(kind):
    """the single device-visible statement of a placement program (zone `z` and device function `d` in scope)"""
    F, Lt = L.Fraction, L.L
    z = ("var", "z")
    return {
        "fill": ("eff", "fill", [L.P("list", z)]),
        "measure": ("eff", "measure", [L.P("list", z)]),
        "top_hat_cz": ("eff", "top_hat_cz", [z, Lt(F(3)), Lt(F(2))]),
        "local_r": ("eff", "local_r", [Lt(F(1, 2)), Lt(F(1)), z]),
        "local_rz": ("eff", "local_rz", [Lt(F(1, 2)), z]),
        "global_r": ("eff", "global_r", [Lt(F(1, 2)), Lt(F(1))]),
        "global_rz": ("eff", "global_rz", [Lt(F(1, 2))]),
        "play": ("devcall", ("var", "d"), [z, Lt(1)], []),
        "play_group": ("par", [("devcall", ("var", "d"), [z, Lt(1)], []), ("devcall", ("var", "d"), [z, Lt(2)], [])]),
        "nothing": ("assign", "u", Lt(7)),      # a quiet program with the same control structure
    }[kind]


PLACEMENTS = ["top", "then", "else", "loop1", "loop2", "loop3", "after_loop_return", "sub", "sub_in_branch",
              "aliased_second_sub", "aliased_nested_sub", "recursive_sub", "recursion_base_helper", "closure", "closure_in_branch",
              "closure_rebound_in_loop", "before_quiet_closure_call", "before_quiet_sub_call", "after_dynamic_call"]


def placement_program(kind, where):
    """a program whose only device-visible statement is `kind`, placed at `where`; everything else is pure"""
    Lt, P = L.L, L.P
    E = one_effect(kind)
    tk = {"name": "tk0", "tweezer": True, "params": [("g", "grid.Grid[Any, Any]"), ("n", "int")],
          "body": [("eff", "set_loc", [("var", "g")]), ("eff", "move", [P("shift", ("var", "g"), P("mul", Lt(L.Fraction(1)), ("var", "n")), Lt(L.Fraction(0)))])],
          "nested": {}, "kinds": ["grid", "int"]}
    pre = [("assign", "d", P("device_fn", Lt("tk0"), P("list", Lt(0)), P("list", Lt(0)))),
           ("assign", "z", ("look", "trap", "A"))]
    def fn(name, params, body, **kw):
        return dict({"name": name, "tweezer": False, "params": params, "body": body, "nested": {}}, **kw)
    subs, nested = [], {}
    def loop(v, stop, body):
        c = "c" + v
        return [("assign", c, Lt(0)), ("for", v, Lt(0), stop, Lt(1), [("assign", c, P("add", ("var", c), Lt(1)))] + body)]
    if where == "top":
        body = pre + [E]
    elif where == "then":
        body = pre + [("if", ("var", "b"), [E], [("assign", "u", Lt(1))])]
    elif where == "else":
        body = pre + [("if", ("var", "b"), [("assign", "u", Lt(1))], [E])]
    elif where == "loop1":
        body = pre + loop("k1", ("var", "n"), [E])
    elif where == "loop2":
        body = pre + loop("k1", ("var", "n"), loop("k2", ("var", "m"), [E]))
    elif where == "loop3":
        body = pre + loop("k1", ("var", "n"), loop("k2", ("var", "m"), loop("k3", Lt(2), [("if", ("var", "b"), [E], [])])))
    elif where == "after_loop_return":
        body = pre + loop("k1", ("var", "n"), [("ret", ("var", "k1"))]) + [E]
    elif where == "sub":
        subs = [fn("sub0", [("a0", "int")], pre + [E, ("ret", ("var", "a0"))])]
        body = [("assign", "r", ("call", "sub0", [("var", "n")]))]
    elif where == "sub_in_branch":
        subs = [fn("sub0", [("a0", "int")], pre + [E, ("ret", P("add", ("var", "a0"), Lt(1)))])]
        body = [("if", ("var", "b"), [("assign", "r", ("call", "sub0", [("var", "n")]))], [("assign", "r", Lt(0))]),
                ("ret", ("var", "r"))]
    elif where == "aliased_second_sub":
        subs = [fn("sub0", [("a0", "int")], [("ret", P("add", ("var", "a0"), Lt(1)))], factory=True),
                fn("sub1", [("a0", "int")], pre + [E, ("ret", ("var", "a0"))], factory=True)]
        body = [("assign", "r", ("call", "sub0", [("var", "n")])), ("assign", "s", ("call", "sub1", [("var", "m")]))]
    elif where == "aliased_nested_sub":
        # two distinct kernels carrying the same Python function name, one calling the other; the effect is in the inner one
        subs = [fn("sub0", [("a0", "int")], pre + [E, ("ret", ("var", "a0"))], factory=True),
                fn("sub1", [("a0", "int")], [("assign", "rr", ("call", "sub0", [("var", "a0")])), ("ret", ("var", "rr"))], factory=True)]
        body = [("assign", "s", ("call", "sub1", [("var", "m")]))]
    elif where == "recursive_sub":
        subs = [fn("sub0", [("a0", "int")], [("if", P("le", ("var", "a0"), Lt(0)), [("ret", Lt(0))], [])] + pre +
                   [E, ("assign", "rr", ("call", "sub0", [P("sub", ("var", "a0"), Lt(1))])), ("ret", P("add", ("var", "rr"), Lt(1)))])]
        body = [("assign", "r", ("call", "sub0", [("var", "n")]))]
    elif where == "recursion_base_helper":
        subs = [fn("pulse", [("a0", "int")], pre + [E, ("ret", ("var", "a0"))]),
                fn("sub0", [("a0", "int")], [("if", P("gt", ("var", "a0"), Lt(0)),
                                               [("assign", "rr", ("call", "sub0", [P("sub", ("var", "a0"), Lt(1))]))],
                                               [("assign", "rr", ("call", "pulse", [("var", "a0")]))]),
                                              ("ret", ("var", "rr"))])]
        body = [("assign", "r", ("call", "sub0", [("var", "n")]))]
    elif where in ("closure", "closure_in_branch"):
        nested["inner1"] = fn("inner1", [("k", "int")], [E, ("ret", P("add", ("var", "k"), ("var", "n")))])
        call = ("assign", "r", ("callv", ("var", "inner1"), [("var", "m")]))
        body = pre + [("assign", "inner1", ("lam", "inner1"))] + \
            ([call] if where == "closure" else [("if", ("var", "b"), [call], [("assign", "r", Lt(0))])])
    elif where == "before_quiet_closure_call":
        # the device-visible statement comes first; a closure that does nothing is called afterwards
        nested["inner1"] = fn("inner1", [("k", "int")], [("ret", P("add", ("var", "k"), ("var", "n")))])
        body = pre + [E, ("assign", "inner1", ("lam", "inner1")), ("assign", "r", ("callv", ("var", "inner1"), [("var", "m")])),
                      ("if", ("var", "b"), [("assign", "r", ("callv", ("var", "inner1"), [("var", "r")]))], []), ("ret", ("var", "r"))]
    elif where == "before_quiet_sub_call":
        subs = [fn("sub0", [("a0", "int")], [("ret", P("add", ("var", "a0"), Lt(1)))])]
        body = pre + [E, ("assign", "r", ("call", "sub0", [("var", "n")])),
                      ("for", "k1", Lt(0), ("var", "n"), Lt(1), [("assign", "r", ("call", "sub0", [("var", "r")]))]), ("ret", ("var", "r"))]
    elif where == "closure_rebound_in_loop":
        # the variable that is called holds a quiet closure in the first iteration and the acting one from the second on
        nested["step"] = fn("step", [("k", "int")], [("ret", P("add", ("var", "k"), ("var", "n")))])
        nested["inner1"] = fn("inner1", [("k", "int")], [E, ("ret", P("add", ("var", "k"), ("var", "n")))])
        body = pre + [("assign", "step", ("lam", "step")), ("assign", "inner1", ("lam", "inner1")), ("assign", "x", Lt(0))] + \
            loop("k1", ("var", "n"), [("assign", "x", ("callv", ("var", "step"), [("var", "x")])), ("assign", "step", ("var", "inner1"))]) + \
            [("ret", ("var", "x"))]
    elif where == "after_dynamic_call":
        subs = [fn("apply_fn", [("f", None), ("k", "int")], [("ret", ("callv", ("var", "f"), [("var", "k")]))])]
        nested["inner1"] = fn("inner1", [("k", "int")], [("ret", P("add", ("var", "k"), Lt(1)))])
        body = pre + [("assign", "inner1", ("lam", "inner1")), ("assign", "r", ("call", "apply_fn", [("var", "inner1"), ("var", "n")])), E,
                      ("ret", ("var", "r"))]
    else:
        raise ValueError(where)
    if body[-1][0] != "ret":
        body = body + [("ret", Lt(0))]
    main = fn("main", [("n", "int"), ("m", "int"), ("b", "bool")], body)
    main["nested"] = nested
    return [tk] + subs + [main]


APPLIED_SRC = L.HDR + '''
@move
def pulse(i: int):
    gate.global_rz(0.25)
    return i

@move
def quiet(i: int):
    return i + 1

@move
def mapped(n: int):
    return ilist.map(pulse, ilist.range(n))

@move
def mapped_quiet(n: int):
    return ilist.map(quiet, ilist.range(n))

@move
def each(n: int):
    ilist.for_each(pulse, ilist.range(n))

@move
def folded(n: int):
    def step(acc: int, i: int):
        gate.global_rz(0.5)
        return acc + i
    return ilist.foldl(step, ilist.range(n), 0)

@move
def folded_right(n: int):
    def step(i: int, acc: int):
        gate.local_rz(0.5, spec.get_static_trap(zone_id="A"))
        return acc + i + n
    return ilist.foldr(step, ilist.range(n), 0)

@move
def scanned_quiet(n: int):
    def step(acc: int, i: int):
        return acc + i + n, i
    return ilist.scan(step, ilist.range(n), 0)

@move
def nested_map(n: int):
    def outer(i: int):
        return ilist.map(pulse, ilist.range(i))
    return ilist.map(outer, ilist.range(n))
'''


def applied_function_stream(ctx, spec, RuntimeAnalysis, move):
    """device-visible statements reached only through a function handed to ilist.map / for_each / foldl / foldr / scan (a
    subroutine or a closure), and quiet twins.  These programs are outside the Lean program language: real query against real
    executions."""
    mod = T.load_source(APPLIED_SRC, "c09a")
    for name in ("mapped", "mapped_quiet", "each", "folded", "folded_right", "scanned_quiet", "nested_map"):
        k = getattr(mod, name)
        try:
            ans = "yes" if RuntimeAnalysis(move).has_quantum_runtime(k) else "no"
        except Exception:  # noqa: BLE001
            ans = "refused"
        acting = None
        for n in (0, 1, 3):
            r = EV.run_with_events(k, spec, (n,))
            if r.events:
                acting = (n, EV.canon_events(r.events)[:200])
                break
        ctx.count("applied_function_kernels")
        case = {"source": APPLIED_SRC[len(L.HDR):], "kernel": name, "answer": ans}
        if ans == "no" and acting is not None:
            ctx.fail(dict(case, args=[acting[0]]),
                     f"has_quantum_runtime answered False, yet {name}({acting[0]}) performs {acting[1]} (through a function handed to "
                     f"an ilist combinator)", key="F27-applied-function-not-followed")
        if name.endswith("quiet") and ans != "no":
            ctx.fail(case, f"no device-visible statement and no dynamic call anywhere in the call graph of {name}, yet the query answered {ans}")


def run(ctx):
    from bloqade.shuttle.analysis.runtime import RuntimeAnalysis
    from bloqade.shuttle.prelude import move
    spec = L.default_move_spec()
    g = L.MoveGen(ctx.rng, {"unknown": 0.0, "assert": 0.0, "recursion": True, "dynamic_call": 0.12, "dead_effect": 0.15, "alias_subs": 0.5, "loop_return": 0.25, "devfn_param": 0.2})
    n_prog = 600 if ctx.tier == "thorough" else 90
    domain = [(n, m, b) for n in range(4) for m in range(3) for b in (True, False)]
    lines, rows = [], []
    kinds = ["fill", "measure", "top_hat_cz", "local_r", "local_rz", "global_r", "global_rz", "play", "play_group"]
    placed = [(k, w) for w in PLACEMENTS for k in (kinds if ctx.tier == "thorough" else ctx.rng.sample(kinds, 2))]
    # (a closure variable rebound in a loop is a dynamically resolved call: the query may refuse the quiet twin)
    placed += [("nothing", w) for w in PLACEMENTS if w not in ("after_dynamic_call", "closure_rebound_in_loop")]
    programs = [placement_program(k, w) for k, w in placed]
    ctx.count("placement_programs", len(programs))
    for pi in range(n_prog + len(programs)):
        if pi < len(programs):
            fns = programs[pi]
        else:
            fns, _ = g.program()
            if ctx.rng.random() < 0.4:
                fns = strip_program(fns)
        src = L.program_source(fns)
        try:
            mod = T.load_source(src, "c09")
        except Exception as e:  # noqa: BLE001
            ctx.count("compile_fail")
            if pi < len(programs):
                raise HarnessFault(f"placement program {placed[pi]} does not compile: {type(e).__name__}: {str(e)[:200]}")
            continue
        try:
            ans = "yes" if RuntimeAnalysis(move).has_quantum_runtime(mod.main) else "no"
        except Exception as e:  # noqa: BLE001
            ans = "refused"
            ctx.count("refused_" + type(e).__name__)
        acting = None
        for a in domain:
            r = EV.run_with_events(mod.main, spec, a)
            if r.events:
                acting = (a, EV.canon_events(r.events)[:300])
                break
        quiet = syntactically_quiet(fns)
        case = {"source": src[len(L.HDR):], "answer": ans}
        if pi < len(programs):
            case["placement"] = list(placed[pi])
        lines.append(f"(LANG (ana {L.sx_program(fns)} main))")
        rows.append((case, ans, acting, quiet))
        ctx.seen(src, deep_effect(fns))
        ctx.count("programs")
        ctx.count("answer_" + ans)
        ctx.count("acting" if acting else "silent")
        ctx.count("syntactically_quiet" if quiet else "has_effect_statement")
    if ctx.counts.get("compile_fail", 0) > 0.3 * n_prog:
        raise HarnessFault("generator degenerate: >30% of generated programs do not compile")
    applied_function_stream(ctx, spec, RuntimeAnalysis, move)
    model = ctx.driver(lines)
    ctx.traces_validated = len(rows)
    for (case, ans, acting, quiet), m in zip(rows, model):
        if m.startswith("bad"):
            raise HarnessFault("driver rejected a program")
        # ---- the property --------------------------------------------------------
        if ans == "no" and acting is not None:
            ctx.fail(dict(case, args=list(acting[0])),
                     f"has_quantum_runtime answered False, yet main{acting[0]} performs {acting[1]}")
        if quiet and ans != "no":
            ctx.fail(case, f"no device-visible statement and no dynamic call anywhere in the call graph, yet the query answered {ans}")
        # ---- correspondence ------------------------------------------------------
        if ans != m:
            if ans == "no" and m == "yes" and acting is None:
                ctx.count("benign_fold_difference")     # a statically dead branch was folded away
            elif ans == "refused" and m == "yes" and case.get("placement", ["", ""])[1] == "closure_rebound_in_loop":
                # the model resolves the call through a loop-carried closure variable to the closures it may hold; the
                # analysis has no constant for a loop-carried value and refuses - the property allows either answer
                ctx.count("benign_loop_carried_callee_refused")
            else:
                ctx.disagree(case, ans, m, "has_quantum_runtime vs model")
    for k in (0, len(rows) // 2):
        if k < len(rows):
            ctx.sample({"source": rows[k][0]["source"][:1200], "answer": rows[k][1], "model": model[k],
                        "acting_run": rows[k][2]})
    c = ctx.counts
    if c.get("answer_no", 0) + c.get("silent", 0) < 5 or c.get("acting", 0) < 10:
        raise HarnessFault(f"generator degenerate: {c}")
