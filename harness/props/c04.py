"""C04 — the executed event sequence does not depend on the compilation route."""
import itertools
import multiprocessing as mp
import re

from ..core import HarnessFault
from .. import lang as L
from .. import tweezer as T
from .. import events as EV

ID = "C04"
MODULES = ["Shuttle.Props.C04"]
RULE = ("seeded random move programs (device calls, parallel groups, gates, fills, measurements, loops, branches, "
        "subroutines, closures) x argument tuples x compilation routes: fold, aggressive, typeinfer, verify on/off, "
        "arch_spec given (run by the plain interpreter) or absent (spec-carrying interpreter), + AggressiveUnroll.fixpoint, "
        "+ move.run_pass applied again, + (spec-at-compile-time routes) the same source compiled again for a second architecture in "
        "the same process; traced kernels that read the spec themselves included; quick = a pairwise-covering set of 12 of the 128 routes per program, thorough = all "
        "128; each compiled kernel is executed by the event-logging interpreter and compared with the Lean reference "
        "evaluator of the source and with the other routes. Separate streams carry the program features behind the known "
        "findings (positional top_hat_cz buffers; callee with a return inside a branch under inlining); programs with filled "
        "grids (vacate / fill / shift chosen by a run-time condition, used by fill, gates and measure) are compared route against "
        "route. "
        "non-trivial = run with >= 2 events; distinct = distinct (program, arguments, route).")
TRUSTED = ["modelled, not verified: all of kirin's passes (fold, inline, unroll, CSE/DCE, type inference, verification) — they are "
           "exercised on every route, not proved to be event preserving; Model/Lang.lean is the meaning of 'evaluating the "
           "source directly' (validated against the real interpreter on every run)"]
ASSUMPTIONS = ["a route that rejects a program at compile time yields no kernel and hence no verdict, except when the rejection "
               "comes from re-applying the pipeline (AggressiveUnroll / run_pass again) to a kernel that had compiled"]

ANSI = re.compile(r"\x1b\[[0-9;]*m")
SPEC = None
SPEC2 = None
OPT_NAMES = ["fold", "aggressive", "typeinfer", "verify", "with_spec", "unroll", "rerun"]


def all_routes():
    return list(itertools.product([True, False], [False, True], [True, False], [True, False], [False, True],
                                  [False, True], [False, True]))


def pairwise_routes(rng, n_extra=2):
    """a small set of routes in which every pair of option values occurs"""
    # the default route, and the default route with the spec given at compile time (each option on its own, so that an
    # effect of one option is not hidden behind another option of the same route)
    base = [(True, False, True, True, False, False, False), (True, False, True, True, True, False, False)]
    cand = all_routes()
    rng.shuffle(cand)
    need = {(i, a, j, b) for i in range(7) for j in range(i + 1, 7) for a in (0, 1) for b in (0, 1)}
    def pairs(r):
        return {(i, int(r[i]), j, int(r[j])) for i in range(7) for j in range(i + 1, 7)}
    chosen = list(base)
    for b_ in base:
        need -= pairs(b_)
    while need:
        best = max(cand, key=lambda r: len(pairs(r) & need))
        chosen.append(best)
        need -= pairs(best)
    chosen += cand[:n_extra]
    return chosen


def worker(task):
    """compile one program on one route and run it on every argument tuple (in a forked process)"""
    src_fns_key, src, route, argsets = task
    from bloqade.shuttle.prelude import move
    from bloqade.shuttle.passes.fold import AggressiveUnroll
    from . import c06 as C06
    fold, aggr, tinf, verify, with_spec, unroll, rerun = route
    spec = SPEC
    C06.SPEC_SLOT = spec
    opts = f"fold={fold}, aggressive={aggr}, typeinfer={tinf}, verify={verify}" + (", arch_spec=_C06.SPEC_SLOT" if with_spec else "")
    s = src.replace("@move\ndef main(", f"@move({opts})\ndef main(").replace(
        "from bloqade.shuttle.prelude import tweezer, move\n",
        "from bloqade.shuttle.prelude import tweezer, move\nfrom harness.props import c06 as _C06\n")
    try:
        mod = T.load_source(s, "c04")
    except Exception as e:  # noqa: BLE001
        return (src_fns_key, route, "compile", f"{type(e).__name__}: {ANSI.sub('', str(e))[:160]}", None)
    mt = mod.main
    try:
        if unroll:
            AggressiveUnroll(move).fixpoint(mt)
        if rerun:
            kw = {"arch_spec": spec} if with_spec else {}
            move.run_pass(mt, fold=fold, aggressive=aggr, typeinfer=tinf, verify=verify, **kw)
    except Exception as e:  # noqa: BLE001
        return (src_fns_key, route, "recompile", f"{type(e).__name__}: {ANSI.sub('', str(e))[:160]}", None)
    def run_all(m, sp):
        outs = []
        for a in argsets:
            r = EV.run_with_events(m, sp, a, plain=with_spec)
            if r.error is not None:
                outs.append("err")
            else:
                try:
                    outs.append(f"ok {L.canon_value(r.result)} {EV.canon_events(r.events)}")
                except Exception as e:  # noqa: BLE001
                    outs.append(f"<uncanonical {type(e).__name__}>")
        return outs
    outs = run_all(mt, spec)
    outs2 = None
    if with_spec and not unroll and not rerun:
        # a second entry point with the same body, sharing the traced kernels and subroutines of the first, compiled
        # afterwards in this process for a second architecture
        C06.SPEC_SLOT2 = SPEC2
        i = src.rindex("@move\ndef main(")
        opts2 = f"fold={fold}, aggressive={aggr}, typeinfer={tinf}, verify={verify}, arch_spec=_C06.SPEC_SLOT2"
        s2 = s + "\n" + src[i:].replace("@move\ndef main(", f"@move({opts2})\ndef main2(")
        try:
            mod2 = T.load_source(s2, "c04b")
            outs2 = run_all(mod2.main2, SPEC2)
        except Exception as e:  # noqa: BLE001
            outs2 = None
    return (src_fns_key, route, "ran", outs2, outs)


FILLED_SRCS = ['''
@move
def main(n: int, m: int, b: bool):
    zone = spec.get_static_trap(zone_id="A")
    target = zone
    if b:
        target = filled.vacate(zone, [(0, 0)])
    init.fill([target])
    gate.top_hat_cz(zone)
    return n
''', '''
@move
def pick(zone: grid.Grid[Any, Any], b: bool):
    t = filled.fill(zone, [(0, 1)])
    if b:
        t = filled.vacate(zone, [(1, 1), (0, 0)])
    return t

@move
def main(n: int, m: int, b: bool):
    zone = grid.from_positions([0.0, 4.0, 8.0], [0.0, 3.0])
    t = pick(zone, b)
    init.fill([t, filled.shift(t, 1.0, 0.5)])
    gate.local_rz(0.5, t)
    c = 0
    for k in range(n):
        c = c + 1
        init.fill([filled.vacate(spec.get_static_trap(zone_id="B"), [(k, 0)])])
    measure.measure((t,))
    return c
''', '''
@move
def main(n: int, m: int, b: bool):
    view = spec.get_static_trap(zone_id="A")[0:2, 0:2]
    zone = view
    if b:
        zone = filled.vacate(view, [(1, 1)])
    gate.local_rz(0.5, zone)
    return n
''']
F24_TEMPLATE = 2     # the view-vs-filled-view program (known finding F24)
FILLED_SRCS += ['''
@move
def main(n: int, m: int, b: bool):
    view = spec.get_static_trap(zone_id="A")[0:2, 0:2]
    f = filled.vacate(view, [(1, 1)])
    gate.local_rz(0.5, view)
    gate.local_rz(0.25, f)
    init.fill([f, view])
    return n
''', '''
@move
def count(zone: grid.Grid[Literal[3], Literal[2]]):
    return len(grid.get_xpos(filled.fill(zone, [(0, 0)]))) + 2 * len(grid.get_ypos(filled.vacate(zone, [(0, 0)])))

@move
def main(n: int, m: int, b: bool):
    k = count(spec.get_static_trap(zone_id="A"))
    c = 0
    for i in range(k):
        c = c + 1
        gate.global_rz(0.5)
    return c
''']


# device calls whose arguments are all constants once the spec is known, given by keyword in an order that is not the
# parameter order: the compile-time route (folding of path.gen) and the run-time routes must bind them alike
FILLED_SRCS += ['''
@tweezer
def tk3(g: grid.Grid[Any, Any], a: float, b: float):
    action.set_loc(g)
    action.turn_on(action.ALL, action.ALL)
    action.move(grid.shift(g, a, 0.0))
    action.move(grid.shift(g, a, b))
    action.turn_off(action.ALL, action.ALL)

@tweezer
def tks(a: float):
    z = spec.get_static_trap(zone_id="A")
    action.set_loc(z)
    action.move(grid.shift(z, a, 0.5))

@tweezer
def tkt(a: float):
    z = spec.get_static_trap(zone_id="traps")[0:2, 0:2]
    action.set_loc(z)
    action.move(grid.shift(z, a, 0.5))

@move
def main(n: int, m: int, b: bool):
    d = schedule.device_fn(tk3, [0, 1], [0])
    z = spec.get_static_trap(zone_id="A")[0:2, 0:1]
    ds = schedule.device_fn(tks, [0], [0])
    ds(a=1.0)
    dt = schedule.device_fn(tkt, [0, 1], [0, 1])
    dt(2.0)
    d(z, b=2.0, a=1.0)
    r = schedule.reverse(d)
    r(b=0.5, g=z, a=3.0)
    with schedule.parallel():
        d(a=1.5, g=z, b=1.0)
        r(z, 2.0, b=0.25)
    return n
''']


# a subroutine with a return inside a branch, called with arguments that become constants once the spec is known
F26_TEMPLATE = len(FILLED_SRCS)
FILLED_SRCS += ['''
@move
def pick(flag: bool, x, y):
    if flag:
        return x
    return y

@move
def main(n: int, m: int, b: bool):
    z = pick(b, spec.get_static_trap(zone_id="A"), spec.get_static_trap(zone_id="B"))
    gate.local_rz(0.5, z[0:1, :])
    return n
''']


# a lookup of a name the spec does not define, in a branch that is never taken: the program runs as written, so it compiles and
# runs on every route
FILLED_SRCS += ['''
@move
def main(n: int, m: int, b: bool):
    dy = 1.0
    if spec.get_int_constant(constant_id="n0") > 5:
        dy = spec.get_float_constant(constant_id="not_defined")
    gate.global_r(dy, 0.5)
    if n > 7:
        gate.local_rz(0.5, spec.get_static_trap(zone_id="no_such_zone"))
    return n
''']


NESTING_SRC = '''
@tweezer
def hop(g: grid.Grid[Any, Any], k: int):
    action.set_loc(g)
    action.move(grid.shift(g, 1.0 * k, 0.5))

@move{opts}
def main(n: int, m: int, b: bool):
    d = schedule.device_fn(hop, [0, 1, 2], [0, 1])
    z = spec.get_static_trap(zone_id="A")
    d(z, 1)
    d(z, 2)
    d(z, 3)
    d(z, 4)
    d(z, 5)
    d(z, 6)
    gate.global_rz(0.5)
    with schedule.parallel():
        d(z, 1)
        with schedule.parallel():
            d(z, 2)
            with schedule.parallel():
                d(z, 3)
                d(z, 4)
            d(z, 5)
        d(z, 6)
    return n
'''


def nesting_stream(ctx):
    """blocks of one kind nested three deep denote ONE group with the calls in source order: its members are the paths the same
    calls play one by one (this needs no reference evaluator: the program carries its own expectation)"""
    from . import c06 as C06
    C06.SPEC_SLOT = SPEC
    hdr = L.HDR + "from harness.props import c06 as _C06\n"
    for opts, plain in (("", False), ("(fold=False)", False), ("(arch_spec=_C06.SPEC_SLOT)", True), ("(aggressive=True)", False)):
        src = hdr + NESTING_SRC.replace("{opts}", opts)
        ctx.count("nesting_runs")
        try:
            r = EV.run_with_events(T.load_source(src, "c04n").main, SPEC, (1, 0, True), plain=plain)
        except Exception as e:  # noqa: BLE001
            ctx.fail({"source": src[len(hdr):], "options": opts}, f"the nesting program does not compile: {type(e).__name__}: {str(e)[:160]}")
            continue
        singles = [canon_obj(e[1]) for e in r.events if e[0] == "play"]
        groups = [[canon_obj(m) for m in e[2]] for e in r.events if e[0] == "play_group"]
        if r.error is not None or len(singles) != 6 or len(groups) != 1 or groups[0] != singles:
            ctx.fail({"source": src[len(hdr):], "options": opts},
                     f"three nested parallel blocks do not play one group of the six calls in source order: error={r.error}, "
                     f"{len(singles)} single plays, groups of sizes {[len(g) for g in groups]}, members in order: "
                     f"{groups[0] == singles if groups else None}")


FILLED_SRCS += ['''
@tweezer
def hopv(g: grid.Grid[Any, Any], dx: float):
    action.set_loc(g)
    action.move(grid.shift(g, dx, 0.0))

@move
def pick_fn(b: bool):
    fa = schedule.device_fn(hopv, [0], [0])
    fb = schedule.device_fn(hopv, [1], [1])
    r = schedule.reverse(fb)
    if b:
        r = fa
    return r

@move
def main(n: int, m: int, b: bool):
    z = spec.get_static_trap(zone_id="A")
    fa = schedule.device_fn(hopv, [0], [0])
    fb = schedule.device_fn(hopv, [1], [1])
    if b:
        f = fa
    else:
        f = fb
    f(z, 1.0)
    g = f
    g(z, 2.0)
    h = pick_fn(b)
    h(z, 3.0)
    for i in range(n):
        g(z, 0.5 * i)
        g = schedule.reverse(g)
    gate.global_rz(0.5)
    return n
''']


def canon_obj(o):
    """route-independent text of an event operand (filled grids included)"""
    if isinstance(o, (list, tuple)):
        return "[" + ", ".join(canon_obj(x) for x in o) + "]"
    if hasattr(o, "positions"):
        vac = getattr(o, "vacancies", None)
        return f"{type(o).__name__}({sorted(o.positions)}{'' if vac is None else ' vac=' + str(sorted(vac))})"
    return repr(o)


def filled_worker(task):
    key, src, route, argsets = task
    from bloqade.shuttle.prelude import move
    from bloqade.shuttle.passes.fold import AggressiveUnroll
    from . import c06 as C06
    fold, aggr, tinf, verify, with_spec, unroll, rerun = route
    C06.SPEC_SLOT = SPEC
    opts = f"fold={fold}, aggressive={aggr}, typeinfer={tinf}, verify={verify}" + (", arch_spec=_C06.SPEC_SLOT" if with_spec else "")
    hdr = "from typing import Literal\n" + L.HDR.replace("from bloqade.shuttle import action, gate, init, measure, schedule, spec",
                        "from bloqade.shuttle import action, filled, gate, init, measure, schedule, spec") + "from harness.props import c06 as _C06\n"
    s = hdr + src.replace("@move\ndef main(", f"@move({opts})\ndef main(")
    try:
        mod = T.load_source(s, "c04f")
        mt = mod.main
        if unroll:
            AggressiveUnroll(move).fixpoint(mt)
        if rerun:
            kw = {"arch_spec": SPEC} if with_spec else {}
            move.run_pass(mt, fold=fold, aggressive=aggr, typeinfer=tinf, verify=verify, **kw)
    except Exception as e:  # noqa: BLE001
        return (key, route, None, f"{type(e).__name__}: {ANSI.sub('', str(e))[:120]}")
    def run_all(m, sp):
        o = []
        for a in argsets:
            r = EV.run_with_events(m, sp, a, plain=with_spec)
            o.append("err" if r.error is not None else "; ".join(f"{e[0]} {canon_obj(list(e[1:]))}" for e in r.events))
        return o
    outs = run_all(mt, SPEC)
    # the same program for a second architecture: a second entry point compiled afterwards in the same module (sharing the
    # traced kernels and subroutines of the first), or - on routes without a compile-time spec - the same kernel run against it
    if with_spec and not unroll and not rerun:
        C06.SPEC_SLOT2 = SPEC2
        i = src.rindex("@move\ndef main(")
        s2 = s + "\n" + src[i:].replace("@move\ndef main(", f"@move({opts.replace('_C06.SPEC_SLOT', '_C06.SPEC_SLOT2')})\ndef main2(")
        try:
            outs += ["second architecture: " + x for x in run_all(T.load_source(s2, "c04g").main2, SPEC2)]
        except Exception as e:  # noqa: BLE001
            outs += [f"second architecture: compile {type(e).__name__}"] * len(argsets)
    elif not with_spec and not unroll and not rerun:
        outs += ["second architecture: " + x for x in run_all(mt, SPEC2)]
    return (key, route, outs, None)


def route_name(r):
    return ",".join(f"{n}={int(v)}" for n, v in zip(OPT_NAMES, r))


def events_of(s):
    """'ok <value> (<events>)' -> the events part"""
    if not s.startswith("ok "):
        return s
    depth, i = 0, len(s) - 1
    # the events list is the last top-level parenthesised group
    for j in range(len(s) - 1, -1, -1):
        if s[j] == ")":
            depth += 1
        elif s[j] == "(":
            depth -= 1
            if depth == 0:
                return s[j:]
    return s


def cz_defaults(s):
    """replace the buffers of every cz event by the defaults 3 3 (what F4 does to positional buffers)"""
    return re.sub(r"\(cz (\(g [^)]*\) [^)]*\) [^ ]+ [^ ]+\)|\(g \([^)]*\) \([^)]*\) [^ ]+ [^ )]+\)) [^ ]+ [^ )]+\)",
                  lambda m: "(cz " + m.group(1) + " 3 3)", s)


def run(ctx):
    global SPEC, SPEC2
    SPEC = L.default_move_spec()
    SPEC2 = L.second_move_spec()
    table = L.sx_spec_table(SPEC)
    table2 = L.sx_spec_table(SPEC2)
    thorough = ctx.tier == "thorough"
    streams = [
        ("main", {"unknown": 0.0, "assert": 0.0, "recursion": False, "early_return": False, "devfn_param": 0.2, "alias_subs": 0.2,
                  "wrong_kind": 0.05, "twin_devs": 0.4, "kernel_lookup": 0.5, "grid_literals": 0.25, "kernel3": 0.5},
         40 if thorough else 24),
        ("F4", {"unknown": 0.0, "assert": 0.0, "recursion": False, "early_return": False, "cz_positional": 1.0, "subs": False,
                "closures": False}, 8 if thorough else 3),
        ("F15", {"unknown": 0.0, "assert": 0.0, "recursion": True, "early_return": True, "closures": False}, 16 if thorough else 8),
    ]
    tasks, progs = [], {}
    for stream, feat, n in streams:
        g = L.MoveGen(ctx.rng, feat)
        made = 0
        tries = 0
        while made < n and tries < 10 * n:
            tries += 1
            fns, argsets = g.program()
            r = repr(fns)
            if stream == "F4" and "positional" not in r:
                continue
            if stream == "F15" and "'ret'" not in repr([f["body"][:-1] for f in fns if not f["tweezer"] and f["name"] != "main"]):
                continue
            src = L.program_source(fns)
            key = len(progs)
            routes = all_routes() if thorough else pairwise_routes(ctx.rng)
            progs[key] = {"stream": stream, "fns": fns, "src": src, "args": argsets[:2], "routes": routes, "res": {}}
            for rt in routes:
                tasks.append((key, src, rt, argsets[:2]))
            made += 1
    ctx.count("programs", len(progs))
    ctx.count("route_runs", len(tasks))
    with mp.get_context("fork").Pool(min(16, mp.cpu_count())) as pool:
        for key, route, kind, msg, outs in pool.imap_unordered(worker, tasks, chunksize=2):
            progs[key]["res"][route] = (kind, msg, outs)
    # ---- reference: the source evaluated directly ------------------------------------------
    lines = []
    for key, p in progs.items():
        sxp = L.sx_program(p["fns"])
        for a in p["args"]:
            lines.append(f"(LANG (run spec {table} {sxp} main ({' '.join(L.sx_val(x) for x in a)})))")
        for a in p["args"]:
            lines.append(f"(LANG (run spec {table2} {sxp} main ({' '.join(L.sx_val(x) for x in a)})))")
    model = iter(ctx.driver(lines))
    default_route = (True, False, True, True, False, False, False)
    for key, p in progs.items():
        refs = [next(model) for _ in p["args"]]
        refs2 = [next(model) for _ in p["args"]]
        if any(r.startswith("bad") or r == "fuel" for r in refs + refs2):
            raise HarnessFault("driver could not run a program")
        stream = p["stream"]
        base = p["res"].get(default_route)
        for route, (kind, msg, outs) in sorted(p["res"].items()):
            case = {"stream": stream, "source": p["src"][len(L.HDR):], "route": route_name(route)}
            if kind == "compile":
                ctx.count("route_rejected_at_compile")
                ctx.count("rejected_" + (msg or "").split(":")[0])
                if base is not None and base[0] == "ran":
                    # the default route accepts the program, this route rejects it
                    ctx.count("rejected_although_default_route_compiles")
                    if ctx.counts["rejected_although_default_route_compiles"] <= 3:
                        ctx.note(f"route [{route_name(route)}] rejects a program the default route compiles: {msg}")
                continue
            if kind == "recompile":
                # the same options compiled; re-applying the pipeline / unrolling raised
                ctx.count("reapply_raised")
                ctx.fail(dict(case, message=msg), f"re-applying the pipeline (unroll={route[5]}, rerun={route[6]}) to a compiled kernel raises: {msg}",
                         key="F16-reapply-raises" if stream != "main" or "SSAValue" in (msg or "") else None)
                continue
            if isinstance(msg, list) and stream == "main":
                # second architecture, compiled after the first in the same process
                for a, ref, got in zip(p["args"], refs2, msg):
                    ctx.count("second_spec_runs")
                    if ref.startswith("ok") and events_of(got) != events_of(ref):
                        ctx.fail(dict(case, args=list(a), spec="second spec, compiled after the first in the same process"),
                                 f"events on route [{route_name(route)}] under a second architecture differ from evaluating the "
                                 f"source: got={events_of(got)[:300]} source={events_of(ref)[:300]}")
            for a, ref, got in zip(p["args"], refs, outs):
                ctx.seen((key, a, route), got.count("(") > 4)
                ctx.count("runs")
                ctx.traces_validated += 1
                if not ref.startswith("ok"):
                    ctx.count("source_raises")
                    continue            # the property is about inputs on which the program runs without error
                c2 = dict(case, args=list(a))
                k = None
                if events_of(got) != events_of(ref) or got != ref:
                    if stream == "F4" and events_of(got) == cz_defaults(events_of(ref)):
                        k = "F4-positional-cz-buffers"
                    elif stream == "F15" and (route[1] or route[5]):
                        # inlining (aggressive / AggressiveUnroll) of a callee with a return inside a branch
                        plain_ok = all(events_of(o[2][i]) == events_of(refs[i]) for r_, o in p["res"].items()
                                       if o[0] == "ran" and not r_[1] and not r_[5]
                                       for i in range(len(refs)) if refs[i].startswith("ok"))
                        if plain_ok:
                            k = "F15-inlined-early-return"
                if got != ref:
                    ctx.disagree(c2, got[:400], ref[:400], k or stream)
                if events_of(got) != events_of(ref):
                    ctx.fail(c2, f"events on route [{route_name(route)}] differ from evaluating the source: got={events_of(got)[:300]} "
                                 f"source={events_of(ref)[:300]}", key=k)
    # ---- programs with filled grids (not expressible in the Lean reference language): every route against the plain one
    ftasks = [(i, src, rt, [(2, 0, True), (1, 0, False), (0, 1, True)]) for i, src in enumerate(FILLED_SRCS)
              for rt in (all_routes() if thorough else pairwise_routes(ctx.rng))]
    fres = {}
    with mp.get_context("fork").Pool(min(16, mp.cpu_count())) as pool:
        for key, route, outs, err in pool.imap_unordered(filled_worker, ftasks, chunksize=2):
            fres[(key, route)] = (outs, err)
    plain_route = (False, False, True, True, False, False, False)
    for i, src in enumerate(FILLED_SRCS):
        ref = fres.get((i, plain_route)) or filled_worker((i, src, plain_route, [(2, 0, True), (1, 0, False), (0, 1, True)]))[2:]
        if ref[0] is None or any(o == "err" for o in ref[0]):
            # the fixed programs are valid programs (each runs on the pinned tree): one that does not even run on the plain
            # route is a failure of the implementation, not of the harness
            ctx.fail({"stream": "fixed-source", "source": src, "route": route_name(plain_route)},
                     f"fixed-source program {i} does not run on the plain route (fold off, spec at run time): {str(ref)[:200]}")
            continue
        for (k, route), (outs, err) in sorted(fres.items()):
            if k != i:
                continue
            ctx.count("filled_route_runs")
            case = {"stream": "filled", "source": src, "route": route_name(route)}
            if outs is None:
                # the fixed programs are valid (each compiles on every route of the pinned tree)
                ctx.count("filled_route_rejected")
                ctx.fail(case, f"fixed-source program {i} does not compile on route [{route_name(route)}]: {err}")
                continue
            A3 = [(2, 0, True), (1, 0, False), (0, 1, True)]
            for a, got, want in zip(A3 + A3, outs, ref[0]):     # (entries 4-6: the second architecture)
                if got != want:
                    k = None
                    if i == F24_TEMPLATE and a[2] is False and "vac=" in got and "vac=" not in want:
                        k = "F24-view-equals-filled-view"
                    elif i == F26_TEMPLATE and a[2] is True and route[4]:
                        # the spec is known at compile time: kirin's constant propagation evaluates the call of `pick` to the
                        # value of its LAST return, ignoring the return inside the branch
                        k = "F26-constprop-ignores-early-return"
                    elif i == F26_TEMPLATE and a[2] is True and (route[1] or route[5]):
                        k = "F15-inlined-early-return"
                    ctx.fail(dict(case, args=list(a)), f"fixed-source program (compared route against route): events on route [{route_name(route)}] differ from the "
                                                       f"unfolded run-time-spec route: got={got[:300]} want={want[:300]}", key=k)
    nesting_stream(ctx)
    for key in list(progs)[:2]:
        p = progs[key]
        ctx.sample({"stream": p["stream"], "source": p["src"][len(L.HDR):][:900], "args": [list(a) for a in p["args"]],
                    "routes": len(p["routes"])})
    if ctx.counts.get("runs", 0) < 50 or ctx.counts.get("route_rejected_at_compile", 0) > 0.3 * len(tasks):
        raise HarnessFault(f"generator degenerate: {ctx.counts}")
