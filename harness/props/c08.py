"""C08 — library moves are physically executable and end where documented."""
import itertools
import warnings

from ..core import HarnessFault
from ..sexp import frac, sx
from .. import events as EV
from .. import tweezer as T

ID = "C08"
MODULES = ["Shuttle.Props.C08"]
RULE = ("every library move executed by the real interpreter with the event logger on the layout its module provides, the "
        "played paths replayed in the Lean AOD simulator (Model/AOD.lean) on an atom occupancy compatible with the move: "
        "single-zone CZ move (both copies: stdlib.layouts.single_col_zone.cz_move and the deprecated stdlib.moves."
        "default_move_cz) and two-column rearrange over all layout sizes <= 3x3 (thorough 4x4) and 2-3 spacings with every "
        "pair of sorted equal-length index lists (sampled when more than the budget) plus each invalid class (unsorted, "
        "duplicated, mismatched lengths, out of range, negative, empty); move_by_waypoints over waypoint lists of length 0-4 of "
        "equal / unequal shapes and all pick/drop flags; Gemini vertical_shift over all offsets -4..4, columns -1..2, every "
        "subset of rows and invalid row lists; gr_zero_to_one over every subset of rows and invalid row lists; rearrange / cz_move "
        "with the same index lists on a series of different layouts back to back. Valid inputs: "
        "must not be rejected, simulator must accept and the final occupancy must be the documented one. Invalid inputs: "
        "rejected, or accepted by the simulator on the occupancy that has exactly the picked sites occupied. "
        "non-trivial = call that moves at least one atom; distinct = distinct (move, layout, arguments, occupancy).")
TRUSTED = ["modelled, not verified: the physics (Model/AOD.lean is the specification of 'physically executable': crossed-AOD tone "
           "semantics as in the repository's renderer, no collisions in flight), kirin's interpreter executing the library kernels"]
ASSUMPTIONS = ["coordinates are dyadic rationals for which binary64 arithmetic is exact",
               "occupancy compatible with the move = documented source sites occupied, destination sites vacant unless they are "
               "source sites, further atoms only on sites the move never switches at (CZ targets included)"]
CASE_REPLAY = False


def site_list(g):
    return [(frac(x), frac(y)) for x, y in g.positions]


def sx_sites(ss):
    return "(" + " ".join(f"({sx(a)} {sx(b)})" for a, b in ss) + ")"


def paths_of(events):
    out = []
    for e in events:
        if e[0] == "play":
            out.append(e[1])
        elif e[0] == "play_group":
            out.extend(e[2])
    return out


def is_sorted_strict(l):
    return all(a < b for a, b in zip(l, l[1:]))


def in_range(l, n):
    return all(0 <= i < n for i in l)


def view_sites(zone, xs, ys):
    """sites of zone[xs x ys] by coordinates (valid, in-range indices only)"""
    xp, yp = zone.x_positions, zone.y_positions
    return [(frac(xp[i]), frac(yp[j])) for i in xs for j in ys]


def sorted_lists(n, maxlen):
    out = []
    for k in range(1, min(n, maxlen) + 1):
        out += [list(c) for c in itertools.combinations(range(n), k)]
    return out


def invalid_lists(rng, n):
    """index lists violating the documented preconditions, by class"""
    out = {"unsorted": [1, 0] if n > 1 else [0, 0], "duplicated": [0, 0], "out_of_range": [n], "negative": [-1], "empty": []}
    if n > 2:
        out["unsorted3"] = [0, 2, 1]
        out["out_of_range2"] = [0, n + 1]
    return out


class Calls:
    def __init__(self, ctx):
        self.ctx = ctx
        self.lines = []
        self.rows = []
        self.sites_cache = {}
        self.model_rows = []

    def layout_sites(self, key, spec):
        if key not in self.sites_cache:
            ss = []
            seen = set()
            for z in spec.layout.static_traps.values():
                for s in site_list(z):
                    if s not in seen:
                        seen.add(s)
                        ss.append(s)
            self.sites_cache[key] = (ss, sx_sites(ss))
        return self.sites_cache[key]

    def call(self, name, mt, spec_key, spec, args, valid, src, dst, extras=(), holding_ok=False, model=None, may_reject=False, check_dest=True):
        """run the move; queue the simulator request. src/dst: documented source / destination sites (valid calls)"""
        ctx = self.ctx
        case = {"move": name, "layout": list(spec_key), "args": repr(args), "documented_preconditions_hold": valid}
        r = EV.run_with_events(mt, spec, args)
        ctx.count("calls")
        ctx.count("calls_" + name)
        if model is not None:
            try:
                impl = "err" if r.error is not None else "ok (" + " ".join(EV.canon_pathobj(p) for p in paths_of(r.events)) + ")"
            except Exception as e:  # noqa: BLE001
                impl = f"<uncanonical {type(e).__name__}>"
            self.model_rows.append((case, f"(C08 (model {model}))", impl))
        if r.error is not None:
            ctx.count("rejected")
            ctx.seen((name, spec_key, repr(args)), False)
            if valid and not may_reject:
                ctx.fail(dict(case, error=r.error), f"{name}{args!r} satisfies the documented preconditions but is rejected: {r.error[:160]}",
                         key=None)
            return
        paths = paths_of(r.events)
        sites, sites_sx = self.layout_sites(spec_key, spec)
        try:
            ptxt = "(" + " ".join(EV.canon_pathobj(p) for p in paths) + ")"
        except Exception as e:  # noqa: BLE001
            ctx.fail(case, f"{name}{args!r} produced a path that cannot be canonicalised: {type(e).__name__}: {e}")
            return
        if valid:
            occ = list(dict.fromkeys(list(src) + [e for e in extras if e not in src and e not in dst]))
            want_occ = sorted(set(dst) | {e for e in occ if e not in src}) if check_dest else None
        else:
            occ, want_occ = None, None      # the occupancy is taken from the sites the paths pick at (see the driver request)
        self.lines.append((case, paths, occ, want_occ, holding_ok, sites_sx, ptxt))
        ctx.seen((name, spec_key, repr(args), repr(occ)), bool(paths))


def call_seq(C, name, steps, spec_key, spec, src, dst):
    """one transport split over several calls on one layout: all played paths are replayed in ONE simulator session"""
    ctx = C.ctx
    case = {"move": name, "layout": list(spec_key), "args": " ; ".join(repr(a) for _, a in steps), "documented_preconditions_hold": True}
    paths = []
    for mt, args in steps:
        r = EV.run_with_events(mt, spec, args)
        ctx.count("calls")
        if r.error is not None:
            ctx.fail(dict(case, error=r.error), f"{name}: a call of a split transport is rejected: {r.error[:160]}")
            return
        paths += paths_of(r.events)
    ctx.count("split_transports")
    sites, sites_sx = C.layout_sites(spec_key, spec)
    ptxt = "(" + " ".join(EV.canon_pathobj(p) for p in paths) + ")"
    occ = list(dict.fromkeys(src))
    C.lines.append((case, paths, occ, sorted(set(dst)), False, sites_sx, ptxt))
    ctx.seen((name, spec_key, case["args"]), True)


def picked_sites(paths):
    """lenient occupancy for calls outside the documented preconditions: the sites under the spots that the first switch-on of
    the run lights (computed with the renderer's crossed-tone rule)"""
    from bloqade.shuttle.codegen import taskgen
    occ = []
    X, Y = set(), set()
    for p in paths:
        cur = None
        for a in p.path:
            if isinstance(a, taskgen.WayPointsAction):
                cur = a.way_points[-1]
            elif isinstance(a, taskgen.TurnOnAction) and cur is not None:
                import numpy as np
                xt, yt = np.array(p.x_tones), np.array(p.y_tones)
                try:
                    X2 = X | set(int(t) for t in np.atleast_1d(xt[a.x_tone_indices]))
                    Y2 = Y | set(int(t) for t in np.atleast_1d(yt[a.y_tone_indices]))
                except Exception:  # noqa: BLE001
                    return occ
                for i, tx in enumerate(p.x_tones):
                    for j, ty in enumerate(p.y_tones):
                        if tx in X2 and ty in Y2 and not (tx in X and ty in Y):
                            if i < len(cur.x_positions) and j < len(cur.y_positions):
                                s = (frac(cur.x_positions[i]), frac(cur.y_positions[j]))
                                if s not in occ:
                                    occ.append(s)
                X, Y = X2, Y2
            elif isinstance(a, taskgen.TurnOffAction):
                return occ          # only the picks before the first release define the lenient occupancy
    return occ


def cz_model(zone, a):
    return f"cz {T.canon_grid(zone)} {' '.join(sx(list(l)) for l in a)} 2 2"


def re_model(zone, a):
    return f"rearrange {T.canon_grid(zone)} {' '.join(sx(list(l)) for l in a)}"


def wp_model(wps, pick, drop):
    return f"wp ({' '.join(T.canon_grid(g) for g in wps)}) {sx(pick)} {sx(drop)}"


OPT_PROBE = '''
import sys
from bloqade.geometry.dialects.grid import Grid
from bloqade.shuttle.arch import ArchSpec
from bloqade.shuttle.stdlib.waypoints import move_by_waypoints
from kirin.dialects import ilist
from harness import events as EV
assert not __debug__ or sys.flags.optimize == 0
a, b = Grid.from_positions([0.0, 1.0], [0.0]), Grid.from_positions([0.0, 1.0], [2.0])
wide = Grid.from_positions([0.0, 1.0], [0.0, 1.0])
for name, wps in (("same shapes", [a, b, a]), ("last waypoint of another shape", [a, b, wide]), ("middle waypoint of another shape", [a, wide, b])):
    for pick, drop in ((True, True), (False, True), (True, False)):
        r = EV.run_with_events(move_by_waypoints, ArchSpec(), (ilist.IList(wps), pick, drop))
        print(name, pick, drop, "REJECTED" if r.error is not None else "ACCEPTED", flush=True)
'''


def optimised_interpreter_probe(ctx):
    """the rejections do not depend on Python's `assert`: under `python -O` a waypoint list of mixed shapes is still rejected
    and a well-formed one still accepted"""
    import os
    import subprocess
    import sys
    from ..core import REPO, VERIF
    env = dict(os.environ, PYTHONPATH=f"{REPO}/src:{VERIF}")
    outs = {}
    for flag in ("", "-O"):
        p = subprocess.run([sys.executable] + ([flag] if flag else []) + ["-c", OPT_PROBE], capture_output=True, text=True, env=env, timeout=600)
        outs[flag] = p.stdout.strip().split("\n") if p.returncode == 0 else [f"probe failed: {p.stderr[-300:]}"]
        ctx.count("optimised_interpreter_probe_lines", len(outs[flag]))
    for line in outs["-O"]:
        if ("another shape" in line and "REJECTED" not in line) or ("same shapes" in line and "ACCEPTED" not in line) or line.startswith("probe failed"):
            ctx.fail({"move": "move_by_waypoints", "interpreter": "python -O", "probe": OPT_PROBE},
                     f"under python -O: {line[:200]} (a waypoint list of mixed shapes must be rejected, a well-formed one accepted)")
    if outs[""] != outs["-O"]:
        ctx.fail({"move": "move_by_waypoints", "interpreter": "python -O", "probe": OPT_PROBE},
                 f"python and python -O disagree on which waypoint moves are rejected: {outs['']} vs {outs['-O']}")


SPEC_SLOT = None
USER_SRC = '''from kirin.dialects import ilist
from bloqade.shuttle.prelude import move
from bloqade.shuttle.stdlib.layouts.single_col_zone import cz_move
from harness.props import c08 as _C08

@move{opts}
def user():
    cz_move(ilist.IList({cx}), ilist.IList({cy}), ilist.IList({qx}), ilist.IList({qy}))
'''


def user_program_routes(C, spec, spec_key, lists, want_paths):
    """the same library move called with literal arguments from a user kernel compiled with other options (spec at compile
    time, aggressive inlining, both): the paths it plays are the ones the library move plays when called directly"""
    global SPEC_SLOT
    SPEC_SLOT = spec
    cx, cy, qx, qy = lists
    for opts, plain in (("(arch_spec=_C08.SPEC_SLOT)", True), ("(aggressive=True)", False), ("(arch_spec=_C08.SPEC_SLOT, aggressive=True)", True)):
        src = USER_SRC.format(opts=opts, cx=cx, cy=cy, qx=qx, qy=qy)
        C.ctx.count("user_program_route_runs")
        try:
            r = EV.run_with_events(T.load_source(src, "c08u").user, spec, (), plain=plain)
            got = "err" if r.error is not None else [EV.canon_pathobj(p) for p in paths_of(r.events)]
        except Exception as e:  # noqa: BLE001
            got = f"compile {type(e).__name__}"
        if got != want_paths:
            C.ctx.fail({"move": "cz_move", "layout": list(spec_key), "args": repr(lists), "user_kernel_options": opts},
                       f"cz_move{tuple(lists)!r} called from a user kernel compiled with @move{opts} plays other paths than the "
                       f"move called directly: {str(got)[:300]} vs {str(want_paths)[:300]}")


def gen_cz(C, rng, thorough):
    from bloqade.shuttle.stdlib.layouts import single_col_zone
    from kirin.dialects import ilist
    with warnings.catch_warnings():
        warnings.simplefilter("ignore")
        from bloqade.shuttle.stdlib import moves as old_moves
    N = 4 if thorough else 3
    budget = 60 if thorough else 14
    for nx, ny, sp in itertools.product(range(1, N + 1), range(1, N + 1), [10.0, 4.0] + ([2.5] if thorough else [])):
        spec = single_col_zone.get_spec(nx, ny, sp)
        key = ("single", nx, ny, sp)
        zone = spec.layout.static_traps["traps"]
        xs, ys = sorted_lists(nx, 3), sorted_lists(ny, 3)
        combos = [(cx, cy, qx, qy) for cx in xs for qx in xs if len(cx) == len(qx) for cy in ys for qy in ys if len(cy) == len(qy)]
        rng.shuffle(combos)
        for cx, cy, qx, qy in combos[:budget]:
            src = view_sites(zone, cx, cy)
            tgt = view_sites(zone, qx, qy)
            others = [s for s in site_list(zone) if s not in src and s not in tgt and rng.random() < 0.3]
            for nm, mt in (("cz_move", single_col_zone.cz_move), ("moves.default_move_cz", old_moves.default_move_cz)):
                if nm != "cz_move" and rng.random() < 0.6:
                    continue
                C.call(nm, mt, key, spec, tuple(ilist.IList(l) for l in (cx, cy, qx, qy)), True, src, src, extras=tgt + others,
                       model=cz_model(zone, (cx, cy, qx, qy)))
            if (cx, cy, qx, qy) == combos[0] and (nx, ny) in ((2, 2), (3, 1), (1, 3)):
                direct = EV.run_with_events(single_col_zone.cz_move, spec, tuple(ilist.IList(l) for l in (cx, cy, qx, qy)))
                if direct.error is None:
                    user_program_routes(C, spec, key, (cx, cy, qx, qy), [EV.canon_pathobj(p) for p in paths_of(direct.events)])
        # invalid classes, one list at a time
        good_x, good_y = [0], [0]
        for cls, bad in invalid_lists(rng, nx).items():
            for pos in range(4):
                a = [good_x, good_y, good_x, good_y]
                a[pos] = bad if pos in (0, 2) else invalid_lists(rng, ny).get(cls, bad)
                C.call("cz_move", single_col_zone.cz_move, key, spec, tuple(ilist.IList(l) for l in a), False, None, None,
                       model=cz_model(zone, a))
                C.ctx.count("invalid_" + cls)
        # mismatched lengths
        if nx > 1:
            C.call("cz_move", single_col_zone.cz_move, key, spec, tuple(ilist.IList(l) for l in ([0, 1], [0], [0], [0])), False, None, None,
                   model=cz_model(zone, ([0, 1], [0], [0], [0])))
            C.ctx.count("invalid_mismatched")


def gen_rearrange(C, rng, thorough):
    from bloqade.shuttle.stdlib.layouts import two_col_zone
    from kirin.dialects import ilist
    N = 3 if thorough else 2
    budget = 80 if thorough else 30
    for nx, ny, (sp, gs) in itertools.product(range(1, N + 1), range(1, N + 2), [(10.0, 2.0), (8.0, 4.0)]):
        spec = two_col_zone.get_spec(nx, ny, sp, gs)
        key = ("twocol", nx, ny, sp, gs)
        zone = spec.layout.static_traps["traps"]
        xs, ys = sorted_lists(2 * nx, 3), sorted_lists(ny, 3)
        combos = [(sx_, sy, dx, dy) for sx_ in xs for dx in xs if len(sx_) == len(dx) for sy in ys for dy in ys if len(sy) == len(dy)]
        rng.shuffle(combos)
        for a in combos[:budget]:
            src = view_sites(zone, a[0], a[1])
            dst = view_sites(zone, a[2], a[3])
            others = [s for s in site_list(zone) if s not in src and s not in dst and rng.random() < 0.3]
            C.call("rearrange", two_col_zone.rearrange, key, spec, tuple(ilist.IList(l) for l in a), True, src, dst, extras=others,
                   model=re_model(zone, a))
        for cls, bad in invalid_lists(rng, 2 * nx).items():
            for pos in range(4):
                a = [[0], [0], [0], [0]]
                a[pos] = bad if pos in (0, 2) else invalid_lists(rng, ny).get(cls, bad)
                C.call("rearrange", two_col_zone.rearrange, key, spec, tuple(ilist.IList(l) for l in a), False, None, None,
                       model=re_model(zone, a))
                C.ctx.count("invalid_" + cls)
        C.call("rearrange", two_col_zone.rearrange, key, spec, tuple(ilist.IList(l) for l in ([0, 1], [0], [0], [0])), False, None, None,
               model=re_model(zone, ([0, 1], [0], [0], [0])))
        C.ctx.count("invalid_mismatched")


def gen_same_args_across_layouts(C, rng, thorough):
    """the same index lists on a series of different layouts, back to back in one process (a trace remembered from the
    previous layout shows up as picks and releases in the wrong places)"""
    from bloqade.shuttle.stdlib.layouts import single_col_zone, two_col_zone
    from kirin.dialects import ilist
    series = [(2, 3, 10.0, 2.0), (2, 3, 12.0, 2.0), (3, 3, 10.0, 4.0), (2, 3, 10.0, 2.0), (2, 4, 6.0, 2.0)]
    for a in ([[0, 2], [0, 1], [1, 3], [1, 2]], [[1], [0, 2], [2], [0, 1]], [[0, 1, 3], [1], [0, 2, 3], [2]]):
        for nx, ny, sp, gs in series:
            spec = two_col_zone.get_spec(nx, ny, sp, gs)
            zone = spec.layout.static_traps["traps"]
            src, dst = view_sites(zone, a[0], a[1]), view_sites(zone, a[2], a[3])
            C.call("rearrange", two_col_zone.rearrange, ("twocol", nx, ny, sp, gs), spec, tuple(ilist.IList(l) for l in a), True,
                   src, dst, model=re_model(zone, a))
            C.ctx.count("same_args_next_layout")
    for a in ([[0], [0, 1], [1], [1, 2]], [[0, 2], [1], [1, 2], [0]]):
        for nx, ny, sp in [(3, 3, 10.0), (3, 3, 4.0), (4, 3, 10.0), (3, 4, 6.0)]:
            spec = single_col_zone.get_spec(nx, ny, sp)
            zone = spec.layout.static_traps["traps"]
            src = view_sites(zone, a[0], a[1])
            C.call("cz_move", single_col_zone.cz_move, ("single", nx, ny, sp), spec, tuple(ilist.IList(l) for l in a), True,
                   src, src, extras=view_sites(zone, a[2], a[3]), model=cz_model(zone, a))
            C.ctx.count("same_args_next_layout")


def gen_waypoints(C, rng, thorough):
    from bloqade.shuttle.stdlib.layouts import single_col_zone
    from bloqade.shuttle.stdlib import waypoints
    from kirin.dialects import ilist
    spec = single_col_zone.get_spec(4, 3, 10.0)
    key = ("single", 4, 3, 10.0)
    zone = spec.layout.static_traps["traps"]
    n = 60 if thorough else 20
    for _ in range(n):
        kx, ky = rng.randrange(1, 3), rng.randrange(1, 3)
        def sub():
            xs = sorted(rng.sample(range(4), kx))
            ys = sorted(rng.sample(range(3), ky))
            return zone.get_view(xs, ys), xs, ys
        first, fx, fy = sub()
        last, lx, ly = sub()
        mids = [first.shift(rng.choice([0.0, 3.0]), rng.choice([3.0, -3.0])) for _ in range(rng.randrange(0, 3))]
        for npts in sorted({1, 2 + len(mids)}):
            wps = [first] if npts == 1 else [first] + mids + [last]
            for pick, drop in itertools.product([True, False], repeat=2):
                src = view_sites(zone, fx, fy)
                dst = src if npts == 1 else view_sites(zone, lx, ly)
                valid = True
                if pick and drop:
                    C.call("move_by_waypoints", waypoints.move_by_waypoints, key, spec, (ilist.IList(wps), pick, drop), valid, src, dst,
                           model=wp_model(wps, pick, drop))
                elif pick:
                    C.call("move_by_waypoints", waypoints.move_by_waypoints, key, spec, (ilist.IList(wps), pick, drop), valid, src, [],
                           holding_ok=True, model=wp_model(wps, pick, drop))
                else:
                    # nothing is picked: nothing moves, whatever the occupancy
                    C.call("move_by_waypoints", waypoints.move_by_waypoints, key, spec, (ilist.IList(wps), pick, drop), valid, [], [],
                           extras=src, model=wp_model(wps, pick, drop))
        # the same transport split over several calls (pick only / carry / drop only), replayed in one simulator session
        wps = [first] + mids + [last]
        if len(wps) >= 2:
            src, dst = view_sites(zone, fx, fy), view_sites(zone, lx, ly)
            mv = waypoints.move_by_waypoints
            j = rng.randrange(0, len(wps))
            call_seq(C, "move_by_waypoints (split in two)", [(mv, (ilist.IList(wps[:j + 1]), True, False)),
                                                              (mv, (ilist.IList(wps[j:]), False, True))], key, spec, src, dst)
            call_seq(C, "move_by_waypoints (pick / carry / drop)", [(mv, (ilist.IList([first]), True, False)),
                                                                     (mv, (ilist.IList(wps), False, False)),
                                                                     (mv, (ilist.IList([last]), False, True))], key, spec, src, dst)
    # empty list, unequal shapes
    C.call("move_by_waypoints", waypoints.move_by_waypoints, key, spec, (ilist.IList([]), True, True), True, [], [],
           model=wp_model([], True, True))
    a, b = zone.get_view([0, 1], [0]), zone.get_view([2], [1])
    C.call("move_by_waypoints", waypoints.move_by_waypoints, key, spec, (ilist.IList([a, b]), True, True), False, None, None,
           model=wp_model([a, b], True, True))
    C.ctx.count("invalid_unequal_shapes")


def gen_gemini(C, rng, thorough):
    from bloqade.shuttle.stdlib.layouts.gemini import logical
    from kirin.dialects import ilist
    spec = logical.get_spec()
    key = ("gemini-logical",)
    GL, GR = spec.layout.static_traps["GL_blocks"], spec.layout.static_traps["GR_blocks"]
    rows = spec.int_constants["logical_rows"]
    cs = spec.int_constants["code_size"]
    subsets = sorted_lists(rows, rows)
    G = (f"{T.canon_grid(GL)} {T.canon_grid(GR)} {rows} {cs} {sx(frac(spec.float_constants['row_separation']))} "
         f"{sx(frac(spec.float_constants['col_separation']))} {sx(frac(spec.float_constants['gate_spacing']))}")
    for off in range(-(rows - 1), rows):
        for col in (0, 1):
            subs = subsets if thorough else rng.sample(subsets, 6)
            for rs in subs:
                ok_rows = all(0 <= r + off < rows for r in rs)
                # offset >= 0 is the documented precondition; a negative offset may be rejected, but if it is accepted the
                # move has to be executable on an occupancy in which every other site of the destination block is occupied
                valid = ok_rows
                cols = range(col * cs, (col + 1) * cs)
                src = view_sites(GL, cols, rs) if valid else None
                dst = view_sites(GR, cols, [r + off for r in rs]) if valid else None
                dense = [s_ for s_ in view_sites(GR, cols, range(rows)) if dst is not None and s_ not in dst] if rng.random() < 0.5 else []
                C.call("vertical_shift", logical.vertical_shift, key, spec, (off, col, ilist.IList(rs)), valid, src, dst, extras=dense,
                       model=f"vshift {G} {off} {col} {sx(list(rs))}", may_reject=off < 0, check_dest=off >= 0)
    for col in (-1, 2, 3):
        C.call("vertical_shift", logical.vertical_shift, key, spec, (1, col, ilist.IList([0])), False, None, None,
               model=f"vshift {G} 1 {col} (0)")
        C.ctx.count("invalid_column")
    for cls, bad in invalid_lists(rng, rows).items():
        C.call("vertical_shift", logical.vertical_shift, key, spec, (0, 0, ilist.IList(bad)), False, None, None,
               model=f"vshift {G} 0 0 {sx(list(bad))}")
        C.call("gr_zero_to_one", logical.gr_zero_to_one, key, spec, (ilist.IList(bad),), False, None, None,
               model=f"gr01 {G} {sx(list(bad))}")
        C.ctx.count("invalid_" + cls)
    for rs in subsets:
        src = view_sites(GR, range(0, cs), rs)
        dst = view_sites(GR, range(cs, 2 * cs), rs)
        C.call("gr_zero_to_one", logical.gr_zero_to_one, key, spec, (ilist.IList(rs),), True, src, dst,
               model=f"gr01 {G} {sx(list(rs))}")


def run(ctx):
    rng = ctx.rng
    thorough = ctx.tier == "thorough"
    C = Calls(ctx)
    gen_cz(C, rng, thorough)
    gen_rearrange(C, rng, thorough)
    gen_same_args_across_layouts(C, rng, thorough)
    gen_waypoints(C, rng, thorough)
    gen_gemini(C, rng, thorough)
    if ctx.replay_case is None:
        optimised_interpreter_probe(ctx)
    reqs = []
    for case, paths, occ, want, holding_ok, sites_sx, ptxt in C.lines:
        if occ is None:
            occ = picked_sites(paths)
        reqs.append(f"(C08 (exec {sites_sx} {sx_sites(occ)} {ptxt}))")
    model = ctx.driver(reqs)
    ctx.traces_validated = len(reqs)
    for (case, paths, occ, want, holding_ok, sites_sx, ptxt), m in zip(C.lines, model):
        if m.startswith("bad"):
            raise HarnessFault(f"driver rejected a request: {case}")
        c2 = dict(case, paths=ptxt[:1500], occupancy=None if occ is None else sx_sites(occ))
        kind = m.split(" ")[0]
        ctx.count("sim_" + kind)
        if kind == "reject":
            ctx.fail(c2, f"{case['move']}{case['args']} is not rejected but its paths are not physically executable: {m}")
            continue
        if want is None:
            continue
        if kind == "holding" and not holding_ok:
            ctx.fail(c2, f"{case['move']}{case['args']} ends with atoms still in the tweezers: {m[:80]}")
            continue
        got = m.split(" ", 2 if kind == "holding" else 1)[-1]
        if got != sx_sites(want):
            ctx.fail(c2, f"{case['move']}{case['args']}: atoms end on {got[:200]}, documented destination {sx_sites(want)[:200]}")
    # ---- correspondence: the Lean models of the library moves vs the real event logs ----------
    mm = ctx.driver([r[1] for r in C.model_rows])
    for (case, req, impl), m in zip(C.model_rows, mm):
        if m.startswith("bad"):
            raise HarnessFault(f"driver rejected a model request: {req[:300]}")
        ctx.count("model_compared")
        ctx.count("model_" + m.split(" ")[0])
        if m != impl:
            ctx.disagree(dict(case, request=req[:600]), impl[:600], m[:600], "library move vs Model/StdMoves.lean")
    for k in (0, len(C.lines) // 2, len(C.lines) - 1):
        if 0 <= k < len(C.lines):
            ctx.sample({"case": C.lines[k][0], "paths": C.lines[k][6][:600], "simulator": model[k][:200]})
    c = ctx.counts
    if c.get("sim_ok", 0) + c.get("sim_reject", 0) < 50:
        raise HarnessFault(f"generator degenerate: {c}")
