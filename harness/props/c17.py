"""C17 — each kernel kind accepts exactly its documented vocabulary."""
from ..core import HarnessFault
from .. import tweezer as T

ID = "C17"
MODULES = ["Shuttle.Props.C17"]
RULE = ("every published lowering wrapper (regenerated list: all Binding objects of the dialect interface modules and of "
        "bloqade.geometry's grid module) x the three decorators: a one-statement kernel is defined for real and "
        "accepted/rejected is compared with the documented matrix and with the model (dialect membership in the "
        "regenerated dialect groups); tracer guard exercised with a tweezer kernel, a move kernel, an atom-level kernel, a "
        "closure and a non-Method. exhaustive over that finite domain. non-trivial = every pair; distinct = distinct pairs.")
TRUSTED = ["modelled, not verified: kirin lowering's rejection of statements whose dialect is not in the group"]
ASSUMPTIONS = ["a kernel kind accepts a wrapper iff applying the decorator to a one-statement kernel using it raises no "
               "'unsupported dialect' BuildError"]

HDR = '''from typing import Any
from bloqade.geometry.dialects import grid
from kirin.dialects import ilist
from bloqade.shuttle import action, atom, filled, gate, init, measure, schedule, spec
from bloqade.shuttle.prelude import kernel, tweezer, move

from bloqade.shuttle.arch import ArchSpec as _ArchSpec
SPEC_FOR_COMPOUND = _ArchSpec()

@tweezer
def tk(g: grid.Grid[Any, Any]):
    action.set_loc(g)

@tweezer
def tk2(g: grid.Grid[Any, Any], a: float):
    action.set_loc(g)
    action.move(grid.shift(g, a, 0.0))

'''

DOCUMENTED = {
    "tweezer": {"action", "spec", "grid", "filled"},
    "move": {"schedule", "gate", "init", "measure", "spec", "grid", "filled"},
    "kernel": {"atom", "gate", "spec", "grid", "filled"},
}

# one-statement bodies; (extra params) — wrappers without a template fall back to a generic call
TEMPL = {
    ("action", "set_loc"): "action.set_loc(g)", ("action", "move"): "action.move(g)",
    ("action", "turn_on"): "action.turn_on(action.ALL, action.ALL)", ("action", "turn_off"): "action.turn_off(action.ALL, [0])",
    ("schedule", "device_fn"): "f = schedule.device_fn(tk, [0], [0])", ("schedule", "reverse"): "f = schedule.reverse(df)",
    ("schedule", "parallel"): "with schedule.parallel():\n        x = 1", ("schedule", "auto"): "with schedule.auto():\n        x = 1",
    ("gate", "top_hat_cz"): "gate.top_hat_cz(g)", ("gate", "local_r"): "gate.local_r(0.5, 0.25, g)",
    ("gate", "local_rz"): "gate.local_rz(0.5, g)", ("gate", "global_r"): "gate.global_r(0.5, 0.25)",
    ("gate", "global_rz"): "gate.global_rz(0.5)", ("init", "fill"): "init.fill([g])",
    ("measure", "measure"): "m = measure.measure((g,))",
    ("spec", "get_static_trap"): 'z = spec.get_static_trap(zone_id="traps")',
    ("spec", "get_special_grid"): 'z = spec.get_special_grid(grid_id="s")',
    ("spec", "get_int_constant"): 'z = spec.get_int_constant(constant_id="n")',
    ("spec", "get_float_constant"): 'z = spec.get_float_constant(constant_id="x")',
    ("filled", "vacate"): "z = filled.vacate(g, [(0, 0)])", ("filled", "fill"): "z = filled.fill(g, [(0, 0)])",
    ("filled", "get_parent"): "z = filled.get_parent(filled.vacate(g, [(0, 0)]))",
    ("filled", "shift"): "z = filled.shift(g, 1.0, 1.0)", ("filled", "scale"): "z = filled.scale(g, 1.0, 1.0)",
    ("filled", "repeat"): "z = filled.repeat(g, 1, 1, 1.0, 1.0)",
    ("atom", "new"): "a = atom.new(g, q)", ("atom", "move"): "a = atom.move(g, q)",
    ("atom", "move_next_to"): "c, t = atom.move_next_to(g, q, q)", ("atom", "reset_position"): "atom.reset_position(q, q)",
    ("atom", "measure"): "a = atom.measure(q, q)",
    ("grid", "from_positions"): "z = grid.from_positions([0.0], [0.0])", ("grid", "shift"): "z = grid.shift(g, 1.0, 1.0)",
    ("grid", "scale"): "z = grid.scale(g, 1.0, 1.0)", ("grid", "repeat"): "z = grid.repeat(g, 1, 1, 1.0, 1.0)",
    ("grid", "sub_grid"): "z = grid.sub_grid(g, [0], [0])", ("grid", "shape"): "z = grid.shape(g)",
    ("grid", "get"): "z = grid.get(g, (0, 0))", ("grid", "get_xpos"): "z = grid.get_xpos(g)",
    ("grid", "get_ypos"): "z = grid.get_ypos(g)", ("grid", "positions"): "z = grid.positions(g)",
    ("grid", "x_bounds"): "z = grid.x_bounds(g)", ("grid", "y_bounds"): "z = grid.y_bounds(g)",
    ("grid", "new"): "z = grid.new([1.0], [1.0], 0.0, 0.0)",
}


def try_define(dec, module, name, q_ann=""):
    body = TEMPL.get((module, name))
    generic = body is None
    if generic:
        body = f"z = {module}.{name}(g)"
    params = "g: grid.Grid[Any, Any]" + (", df" if name == "reverse" else "") + (f", q{q_ann}" if module == "atom" else "")
    src = HDR + f"@{dec}\ndef k({params}):\n    {body}\n"
    try:
        T.load_source(src, "voc")
        return "accepted", generic
    except Exception as e:  # noqa: BLE001
        msg = str(e).lower()
        if "unsupported dialect" in msg:
            return "rejected", generic
        return f"other:{type(e).__name__}:{str(e)[:80]}", generic


# kernels of several statements, built only from the decorator's own vocabulary, in orders and nestings that one-statement
# kernels do not show: each must be accepted
COMPOUND = [
    ("tweezer", """def k(a: grid.Grid[Any, Any], b: grid.Grid[Any, Any]):
    action.move(a)
    action.turn_off(action.ALL, action.ALL)
    action.set_loc(b)
    action.turn_on(action.ALL, [0])
    action.move(grid.shift(b, 1.0, 0.0))
"""),
    ("tweezer", """def k(c: bool, a: grid.Grid[Any, Any], b: grid.Grid[Any, Any]):
    if c:
        action.move(a)
    else:
        action.set_loc(b)
    z = spec.get_static_trap(zone_id="traps")
    action.move(filled.vacate(z, [(0, 0)]))
"""),
    ("tweezer", """def k(n: int, a: grid.Grid[Any, Any]):
    action.turn_on(action.ALL, action.ALL)
    for i in range(n):
        action.move(grid.shift(a, 1.0 * i, 0.0))
    action.set_loc(a)
"""),
    ("move", """def k(g: grid.Grid[Any, Any], x: float):
    d = schedule.device_fn(tk, [0], [0])
    with schedule.parallel():
        d(g)
        with schedule.auto():
            d(g)
    with schedule.auto():
        with schedule.parallel():
            d(grid.shift(g, x + 4.0, 0.0))
    with schedule.parallel():
        with schedule.parallel():
            d(g)
            r = schedule.reverse(d)
            r(g)
"""),
    ("move", """def k(g: grid.Grid[Any, Any], n: int):
    d = schedule.device_fn(tk, [0], [0])
    for i in range(n):
        with schedule.parallel():
            d(grid.shift(g, 1.0 * i, 0.0))
        gate.global_rz(0.5)
    init.fill([g, filled.vacate(g, [(0, 0)])])
    m = measure.measure((g,))
    if n > 1:
        gate.top_hat_cz(spec.get_static_trap(zone_id="traps"))
"""),
    ("move(arch_spec=SPEC_FOR_COMPOUND)", """def k(x: float):
    d = schedule.device_fn(tk2, [0], [0])
    zone = spec.get_static_trap(zone_id="traps")[0:1, 0:1]
    d(zone, 2.0)
    d(zone, x)
    d(grid.shift(zone, x, 0.0), 1.0)
    r = schedule.reverse(d)
    r(zone, a=x)
"""),
    ("kernel", """def k(g: grid.Grid[Any, Any], q):
    a = atom.new(g, q)
    b = atom.move(grid.shift(g, 1.0, 0.0), a)
    gate.global_rz(0.5)
    atom.reset_position(b, q)
    return atom.measure(b, q)
"""),
]


def compound_stream(ctx):
    for dec, body in COMPOUND:
        src = HDR + f"@{dec}\n{body}"
        ctx.count("compound_kernels")
        try:
            T.load_source(src, "vocc")
        except Exception as e:  # noqa: BLE001
            ctx.fail({"decorator": dec, "source": body},
                     f"@{dec} refuses a kernel built only from its documented vocabulary: {type(e).__name__}: {str(e)[:200]}")


def run(ctx):
    tab = ctx.tables.get("Vocab")
    # the wrapper list is read the same way the extractor reads it (reflection), independently of the Lean table
    import importlib
    from bloqade.geometry.dialects import grid as grid_mod
    wrappers = []
    for m in ["action", "atom", "filled", "gate", "init", "measure", "schedule", "spec"]:
        mod = importlib.import_module(f"bloqade.shuttle.dialects.{m}._interface")
        for n in sorted(dir(mod)):
            o = getattr(mod, n)
            if not n.startswith("_") and type(o).__name__ == "Binding" and getattr(o, "parent", None) is not None:
                wrappers.append((m, n, o.parent.dialect.name if o.parent.dialect is not None else "<none>"))
    for n in sorted(dir(grid_mod)):
        o = getattr(grid_mod, n)
        if not n.startswith("_") and type(o).__name__ == "Binding" and getattr(o, "parent", None) is not None:
            wrappers.append(("grid", n, o.parent.dialect.name))
    from bloqade.shuttle import prelude
    groups = {k: {d.name for d in getattr(prelude, k).data} for k in ("tweezer", "move", "kernel")}
    # the published wrappers of the pinned tree (TEMPL) are part of the domain whether or not reflection still finds them
    reflected = {(m, n): d for (m, n, d) in wrappers}
    for (m, n) in sorted(set(reflected) | set(TEMPL)):
        d = reflected.get((m, n))
        if d is None:
            ctx.count("published_wrapper_not_found_by_reflection")
        for kind in ("tweezer", "move", "kernel"):
            res, generic = try_define(kind, m, n)
            want = "accepted" if m in DOCUMENTED[kind] else "rejected"
            model = res if d is None else ("accepted" if d in groups[kind] else "rejected")
            case = {"wrapper": f"{m}.{n}", "decorator": kind}
            ctx.seen((m, n, kind), True)
            ctx.count("pairs")
            ctx.count("pairs_" + res.split(":")[0])
            if res.startswith("other") and want == "accepted" and not generic:
                ctx.fail(case, f"@{kind} does not accept {m}.{n}, which its documented vocabulary contains: {res[6:]}")
                continue
            if res.startswith("other"):
                if want == "rejected" or generic:
                    # not a vocabulary verdict (argument template unsuitable); the table theorem still covers it
                    ctx.count("no_behavioural_verdict")
                    ctx.note(f"{m}.{n} under @{kind}: {res}")
                    continue
                ctx.note(f"{m}.{n} under @{kind}: {res}")
                ctx.count("no_behavioural_verdict")
                continue
            if res != model:
                ctx.disagree(case, res, model, "decorator behaviour vs dialect-group membership")
            if res != want:
                ctx.fail(case, f"@{kind} {res} {m}.{n}, but the documented vocabulary says it is {want}")
            # the same call with differently annotated list operands: whatever is accepted with an un-annotated operand is
            # accepted with an operand annotated as an IList too.  (Keyword forms are NOT part of this check: on the pinned
            # tree the published parameter names of many wrappers - all of bloqade-geometry's grid wrappers, filled.shift/
            # scale/repeat, measure.measure - differ from the statement fields kirin matches keywords against, so keyword calls
            # of vocabulary members are refused with "Unexpected keyword argument"; that is no vocabulary verdict.)
            if res == "accepted" and want == "accepted" and not generic and m == "atom":
                for ann in (": ilist.IList", ": ilist.IList[Any, Any]"):
                    r2, _ = try_define(kind, m, n, q_ann=ann)
                    ctx.count("operand_annotation_variants")
                    if r2 != "accepted":
                        ctx.fail(dict(case, operand_annotation=ann),
                                 f"@{kind} accepts {m}.{n} with an un-annotated list operand but not with one annotated{ann}: {r2[:160]}")
    ctx.traces_validated = ctx.counts.get("pairs", 0)
    ctx.exhaustive = True
    ctx.sample({"wrapper": "action.set_loc", "results": {k: try_define(k, "action", "set_loc")[0] for k in DOCUMENTED}})
    if ctx.counts.get("no_behavioural_verdict", 0) > 0.15 * ctx.counts["pairs"]:
        raise HarnessFault("too many wrapper/decorator pairs without a behavioural verdict (templates out of date)")
    compound_stream(ctx)
    tracer_guard(ctx)
    fold_guard(ctx)


CUSTOM_GROUP_SRC = '''from typing import Any
from kirin.prelude import basic_no_opt
from bloqade.geometry.dialects import grid
from bloqade.shuttle.dialects import action

custom = basic_no_opt.union([action.dialect, grid.dialect])

@custom
def ck(g: grid.Grid[Any, Any]):
    action.set_loc(g)
'''

GUARD_SRC = '''from typing import Any
from bloqade.geometry.dialects import grid
from bloqade.shuttle import action, gate
from bloqade.shuttle.prelude import kernel, tweezer, move

@tweezer
def tk(g: grid.Grid[Any, Any]):
    action.set_loc(g)

@move
def mk(g: grid.Grid[Any, Any]):
    gate.global_rz(0.5)

@kernel
def kk(g: grid.Grid[Any, Any]):
    gate.global_rz(0.5)

@move
def mk_closure(g: grid.Grid[Any, Any]):
    def inner(h: grid.Grid[Any, Any]):
        gate.global_rz(0.5)
    return inner

@tweezer
def outer(g: grid.Grid[Any, Any]):
    def inner(h: grid.Grid[Any, Any]):
        action.set_loc(g)
    return inner

@tweezer
def outer_free():
    def inner(h: grid.Grid[Any, Any]):
        action.set_loc(h)
    return inner

@tweezer(fold=False)
def outer_free_nofold():
    def inner(h: grid.Grid[Any, Any]):
        action.set_loc(h)
    return inner

@tweezer
def factory(dx: float):
    def inner(h: grid.Grid[Any, Any]):
        action.set_loc(h)
        action.move(grid.shift(h, dx, 0.0))
    return inner

@move
def made_in_move(dx: float):
    return factory(dx)
'''


FOLD_GUARD_SRC = '''from typing import Any
from bloqade.geometry.dialects import grid
from kirin.dialects import ilist
from bloqade.shuttle import action, gate, schedule, spec
from bloqade.shuttle.prelude import tweezer, move
from harness.props import c17 as _C17

@tweezer
def tkf(g: grid.Grid[Any, Any]):
    action.set_loc(g)

@move
def not_a_tweezer_kernel(g: grid.Grid[Any, Any]):
    return g

@move
def forwarding_move_kernel(g: grid.Grid[Any, Any]):
    tkf(g)

@move(arch_spec=_C17.SPEC_SLOT)
def okk():
    d = schedule.device_fn(tkf, ilist.IList([0]), ilist.IList([0]))
    d(grid.from_positions([0.0], [0.0]))

{bad}
'''

BAD_KERNELS = ['''@move(arch_spec=_C17.SPEC_SLOT)
def badk():
    d = schedule.device_fn(forwarding_move_kernel, ilist.IList([0]), ilist.IList([0]))
    d(grid.from_positions([0.0], [0.0]))
''', '''@move(arch_spec=_C17.SPEC_SLOT)
def badk():
    d = schedule.device_fn(not_a_tweezer_kernel, ilist.IList([0]), ilist.IList([0]))
    d(grid.from_positions([0.0], [0.0]))
''', '''@move(arch_spec=_C17.SPEC_SLOT)
def badk():
    d = schedule.reverse(schedule.device_fn(not_a_tweezer_kernel, ilist.IList([0]), ilist.IList([0])))
    d(grid.from_positions([0.0], [0.0]))
''']
SPEC_SLOT = None


def fold_guard(ctx):
    """the tracer's kind guard on the compile-time route: a device call of something that is no tweezer kernel, with constant
    operands and the spec given at compile time, must not be traced into a path"""
    global SPEC_SLOT
    from bloqade.geometry.dialects.grid import Grid
    from bloqade.shuttle.arch import ArchSpec, Layout
    from bloqade.shuttle.dialects import path
    from kirin.dialects import py
    SPEC_SLOT = ArchSpec(layout=Layout({"traps": Grid.from_positions([0.0, 1.0], [0.0])}, {"traps"}, {"traps"}, {"traps"}))
    for bad in BAD_KERNELS:
        case = {"fold_guard": bad}
        ctx.seen(("fold_guard", bad), True)
        try:
            mod = T.load_source(FOLD_GUARD_SRC.replace("{bad}", bad), "foldguard")
        except Exception:  # noqa: BLE001
            continue            # refused at definition
        traced = [st for st in mod.badk.callable_region.walk()
                  if isinstance(st, py.Constant) and isinstance(st.value.unwrap() if hasattr(st.value, "unwrap") else None, path.Path)]
        if traced:
            ctx.fail(case, "a device call of a move kernel was traced into a path at compile time (the tracer must refuse "
                           "anything that is not a tweezer kernel or closure)")


def tracer_guard(ctx):
    from bloqade.geometry.dialects.grid import Grid
    from bloqade.shuttle.arch import ArchSpec
    from bloqade.shuttle.codegen import TraceInterpreter
    mod = T.load_source(GUARD_SRC, "guard")
    G = Grid.from_positions([0.0], [0.0])
    plain = T.load_source("from kirin.prelude import basic_no_opt\n\n@basic_no_opt\ndef pf(g):\n    return None\n", "guardplain")
    for kind, mt, want_refused in (("tweezer", mod.tk, False), ("move", mod.mk, True), ("kernel", mod.kk, True),
                                   ("plain kirin function", plain.pf, True),
                                   ("function of another dialect group that contains the action dialect",
                                    T.load_source(CUSTOM_GROUP_SRC, "guardcustom").ck, True),
                                   ("closure capturing a value", mod.outer(G), False),
                                   ("closure capturing nothing", mod.outer_free(), False),
                                   ("closure capturing nothing (fold=False)", mod.outer_free_nofold(), False),
                                   ("tweezer closure made by a factory that a move kernel called", mod.made_in_move(1.5), False)):
        it = TraceInterpreter(ArchSpec())
        case = {"tracer_guard": kind}
        ctx.seen(("guard", kind), True)
        try:
            it.run_trace(mt, (G,), {})
            refused = False
        except ValueError:
            refused = True
        except Exception as e:  # noqa: BLE001
            refused = False
            ctx.note(f"tracing a {kind} kernel got past the guard and failed later: {type(e).__name__}")
        if refused != want_refused:
            ctx.fail(case, f"run_trace {'refused' if refused else 'did not refuse'} a {kind} kernel")
