"""C05 — a device call yields the same path on every evaluation route."""
import itertools

from ..core import HarnessFault
from ..sexp import sx
from .. import tweezer as T
from .. import events as EV

ID = "C05"
MODULES = ["Shuttle.Props.C05"]
RULE = ("seeded random tweezer kernels of arity 1-6 called from a generated @move(fold=False) program through "
        "schedule.device_fn with random tone lists, reversed 0-3 times, with every split into positional + keyword "
        "arguments and a random permutation of the keyword order, with constant (literal) and non-constant (parameter) "
        "operands; the three real gen implementations are exercised in isolation: spec.interp (spec-carrying interpreter), "
        "main (spec stamped on the statement by InjectSpecRule, plain interpreter; and unstamped = no spec), constprop "
        "(const.Propagate on the stamped / unstamped method); plus callee-is-not-a-device-function and failing-kernel cases, and "
        "programs calling two device functions with different tones over one kernel with equal arguments. "
        "non-trivial = call with at least one keyword argument or a reversed task; distinct = distinct (kernel, call shape).")
TRUSTED = ["modelled, not verified: kirin's interpreter / const propagation framework, permute_values (Model/Gen3.lean, compared "
           "on every call), the kernel itself (abstracted as a trace function; its op sequence comes from the generator)"]
ASSUMPTIONS = ["coordinates are dyadic rationals for which binary64 arithmetic is exact"]

MOVE_HDR = '''from typing import Any
from bloqade.geometry.dialects import grid
from kirin.dialects import ilist
from bloqade.shuttle import action, filled, spec, schedule
from bloqade.shuttle.prelude import tweezer, move

'''


def lit(kind, w):
    """source literal for a wire argument"""
    if kind == "grid":
        return f"grid.from_positions([{', '.join(T.flt(q) for q in w[1])}], [{', '.join(T.flt(q) for q in w[2])}])"
    if kind == "int":
        return str(w)
    if kind == "bool":
        return "True" if w else "False"
    if w[0] == "sl":
        return f"slice({w[1]}, {w[2]}, {w[3]})"
    return "[" + ", ".join(str(i) for i in w[1:]) + "]"


def build_case(rng, g):
    kernels, shape = g.program()
    main = kernels[-1]
    params = main["params"]
    wire = g.args_for(main, shape)
    n = len(params)
    npos = rng.randrange(0, n + 1)
    kw_idx = list(range(npos, n))
    rng.shuffle(kw_idx)
    xt = sorted(rng.sample(range(6), rng.randrange(0, 4)))
    yt = sorted(rng.sample(range(6), rng.randrange(0, 4)))
    rev = rng.randrange(0, 4)
    const = rng.random() < 0.5
    other = rng.random() < 0.06
    return {"kernels": kernels, "wire": wire, "npos": npos, "kw_idx": kw_idx, "xt": xt, "yt": yt, "rev": rev,
            "const": const, "other": other}


def program_source(c):
    main = c["kernels"][-1]
    params = main["params"]
    names = [p[0] for p in params]
    src = T.program_source(c["kernels"])[len(T.PRELUDE):]
    call_args = []
    for i in range(c["npos"]):
        call_args.append(lit(params[i][1], c["wire"][i]) if c["const"] else names[i])
    for i in c["kw_idx"]:
        call_args.append(f"{names[i]}=" + (lit(params[i][1], c["wire"][i]) if c["const"] else names[i]))
    lines = []
    if c["other"]:
        sig = ", ".join(["f0: schedule.DeviceFunction"] + ([] if c["const"] else names))
    else:
        sig = "" if c["const"] else ", ".join(names)
    lines.append("@move(fold=False)")
    lines.append(f"def prog({sig}):")
    if not c["other"]:
        lines.append(f"    f0 = schedule.device_fn(main, ilist.IList({c['xt']}), ilist.IList({c['yt']}))")
    for r in range(c["rev"]):
        lines.append(f"    f{r + 1} = schedule.reverse(f{r})")
    lines.append(f"    f{c['rev']}({', '.join(call_args)})")
    return MOVE_HDR + src + "\n".join(lines) + "\n"


def safe_canon(p):
    """a path built from mis-bound arguments may hold values of the wrong kind"""
    try:
        return EV.canon_pathobj(p)
    except Exception as e:  # noqa: BLE001
        return f"<malformed path: {type(e).__name__}: {repr(p)[:200]}>"


def canon_run(run):
    if run.error is not None:
        return "err"
    plays = [e for e in run.events if e[0] == "play"]
    if len(plays) != 1:
        return f"<{len(plays)} plays>"
    return "ok " + safe_canon(plays[0][1])


def run_case(ctx, spec, traps, c, out, cache={}, other_spec=None):
    from kirin import rewrite
    from kirin.analysis import const
    from bloqade.shuttle.dialects import path
    from bloqade.shuttle.passes.inject_spec import InjectSpecRule
    src = program_source(c)
    try:
        # one compiled program per case, shared by the runs under different specs
        if cache.get("src") != src:
            cache["src"], cache["mod"] = src, T.load_source(src, "c05")
        mod = cache["mod"]
    except Exception as e:  # noqa: BLE001
        cache.clear()
        ctx.count("compile_fail")
        ctx.count(f"compile_fail_{type(e).__name__}")
        if ctx.counts["compile_fail"] <= 3:
            ctx.note(f"compile failure {type(e).__name__}: {str(e)[:200]} :: {src[-400:]}")
        return
    kmap = {k["name"]: k for k in c["kernels"]}
    main = kmap["main"]
    ops, kerr = [], False
    try:
        T.flatten(kmap, "main", list(c["wire"]), traps, ops)
    except T.KernelError:
        kerr = True
    rargs = () if c["const"] else T.real_args(main, c["wire"])
    if c["other"]:
        rargs = (3,) + tuple(rargs)
    prog = mod.prog
    stamped = prog.similar()
    rewrite.Walk(InjectSpecRule(spec)).rewrite(stamped.code)
    res = {}
    objs = {}

    def keep(k, run):
        plays = [e for e in run.events if e[0] == "play"] if run.error is None else []
        if len(plays) == 1:
            objs[k] = plays[0][1]
        return canon_run(run)
    res["spec"] = keep("spec", EV.run_with_events(prog, spec, rargs))
    res["main"] = keep("main", EV.run_with_events(stamped, spec, rargs, plain=True))
    res["main_nospec"] = canon_run(EV.run_with_events(prog, spec, rargs, plain=True))

    def fold(mt):
        try:
            frame, _ = const.Propagate(mt.dialects).run_analysis(mt, no_raise=False)
        except Exception:  # noqa: BLE001
            return "raised"
        gens = [st for st in mt.callable_region.walk() if isinstance(st, path.Gen)]
        if len(gens) != 1:
            return f"<{len(gens)} gens>"
        r = frame.entries.get(gens[0].result)
        if isinstance(r, const.Value):
            if mt is stamped:
                objs["constprop"] = r.data
            return "ok " + safe_canon(r.data)
        return "unfolded"
    res["constprop"] = fold(stamped)
    # the routes' path objects are equal as Python values too (the canonical form does not show, e.g., IList against list)
    ks = sorted(objs)
    for i, a in enumerate(ks):
        for b in ks[i + 1:]:
            ctx.count("route_object_pairs")
            try:
                same = objs[a] == objs[b] and objs[b] == objs[a]
            except Exception:  # noqa: BLE001
                same = False
            if not same and safe_canon(objs[a]) == safe_canon(objs[b]):
                ctx.fail({"source": src[len(MOVE_HDR):], "wire_args": sx(list(c["wire"]))},
                         f"routes {a} and {b} return paths that print alike but are not equal: {repr(objs[a])[:200]} vs {repr(objs[b])[:200]}")
    res["constprop_nospec"] = fold(prog)
    if other_spec is not None:
        # the spec-carrying interpreter traces with the spec it carries, whether or not a (different) spec is recorded on the call
        a = canon_run(EV.run_with_events(stamped, other_spec, rargs))
        b = canon_run(EV.run_with_events(prog, other_spec, rargs))
        ctx.count("recorded_spec_vs_carried_spec_runs")
        if a != b:
            ctx.fail({"source": src[len(MOVE_HDR):], "wire_args": sx(list(c["wire"]))},
                     f"spec-carrying interpreter: a call with another spec recorded on it yields {a[:200]}, the same call without a "
                     f"recorded spec yields {b[:200]}")
    # ---- model requests ---------------------------------------------------------
    n = len(main["params"])
    names = ["main_self"] + [p[0] for p in main["params"]]
    call_vals = [f"v{i}" for i in range(c["npos"])] + [f"v{i}" for i in c["kw_idx"]]
    kws = [main["params"][i][0] for i in c["kw_idx"]]
    bound = [f"v{i}" for i in range(n)]
    kind = "other" if c["other"] else ("rev" if c["rev"] % 2 else "fwd")
    opsx = "((set (g () () _ _)) (move (g (1) () 0 _)))" if kerr else sx(ops)   # a failing kernel: any erroring op list
    base = f"{sx(c['xt'])} {sx(c['yt'])} {sx(names)} {sx(call_vals)} {sx(kws)} {sx(bound)} {opsx}"
    cvals = call_vals if c["const"] else ["_"] * len(call_vals)
    cbase = f"{sx(c['xt'])} {sx(c['yt'])} {sx(names)} {sx(cvals)} {sx(kws)} {sx(bound)} {opsx}"
    ckind = kind if (c["const"] and not c["other"]) else ("nonconst" if c["other"] else kind)
    reqs = {
        "spec": f"(C05 (gen spec T {kind} {base}))",
        "main": f"(C05 (gen main T {kind} {base}))",
        "main_nospec": f"(C05 (gen main F {kind} {base}))",
        "constprop": f"(C05 (gen constprop T {ckind} {cbase}))",
        "constprop_nospec": f"(C05 (gen constprop F {ckind} {cbase}))",
    }
    case = {"source": src[len(MOVE_HDR):], "wire_args": sx(list(c["wire"])), "call": {"npos": c["npos"], "kw": kws,
            "rev": c["rev"], "const": c["const"], "other": c["other"], "xt": c["xt"], "yt": c["yt"]}, "seed_case": None}
    out.append((case, res, reqs, c))
    ctx.seen((src, sx(list(c["wire"]))), bool(kws) or c["rev"] > 0)
    ctx.count("calls")
    ctx.count(f"kind_{kind}")
    ctx.count("const" if c["const"] else "nonconst")
    ctx.count(f"kw_{min(len(kws), 3)}")


def run_twin(ctx, spec, c):
    """two device functions over ONE kernel object, different tone lists, the same constant arguments, both calls in one
    program: every route must give each call the tones of its own device function"""
    from kirin import rewrite
    from kirin.analysis import const
    from bloqade.shuttle.dialects import path
    from bloqade.shuttle.passes.inject_spec import InjectSpecRule
    main = c["kernels"][-1]
    params = main["params"]
    src = T.program_source(c["kernels"])[len(T.PRELUDE):]
    args = ", ".join(lit(params[i][1], c["wire"][i]) for i in range(len(params)))
    xt2 = [t + 1 for t in c["xt"]] + [0]
    yt2 = list(reversed(c["yt"])) + [7]
    text = MOVE_HDR + src + "\n".join([
        "@move(fold=False)", "def prog():",
        f"    fa = schedule.device_fn(main, ilist.IList({c['xt']}), ilist.IList({c['yt']}))",
        f"    fb = schedule.device_fn(main, ilist.IList({xt2}), ilist.IList({yt2}))",
        f"    fa({args})", f"    fb({args})", f"    fa({args})"]) + "\n"
    try:
        mod = T.load_source(text, "c05t")
    except Exception:  # noqa: BLE001
        ctx.count("twin_compile_fail")
        return
    prog = mod.prog
    stamped = prog.similar()
    rewrite.Walk(InjectSpecRule(spec)).rewrite(stamped.code)
    case = {"source": text[len(MOVE_HDR):], "twin": True}
    want_tones = [(c["xt"], c["yt"]), (xt2, yt2), (c["xt"], c["yt"])]
    ctx.count("twin_programs")
    runs = {"spec": EV.run_with_events(prog, spec, ()), "main": EV.run_with_events(stamped, spec, (), plain=True)}
    ref = None
    for k, r in runs.items():
        if r.error is not None:
            continue
        plays = [e[1] for e in r.events if e[0] == "play"]
        got = [(list(map(int, p.x_tones)), list(map(int, p.y_tones))) for p in plays]
        if got != want_tones:
            ctx.fail(case, f"route {k}: the calls of two device functions over one kernel carry tones {got}, their own are {want_tones}")
        canon = [safe_canon(p) for p in plays]
        if ref is not None and canon != ref:
            ctx.fail(case, f"routes spec / main play different paths for two device functions over one kernel")
        ref = canon
    try:
        frame, _ = const.Propagate(stamped.dialects).run_analysis(stamped, no_raise=False)
        gens = [st for st in stamped.callable_region.walk() if isinstance(st, path.Gen)]
        folded = [frame.entries.get(g.result) for g in gens]
        # the textually identical first and third call are merged by CSE: compare with the distinct run-time paths, in order
        ref = None if ref is None else list(dict.fromkeys(ref))
        if ref is not None and len(gens) == len(ref) and all(isinstance(f, const.Value) for f in folded):
            fc = [safe_canon(f.data) for f in folded]
            if fc != ref:
                ctx.fail(case, f"constprop folds the calls of two device functions over one kernel to {[x[:80] for x in fc]}, "
                               f"the run-time routes play {[x[:80] for x in ref]}")
            ctx.count("twin_folded")
    except Exception:  # noqa: BLE001
        ctx.count("twin_fold_raised")


SUBCALL_SRC = MOVE_HDR + '''from harness.props import c05 as _C05

@tweezer
def hopk(g: grid.Grid[Any, Any], n: int):
    action.set_loc(g)
    action.move(grid.shift(g, 1.0 * n, 0.5))

@move
def inner(n: int):
    d = schedule.device_fn(hopk, ilist.IList([0, 1]), ilist.IList([0]))
    d(grid.from_positions([0.0, 2.0], [1.0]), n)
    r = schedule.reverse(d)
    r(grid.from_positions([0.0, 2.0], [1.0]), n=n)

@tweezer
def parkk(n: int):
    p = spec.get_special_grid(grid_id="park")
    action.set_loc(p)
    action.turn_on(action.ALL, [0])
    action.move(grid.shift(p, 0.5 * n, 1.0))
    action.move(spec.get_static_trap(zone_id="traps")[0:2, 0:2])

@move
def special_carried(n: int):
    d = schedule.device_fn(parkk, ilist.IList([0, 1]), ilist.IList([0, 1]))
    d(n)
    schedule.reverse(d)(n=n)

@move(arch_spec=_C05.SPEC_SLOT)
def special_recorded(n: int):
    d = schedule.device_fn(parkk, ilist.IList([0, 1]), ilist.IList([0, 1]))
    d(n)
    schedule.reverse(d)(n=n)

@move(arch_spec=_C05.SPEC_SLOT)
def special_folded():
    d = schedule.device_fn(parkk, ilist.IList([0, 1]), ilist.IList([0, 1]))
    d(2)
    schedule.reverse(d)(n=2)

@move
def plain_sub(n: int):
    inner(n)

@tweezer
def shift_by(dx: float):
    def closure_kernel(x: float, y: float):
        start = grid.from_positions([x], [y])
        action.set_loc(start)
        action.turn_on(action.ALL, [0])
        action.move(grid.shift(start, dx, 0.0))
        action.move(grid.shift(start, dx, 2.0))
        action.turn_off(action.ALL, [0])
    return closure_kernel

@move
def closure_carried(x: float, y: float):
    dev = schedule.device_fn(shift_by(3.0), [0], [0])
    rev = schedule.reverse(dev)
    dev(x, y=y)
    rev(y=y, x=x)

@move(arch_spec=_C05.SPEC_SLOT)
def closure_recorded(x: float, y: float):
    dev = schedule.device_fn(shift_by(3.0), [0], [0])
    rev = schedule.reverse(dev)
    dev(x, y=y)
    rev(y=y, x=x)

@move(arch_spec=_C05.SPEC_SLOT)
def closure_folded():
    dev = schedule.device_fn(shift_by(3.0), [0], [0])
    rev = schedule.reverse(dev)
    dev(1.0, y=2.0)
    rev(y=2.0, x=1.0)

@move(arch_spec=_C05.SPEC_SLOT)
def compiled_sub(n: int):
    inner(n)
'''
SPEC_SLOT = None


def subcall_stream(ctx, spec):
    """device calls that sit in an invoked subroutine of a kernel compiled with the spec, in a call graph without any spec
    lookup: the plain interpreter must find the spec recorded on them"""
    global SPEC_SLOT
    SPEC_SLOT = spec
    try:
        mod = T.load_source(SUBCALL_SRC, "c05s")
    except Exception:  # noqa: BLE001
        return      # reported by closure_stream
    for n in (0, 2):
        a = EV.run_with_events(mod.plain_sub, spec, (n,))
        b = EV.run_with_events(mod.compiled_sub, spec, (n,), plain=True)
        ra = "err" if a.error else EV.canon_events(a.events)
        rb = "err" if b.error else EV.canon_events(b.events)
        ctx.count("subcall_runs")
        if ra != rb:
            ctx.fail({"source": SUBCALL_SRC[len(MOVE_HDR):], "args": [n]},
                     f"device calls in an invoked subroutine: the kernel compiled with the spec, run by the plain interpreter, gives "
                     f"{rb[:200]}; the spec-carrying interpreter on the unspecialised kernel gives {ra[:200]}")


def closure_stream(ctx, spec):
    """a device function over a closure kernel (a tweezer kernel returned by a tweezer kernel, capturing its argument): the
    three routes give the same two paths"""
    global SPEC_SLOT
    SPEC_SLOT = spec
    try:
        mod = T.load_source(SUBCALL_SRC, "c05c")
    except Exception as e:  # noqa: BLE001
        ctx.fail({"source": SUBCALL_SRC[len(MOVE_HDR):]},
                 f"kernels with device calls over closure kernels / kernels reading special grids do not compile with a spec: "
                 f"{type(e).__name__}: {str(e)[:200]}")
        return
    a = EV.run_with_events(mod.closure_carried, spec, (1.0, 2.0))
    b = EV.run_with_events(mod.closure_recorded, spec, (1.0, 2.0), plain=True)
    c = EV.run_with_events(mod.closure_folded, spec, (), plain=True)
    rs = {"spec-carrying interpreter": a, "plain interpreter, recorded spec": b, "folded at compile time": c}
    canon = {k: ("err" if r.error else EV.canon_events(r.events)) for k, r in rs.items()}
    ctx.count("closure_kernel_runs", 3)
    a2 = EV.run_with_events(mod.special_carried, spec, (2,))
    b2 = EV.run_with_events(mod.special_recorded, spec, (2,), plain=True)
    c2 = EV.run_with_events(mod.special_folded, spec, (), plain=True)
    canon2 = {k: ("err" if r.error else EV.canon_events(r.events)) for k, r in
              {"spec-carrying interpreter": a2, "plain interpreter, recorded spec": b2, "folded at compile time": c2}.items()}
    ctx.count("special_grid_kernel_runs", 3)
    if len(set(canon2.values())) != 1 or "err" in canon2.values():
        ctx.fail({"source": SUBCALL_SRC[len(MOVE_HDR):], "args": [2]},
                 "a device function whose tweezer kernel reads a special grid and a static trap: the routes differ or raise: " +
                 " | ".join(f"{k}: {v[:120]}" for k, v in canon2.items()))
    if len(set(canon.values())) != 1 or "err" in canon.values():
        ctx.fail({"source": SUBCALL_SRC[len(MOVE_HDR):], "args": [1.0, 2.0]},
                 "a device function over a closure kernel: the routes differ or raise: " +
                 " | ".join(f"{k}: {v[:120]}" for k, v in canon.items()))


def second_spec():
    """same zone names as the default spec, different geometry: a route that remembers a
    path across specs (a cache keyed without the spec) shows up as a disagreement"""
    from bloqade.shuttle.arch import ArchSpec, Layout
    base = T.default_spec().layout
    traps = base.static_traps["traps"].shift(100.0, -50.0).scale(2.0, 0.5)
    left = traps.get_view([0, 2], [0, 1, 2])
    d = T.default_spec()
    return ArchSpec(layout=Layout({"traps": traps, "left": left}, {"traps"}, {"traps"}, {"traps"}),
                    int_constants=dict(d.int_constants), float_constants=dict(d.float_constants))


def run(ctx):
    spec = T.default_spec()
    traps, zones = T.spec_tables(spec)
    spec2 = second_spec()
    traps2, _ = T.spec_tables(spec2)
    g = T.Gen(ctx.rng, zones)
    n = 900 if ctx.tier == "thorough" else 110
    out = []
    for _ in range(n):
        c = build_case(ctx.rng, g)
        run_case(ctx, spec, traps, c, out)
        if c["const"] and not c["other"] and ctx.rng.random() < 0.5:
            run_twin(ctx, spec, c)
        if "trap" in repr(c["kernels"]):
            # the same program, same arguments, under a second spec in the same process
            ctx.count("second_spec_runs")
            run_case(ctx, spec2, traps2, c, out, other_spec=spec)
    subcall_stream(ctx, spec)
    closure_stream(ctx, spec)
    if ctx.counts.get("compile_fail", 0) > 0.3 * n:
        raise HarnessFault("generator degenerate: >30% of generated programs do not compile")
    keys = ["spec", "main", "main_nospec", "constprop", "constprop_nospec"]
    lines = [reqs[k] for _, _, reqs, _ in out for k in keys]
    model = ctx.driver(lines)
    ctx.traces_validated = len(out)
    it = iter(model)
    n_ok = 0
    for case, res, reqs, c in out:
        m = {k: next(it) for k in keys}
        if any(v.startswith("bad") for v in m.values()):
            raise HarnessFault(f"driver rejected a request: {m} :: {reqs['spec'][:300]}")
        for k in keys:
            if res[k] != m[k]:
                ctx.disagree(case, {k: res[k][:300]}, {k: m[k][:300]}, f"route {k} vs model")
        # ---- the property itself, on the real routes ---------------------------------
        # "when the kernel itself fails no route returns a path": whether the kernel fails is read off the reference AOD
        # semantics of its operation sequence (the Lean tracer model, proved equal to the reference in C01), not off the tracer
        if m["spec"] == "err":
            for k in ("spec", "main", "constprop"):
                if res[k].startswith("ok"):
                    ctx.fail(case, f"the kernel fails on these arguments (reference AOD semantics), yet route {k} returns a path: {res[k][:200]}")
        runtime = [res["spec"], res["main"]]
        paths = [r for r in runtime + [res["constprop"]] if r.startswith("ok")]
        if len(set(paths)) > 1:
            ctx.fail(case, "routes return different paths: " + " | ".join(f"{k}={res[k][:160]}" for k in ("spec", "main", "constprop")))
        if res["spec"].startswith("ok") != res["main"].startswith("ok"):
            ctx.fail(case, f"one run-time route returns a path and the other raises: spec={res['spec'][:100]} main={res['main'][:100]}")
        if res["main_nospec"] != "err":
            ctx.fail(case, f"plain interpreter without a spec did not raise: {res['main_nospec'][:200]}")
        if res["constprop_nospec"] != "unfolded":
            ctx.fail(case, f"folding without a spec did not leave the call unfolded: {res['constprop_nospec'][:200]}")
        if not res["spec"].startswith("ok") and res["constprop"].startswith("ok"):
            ctx.fail(case, "folding produced a path although the run-time routes raise")
        if c["const"] and not c["other"] and res["spec"].startswith("ok") and res["constprop"] != res["spec"]:
            ctx.fail(case, f"folding of a constant call did not yield the run-time path: {res['constprop'][:200]}")
        if not c["const"] and res["constprop"] not in ("unfolded",):
            ctx.fail(case, f"folding of a call with non-constant operands returned {res['constprop'][:100]}")
        n_ok += res["spec"].startswith("ok")
    ctx.count("runtime_ok", n_ok)
    for k in (0, len(out) // 2):
        if k < len(out):
            ctx.sample({"source": out[k][0]["source"], "args": out[k][0]["wire_args"], "routes": {a: b[:200] for a, b in out[k][1].items()}})
    if n_ok < 0.3 * len(out) or len(out) - n_ok < 3:
        raise HarnessFault(f"generator degenerate: {n_ok} of {len(out)} calls produce a path")
