"""C14 — library builders produce the documented geometry."""
import itertools
import warnings
from fractions import Fraction

from ..core import HarnessFault
from ..sexp import frac, sx
from .. import tweezer as T

ID = "C14"
MODULES = ["Shuttle.Props.C14"]
RULE = ("every builder output for all sizes num_x, num_y <= 8 (quick 5) and 4 spacings / 3 gate spacings, both Gemini "
        "specs entirely: compared zone by zone with the Lean models of the builders, and checked directly against the "
        "documented geometry (site coordinates i*s, left/right partition with pairs gate_spacing apart, Gemini block "
        "sizes, blocks being sub-sets of their parent zone, constants vs geometry, capability names exist, deprecated "
        "builder equals its replacement); plus integer-typed and non-binary-fraction spacings (0.1, 0.3, 1.3, 3.7, 1/3) for counts "
        "up to 13, checked directly (counts exactly, coordinates to 1e-9). non-trivial = spec with more than one site; distinct = distinct parameter tuples.")
TRUSTED = ["modelled, not verified: bloqade-geometry Grid/SubGrid arithmetic (Model/Grid.lean)"]
ASSUMPTIONS = ["model comparison: coordinates are dyadic rationals for which binary64 arithmetic is exact; other spacings are "
               "checked with a relative tolerance of 1e-9"]
CASE_REPLAY = False


def canon_spec(s) -> str:
    l = s.layout
    named = lambda d: "(" + " ".join(f"({n} {T.canon_grid(z)})" for n, z in sorted(d.items())) + ")"  # noqa: E731
    names = lambda st: "(" + " ".join(sorted(st)) + ")"  # noqa: E731
    fc = "(" + " ".join(f"({k} {sx(frac(v))})" for k, v in sorted(s.float_constants.items())) + ")"
    ic = "(" + " ".join(f"({k} {int(v)})" for k, v in sorted(s.int_constants.items())) + ")"
    return (f"ok (spec {named(l.static_traps)} {names(l.fillable)} {names(l.has_cz)} {names(l.has_local)} "
            f"{named(l.special_grid)} {fc} {ic})")


def sites(g):
    return [(frac(x), frac(y)) for x, y in g.positions]


def caps_ok(ctx, s, case):
    l = s.layout
    for nm, cap in (("fillable", l.fillable), ("has_cz", l.has_cz), ("has_local", l.has_local)):
        for z in cap:
            if z not in l.static_traps:
                ctx.fail(case, f"capability set {nm} names '{z}', which is not a static trap zone")


def numeric_stream(ctx, single_col_zone, two_col_zone, old_spec):
    from bloqade.geometry.dialects import grid
    """argument types and values outside the dyadic sweep: Python ints, spacings that are no binary fractions; checked directly
    (counts exactly, coordinates to 1e-9), not through the exact Lean model"""
    def close(a, b):
        return len(a) == len(b) and all(abs(x - y) <= 1e-9 * max(1.0, abs(y)) for x, y in zip(a, b))
    N = 14 if ctx.tier == "thorough" else 13
    for s in (0.1, 0.3, 1.3, 3.7, 1.0 / 3.0, 10, 4, 7):
        for n in range(1, N + 1):
            for nx, ny in ((n, 2), (3, n)):
                case = {"builder": "single_col_zone.get_spec", "args": [nx, ny, repr(s)]}
                ctx.count("numeric_single")
                ctx.seen(("numeric-single", nx, ny, repr(s)), True)
                try:
                    sp = single_col_zone.get_spec(nx, ny, s)
                except Exception as e:  # noqa: BLE001
                    ctx.fail(case, f"single-zone builder raises on valid arguments: {type(e).__name__}: {str(e)[:120]}")
                    continue
                z = sp.layout.static_traps["traps"]
                if z.shape != (nx, ny):
                    ctx.fail(case, f"single-zone layout has shape {z.shape}, requested ({nx}, {ny})")
                elif not (close(list(z.x_positions), [i * s for i in range(nx)]) and close(list(z.y_positions), [j * s for j in range(ny)])):
                    ctx.fail(case, "single-zone sites are not i*spacing, j*spacing")
                elif tuple(z.x_spacing) != (s,) * (nx - 1) or tuple(z.y_spacing) != (s,) * (ny - 1) or (z.x_init, z.y_init) != (0, 0):
                    # the zone is *at the requested spacing*: the value the caller passed, not one recomputed from positions
                    ctx.fail(case, f"single-zone spacings are not the requested spacing: {tuple(z.x_spacing)[:4]} / {tuple(z.y_spacing)[:4]}")
                old = old_spec.single_zone_spec(nx, ny, s)
                if old.layout.static_traps["traps"].shape != z.shape or not (old == sp and sp == old and hash(old) == hash(sp)):
                    ctx.fail(case, "deprecated single_zone_spec differs from single_col_zone.get_spec")
                if sp.layout.get_zone_id(grid.Grid((s,) * (nx - 1), (s,) * (ny - 1), 0.0, 0.0)) != "traps":
                    ctx.fail(case, "the documented grid value is not recognised as zone 'traps'")
    for s, gs in ((10, 2.5), (10, 0.75), (4, 1.5), (7, 2), (10.0, 3), (0.3, 0.1), (3.7, 1.3)):
        for nx, ny in ((1, 1), (2, 3), (4, 2), (5, 5)):
            case = {"builder": "two_col_zone.get_spec", "args": [nx, ny, repr(s), repr(gs)]}
            ctx.count("numeric_twocol")
            ctx.seen(("numeric-twocol", nx, ny, repr(s), repr(gs)), True)
            try:
                sp = two_col_zone.get_spec(nx, ny, s, gs)
            except Exception as e:  # noqa: BLE001
                ctx.fail(case, f"two-column builder raises on valid arguments: {type(e).__name__}: {str(e)[:120]}")
                continue
            l = sp.layout.static_traps
            lx, rx = list(l["left_traps"].x_positions), list(l["right_traps"].x_positions)
            if l["traps"].shape != (2 * nx, ny) or l["left_traps"].shape != (nx, ny) or l["right_traps"].shape != (nx, ny):
                ctx.fail(case, "two-column zones do not have the requested shapes")
            elif not (close(lx, [k * (s + gs) for k in range(nx)]) and close(rx, [k * (s + gs) + gs for k in range(nx)])
                      and close(list(l["traps"].y_positions), [j * s for j in range(ny)])):
                ctx.fail(case, "left/right trap sites are not pairs gate_spacing apart, pairs spacing apart")


def wide_and_default_stream(ctx, two_col_zone):
    """two-column layouts far wider than the sweep (the Gemini gate zone is 17 pairs wide), and the documented defaults when an
    argument is omitted (gate spacing 2.0 whatever the spacing; spacing 10.0)"""
    def cols(nx, s, gs):
        return [k * (s + gs) + d for k in range(nx) for d in (0.0, gs)]
    for nx in list(range(9, 81)) + [128, 257, 300]:
        sp = two_col_zone.get_spec(nx, 2, 4.0, 1.0)
        l = sp.layout.static_traps
        ctx.count("wide_twocol")
        case = {"builder": "two_col_zone.get_spec", "args": [nx, 2, "4.0", "1.0"]}
        if (list(l["traps"].x_positions) != cols(nx, 4.0, 1.0) or list(l["left_traps"].x_positions) != cols(nx, 4.0, 1.0)[0::2]
                or list(l["right_traps"].x_positions) != cols(nx, 4.0, 1.0)[1::2]):
            ctx.fail(case, "left/right trap columns of a wide two-column layout are not the documented ones")
    for s in (10.0, 8.0, 4.0, 25.0):
        for form, sp in (("get_spec(3, 2, s)", two_col_zone.get_spec(3, 2, s)), ("get_spec(3, 2, spacing=s)", two_col_zone.get_spec(3, 2, spacing=s))):
            ctx.count("default_gate_spacing_forms")
            if list(sp.layout.static_traps["traps"].x_positions) != cols(3, s, 2.0):
                ctx.fail({"builder": "two_col_zone.get_spec", "call": form, "spacing": s},
                         "with the gate spacing omitted, pairs are not the documented default 2.0 apart")
    for gs in (2.0, 1.0, 3.5):
        sp = two_col_zone.get_spec(3, 2, gate_spacing=gs)
        ctx.count("default_gate_spacing_forms")
        if list(sp.layout.static_traps["traps"].x_positions) != cols(3, 10.0, gs):
            ctx.fail({"builder": "two_col_zone.get_spec", "call": "get_spec(3, 2, gate_spacing=gs)", "gate_spacing": gs},
                     "with the spacing omitted, pairs are not the documented default 10.0 apart")


def run(ctx):
    from bloqade.shuttle.stdlib.layouts import single_col_zone, two_col_zone
    from bloqade.shuttle.stdlib.layouts.gemini import base_spec, logical
    with warnings.catch_warnings():
        warnings.simplefilter("ignore")
        from bloqade.shuttle.stdlib import spec as old_spec
    N = 8 if ctx.tier == "thorough" else 5
    spacings = [Fraction(10), Fraction(1, 2), Fraction(3), Fraction(25, 4)]
    gates = [Fraction(2), Fraction(1, 2), Fraction(5)]
    reqs, impls, metas = [], [], []
    for nx, ny, s in itertools.product(range(1, N + 1), range(1, N + 1), spacings):
        case = {"builder": "single_col_zone.get_spec", "args": [nx, ny, str(s)]}
        try:
            sp = single_col_zone.get_spec(nx, ny, float(s))
        except Exception as e:  # noqa: BLE001
            ctx.fail(case, f"single-zone builder raises on valid arguments: {type(e).__name__}: {str(e)[:120]}")
            continue
        reqs.append(f"(C14 (single {nx} {ny} {sx(s)}))")
        impls.append(canon_spec(sp))
        metas.append(case)
        ctx.seen(("single", nx, ny, s), nx * ny > 1)
        # documented geometry: num_x x num_y sites at i*s, j*s
        want = [(i * s, j * s) for i in range(nx) for j in range(ny)]
        if sites(sp.layout.static_traps["traps"]) != want:
            ctx.fail(case, "single-zone sites are not i*spacing, j*spacing")
        caps_ok(ctx, sp, case)
        old = old_spec.single_zone_spec(nx, ny, float(s))
        reqs.append(f"(C14 (single_old {nx} {ny} {sx(s)}))")
        impls.append(canon_spec(old))
        metas.append({"builder": "stdlib.spec.single_zone_spec", "args": [nx, ny, str(s)]})
        if not (old == sp and canon_spec(old) == canon_spec(sp)):
            ctx.fail(case, "deprecated single_zone_spec differs from single_col_zone.get_spec")
        ctx.count("single")
    for nx, ny, s, gs in itertools.product(range(1, N + 1), range(1, N + 1), spacings[:3], gates):
        case = {"builder": "two_col_zone.get_spec", "args": [nx, ny, str(s), str(gs)]}
        try:
            sp = two_col_zone.get_spec(nx, ny, float(s), float(gs))
        except Exception as e:  # noqa: BLE001
            ctx.fail(case, f"two-column builder raises on valid arguments: {type(e).__name__}: {str(e)[:120]}")
            continue
        reqs.append(f"(C14 (twocol {nx} {ny} {sx(s)} {sx(gs)}))")
        impls.append(canon_spec(sp))
        metas.append(case)
        ctx.seen(("twocol", nx, ny, s, gs), True)
        l = sp.layout
        allp, left, right = sites(l.static_traps["traps"]), sites(l.static_traps["left_traps"]), sites(l.static_traps["right_traps"])
        want_left = [(i * (s + gs), j * s) for i in range(nx) for j in range(ny)]
        want_right = [(i * (s + gs) + gs, j * s) for i in range(nx) for j in range(ny)]
        if left != want_left or right != want_right:
            ctx.fail(case, "left/right trap sites are not pairs gate_spacing apart, pairs spacing apart")
        if sorted(left + right) != sorted(allp) or set(left) & set(right) or len(allp) != 2 * nx * ny:
            ctx.fail(case, "left/right traps do not partition the trap zone")
        caps_ok(ctx, sp, case)
        ctx.count("twocol")
    numeric_stream(ctx, single_col_zone, two_col_zone, old_spec)
    wide_and_default_stream(ctx, two_col_zone)
    fresh_results(ctx, single_col_zone, two_col_zone, old_spec, base_spec, logical)
    try:
        gemini(ctx, base_spec.get_base_spec(), logical.get_spec(), reqs, impls, metas)
    except (KeyError, AttributeError, ValueError, IndexError) as ex:
        ctx.fail({"builder": "gemini", "history": "after earlier results were modified by their caller"},
                 f"Gemini builder output is malformed ({type(ex).__name__}: {ex})")
    model = ctx.driver(reqs)
    ctx.traces_validated = len(reqs)
    for case, i, m in zip(metas, impls, model):
        if m.startswith("bad"):
            raise HarnessFault("driver rejected a builder request")
        if i != m:
            ctx.disagree(case, i[:600], m[:600], "builder output vs model of the builder")
    for k in (0, len(reqs) // 2, len(reqs) - 1):
        ctx.sample({"request": reqs[k], "impl": impls[k][:300], "model": model[k][:300]})
    ctx.exhaustive = True


def scribble(s):
    """mutate everything mutable that a builder result exposes"""
    s.float_constants["gate_spacing"] = 3.0
    s.float_constants["verif_extra"] = 1.0
    s.int_constants["code_size"] = 99
    l = s.layout
    l.static_traps["verif_extra"] = next(iter(l.static_traps.values())).shift(1000.0, 0.0)
    l.special_grid.clear()
    l.fillable.add("verif_extra")
    l.has_cz.clear()
    l.has_local.add("verif_extra")


def fresh_results(ctx, single_col_zone, two_col_zone, old_spec, base_spec, logical):
    """A builder's output must not depend on what a caller did to an earlier output:
    call, scribble over the result, call again, compare with the first answer."""
    builders = [("single_col_zone.get_spec(3,2)", lambda: single_col_zone.get_spec(3, 2)),
                ("two_col_zone.get_spec(3,2)", lambda: two_col_zone.get_spec(3, 2)),
                ("stdlib.spec.single_zone_spec(3,2)", lambda: old_spec.single_zone_spec(3, 2)),
                ("gemini.get_base_spec()", base_spec.get_base_spec),
                ("gemini.logical.get_spec()", logical.get_spec)]
    for name, b in builders:
        try:
            first = b()
            want = canon_spec(first)
        except Exception as ex:  # noqa: BLE001
            ctx.fail({"builder": name, "history": "after results of other builders were modified by their caller"},
                     f"{name} fails after an earlier builder result was modified ({type(ex).__name__}: {ex})")
            continue
        scribble(first)
        for rnd in (2, 3):
            try:
                again = b()
                canon_spec(again)
            except Exception as ex:  # noqa: BLE001
                ctx.fail({"builder": name, "history": "call, mutate the returned spec, call again"},
                         f"{name} fails after an earlier result was modified ({type(ex).__name__})")
                break
            ctx.count("rebuilds")
            ctx.seen(("rebuild", name, rnd), True)
            if canon_spec(again) != want:
                ctx.fail({"builder": name, "history": "call, mutate the returned spec, call again"},
                         f"{name} returns a different spec after an earlier result was modified")
                break
            scribble(again)
        # undo the damage for cached builders (none today): a later check must see a clean state
    return


def gemini(ctx, base, logi, reqs, impls, metas):
    reqs.append("(C14 (gemini base))")
    impls.append(canon_spec(base))
    metas.append({"builder": "gemini.get_base_spec"})
    reqs.append("(C14 (gemini logical))")
    impls.append(canon_spec(logi))
    metas.append({"builder": "gemini.logical.get_spec"})
    ctx.seen("gemini-base", True)
    ctx.seen("gemini-logical", True)
    for name, s in (("base", base), ("logical", logi)):
        case = {"builder": f"gemini {name}"}
        caps_ok(ctx, s, case)
        fc = s.float_constants
        gz = s.layout.static_traps["gate_zone"]
        xs = [frac(x) for x in gz.x_positions]
        ys = [frac(y) for y in gz.y_positions]
        # constants agree with the geometry
        if any(ys[j + 1] - ys[j] != frac(fc["row_separation"]) for j in range(len(ys) - 1)):
            ctx.fail(case, "row_separation constant disagrees with the gate zone rows")
        if any(xs[2 * i + 1] - xs[2 * i] != frac(fc["gate_spacing"]) for i in range(len(xs) // 2)):
            ctx.fail(case, "gate_spacing constant disagrees with the gate zone pairs")
        if any(xs[2 * i + 2] - xs[2 * i + 1] != frac(fc["col_separation"]) for i in range(len(xs) // 2 - 1)):
            ctx.fail(case, "col_separation constant disagrees with the gate zone columns")
        if gz.shape != (34, 5):
            ctx.fail(case, f"gate zone shape {gz.shape} != documented (34, 5)")
    case = {"builder": "gemini logical"}
    st, sg = logi.layout.static_traps, logi.layout.special_grid
    ic = logi.int_constants
    parents = {"G": "gate_zone", "S": "top_reservoir", "M": "bottom_reservoir"}
    for n, z in st.items():
        if n.endswith("_block"):
            par = st[parents[n[0]]]
            root = z
            while getattr(root, "parent", None) is not None:
                root = root.parent
            if not set(sites(z)) <= set(sites(par)) or root is z or not (root == par):
                # a view object (directly or through other views) of the documented zone, not merely a grid on its sites
                ctx.fail(case, f"{n} is not a view of {parents[n[0]]}")
            if z.shape != (ic["code_size"], ic["logical_rows"]):
                ctx.fail(case, f"{n} has shape {z.shape}, documented block size is (code_size, logical_rows) = "
                               f"({ic['code_size']}, {ic['logical_rows']})")
    for n in ("AOM0_block", "AOM1_block"):
        root = sg[n]
        while getattr(root, "parent", None) is not None:
            root = root.parent
        if (not set(sites(sg[n])) <= set(sites(sg["aom_sites"])) or sg[n].shape != (ic["code_size"], ic["logical_rows"])
                or root is sg[n] or not (root == sg["aom_sites"])):
            ctx.fail(case, f"{n} is not a code_size x logical_rows view of aom_sites")
    for side, off in (("L", 0), ("R", 1)):
        for b in (0, 1):
            g = st[f"G{side}{b}_block"]
            want_x = [frac(x) for x in st["gate_zone"].x_positions][off::2][2 + 7 * b: 2 + 7 * (b + 1)]
            if [frac(x) for x in g.x_positions] != want_x:
                ctx.fail(case, f"G{side}{b}_block columns are not the documented columns of the gate zone")
    # the two logical blocks of each side together are GL_blocks / GR_blocks (logical_cols * code_size columns)
    for side in ("L", "R"):
        whole = st[f"G{side}_blocks"]
        parts = sites(st[f"G{side}0_block"]) + sites(st[f"G{side}1_block"])
        if whole.shape != (ic["logical_cols"] * ic["code_size"], ic["logical_rows"]) or sorted(sites(whole)) != sorted(parts):
            ctx.fail(case, f"G{side}_blocks (shape {whole.shape}) is not the union of its logical_cols = {ic['logical_cols']} "
                           f"blocks of code_size x logical_rows sites")
    # left/right blocks pair up gate_spacing apart
    for b in (0, 1):
        lx = [frac(x) for x in st[f"GL{b}_block"].x_positions]
        rx = [frac(x) for x in st[f"GR{b}_block"].x_positions]
        if [r - l for l, r in zip(lx, rx)] != [frac(logi.float_constants["gate_spacing"])] * 7:
            ctx.fail(case, "GL/GR block columns are not gate_spacing apart")
    if ic["logical_cols"] != 2:
        ctx.fail(case, "logical_cols constant is not 2 (two logical blocks)")
    ctx.count("gemini_checks")
