"""C15 — a tracer instance can be reused without cross-talk."""
import copy

from ..core import HarnessFault
from .. import tweezer as T

ID = "C15"
MODULES = ["Shuttle.Props.C15"]
RULE = ("seeded histories of 2-12 run_trace calls on ONE TraceInterpreter instance, mixing kernels, argument tuples, "
        "successful traces and the failure kinds (use before set_loc, shape change, failing assert/grid operation, a call that "
        "fails while binding its arguments), the same call repeated directly and after failing calls, one history of several "
        "hundred calls, one of long traces (tens of thousands of interpreted statements), calls made from a Python stack deeper "
        "than the instance's recursion limit; "
        "each result is compared with a fresh instance's and with the model's history; every returned path is "
        "deep-copied at return time and re-compared with the live object after every later call. "
        "non-trivial = history containing a failing call followed by a successful one; distinct = distinct histories.")
TRUSTED = ["modelled, not verified: kirin interpreter loop (run() calling initialize()), bloqade-geometry Grid"]
ASSUMPTIONS = ["calls that fail while binding their arguments are exercised on the implementation only (the Lean models start at "
               "the kernel's first statement)"]


BUDGET_SRC = T.PRELUDE + '''
@tweezer
def sweep(g: grid.Grid[Any, Any], n: int):
    action.set_loc(g)
    action.turn_on(action.ALL, action.ALL)
    for i in range(n):
        action.move(grid.shift(g, 0.5 * i, 0.0))
    action.turn_off(action.ALL, action.ALL)

@tweezer
def early(g: grid.Grid[Any, Any], n: int):
    action.move(g)

# kernels of a user-side extension of the tweezer group, and a plain kernel that receives one of them as a value
from kirin.dialects import vmath
vtweezer = tweezer.add(vmath)

@vtweezer
def slide(xs: ilist.IList[float, Any], d: float):
    action.set_loc(grid.from_positions(xs, [0.0]))
    action.turn_on(action.ALL, action.ALL)
    action.move(grid.from_positions(vmath.offset(xs, d), [0.0]))
    action.turn_off(action.ALL, action.ALL)

@vtweezer
def slide_from_here(xs: ilist.IList[float, Any], d: float):
    action.move(grid.from_positions(vmath.offset(xs, d), [0.0]))

@tweezer
def pick_and_apply(f, xs: ilist.IList[float, Any], d: float):
    action.set_loc(grid.from_positions(xs, [0.0]))
    action.turn_on(action.ALL, action.ALL)
    f(xs, d)
    action.turn_off(action.ALL, action.ALL)
'''


def budget_stream(ctx, spec):
    """nothing an instance has is used up by earlier calls: many long traces on one instance (tens of thousands of interpreted
    statements in total), and calls that fail for reasons outside the kernel (made from a Python stack deeper than the
    instance's own recursion limit), each followed by calls that must equal a fresh instance's"""
    import sys
    from bloqade.geometry.dialects.grid import Grid
    from bloqade.shuttle.codegen import TraceInterpreter
    mod = T.load_source(BUDGET_SRC, "c15b")
    g = Grid.from_positions([0.0, 2.0], [0.0, 1.0])

    def outcome(it, mt, args):
        try:
            return "ok " + T.canon_path(it.run_trace(mt, args, {}))
        except Exception as e:  # noqa: BLE001
            return "err " + type(e).__name__

    it = TraceInterpreter(spec)
    n_calls = 40 if ctx.tier == "thorough" else 14
    for k in range(n_calls):
        mt, args = (mod.early, (g, 1)) if k % 5 == 4 else (mod.sweep, (g, 300 + 10 * (k % 3)))
        got, want = outcome(it, mt, args), outcome(TraceInterpreter(spec), mt, args)
        ctx.count("budget_calls")
        if got != want:
            ctx.fail({"source": BUDGET_SRC[len(T.PRELUDE):], "history": f"{k} earlier calls of sweep(g, ~300) / early(g, 1) on one instance",
                      "call": [mt.sym_name, args[1]]},
                     f"call {k + 1} of a history of long traces on one instance differs from a fresh instance: reused={got[:120]} fresh={want[:120]}")
            break
    # kernels written against an extension of the tweezer group, mixed with plain ones: whatever a call of the one kind does
    # to the instance, the next call behaves as on a fresh instance
    from kirin.dialects import ilist as _il
    xs = _il.IList([0.0, 2.0])
    it3 = TraceInterpreter(spec)
    hist = [(mod.slide, (xs, 1.0)), (mod.pick_and_apply, (mod.slide_from_here, xs, 1.0)), (mod.sweep, (g, 2)),
            (mod.early, (g, 1)), (mod.pick_and_apply, (mod.slide_from_here, xs, 0.5)), (mod.slide, (xs, 2.0)), (mod.sweep, (g, 3))]
    for k, (mt, args) in enumerate(hist):
        got, want = outcome(it3, mt, args), outcome(TraceInterpreter(spec), mt, args)
        ctx.count("extended_group_history_calls")
        ctx.count("extended_group_call_" + want.split(" ")[0])
        if got != want:
            ctx.fail({"source": BUDGET_SRC[len(T.PRELUDE):],
                      "history": [m.sym_name for m, _ in hist[:k + 1]]},
                     f"call {k + 1} ({mt.sym_name}) of a history mixing kernels of an extended tweezer group with plain ones differs "
                     f"from a fresh instance: reused={got[:120]} fresh={want[:120]}")
            break
    # an instance with a small call-depth limit: failing calls must not eat into it
    it4 = TraceInterpreter(spec, max_depth=8)
    for k in range(14):
        mt, args = (mod.sweep, (g, 2)) if k in (0, 6, 13) else (mod.early, (g, 1))
        got, want = outcome(it4, mt, args), outcome(TraceInterpreter(spec, max_depth=8), mt, args)
        ctx.count("small_depth_limit_calls")
        if got != want:
            ctx.fail({"source": BUDGET_SRC[len(T.PRELUDE):], "history": f"TraceInterpreter(spec, max_depth=8): {k} earlier calls, most of them failing"},
                     f"call {k + 1} on an instance with max_depth=8 differs from a fresh instance: reused={got[:120]} fresh={want[:120]}")
            break
    # a call made from a stack deeper than the instance's recursion limit fails before the kernel starts
    limit0 = sys.getrecursionlimit()
    try:
        it2 = TraceInterpreter(spec, max_python_recursion_depth=300)

        def deep(d):
            return deep(d - 1) if d > 0 else outcome(it2, mod.sweep, (g, 2))
        for rep in range(2):
            sys.setrecursionlimit(max(limit0, 3000))
            first = deep(450)
            sys.setrecursionlimit(limit0)
            ctx.count("deep_stack_calls")
            ctx.count("deep_stack_call_" + first.split(" ")[0])
            got = outcome(it2, mod.sweep, (g, 2))
            sys.setrecursionlimit(limit0)
            want = outcome(TraceInterpreter(spec, max_python_recursion_depth=300), mod.sweep, (g, 2))
            sys.setrecursionlimit(limit0)
            if got != want:
                ctx.fail({"source": BUDGET_SRC[len(T.PRELUDE):],
                          "history": "TraceInterpreter(spec, max_python_recursion_depth=300): sweep(g, 2) called from 450 nested frames "
                                     f"({first[:60]}), then sweep(g, 2) called normally"},
                         f"after a call made from a deep stack the instance differs from a fresh one: reused={got[:120]} fresh={want[:120]}")
                break
    finally:
        sys.setrecursionlimit(limit0)


def err_text(e) -> str:
    """exception type and message, without memory addresses"""
    import re
    return type(e).__name__ + ": " + re.sub(r"0x[0-9a-fA-F]+", "0x", str(e))


def run(ctx):
    from bloqade.shuttle.codegen import TraceInterpreter
    spec = T.default_spec()
    traps, zones = T.spec_tables(spec)
    g = T.Gen(ctx.rng, zones)
    n_hist = 400 if ctx.tier == "thorough" else 50
    if ctx.replay_case is not None:
        n_hist = 0
    # a pool of compiled programs with argument sets; fresh-instance results come with them
    pool = []
    for _ in range(n_hist // 2 + 4 if n_hist else 0):
        kernels, shape = g.program()
        arg_sets = [g.args_for(kernels[-1], shape) for _ in range(3)]
        pool += T.trace_program(ctx, spec, traps, kernels, arg_sets)
    hist_reqs, hist_impl, hist_meta = [], [], []
    for h in range(n_hist):
        k = ctx.rng.randrange(2, 13)
        if h == 0 and pool:
            k = 1500 if ctx.tier == "thorough" else 500     # one long-lived instance: hundreds of calls
        calls = [ctx.rng.choice(pool) for _ in range(k)]
        # repetitions: the very same call again, directly and after other (failing) calls
        failing = [c for c in pool if c.impl == "err"]
        for _ in range(ctx.rng.randrange(0, 3)):
            i = ctx.rng.randrange(len(calls))
            x = calls[i]
            mid = [ctx.rng.choice(failing)] * ctx.rng.randrange(0, 3) if failing else []
            calls[i + 1:i + 1] = mid + [x]
            ctx.count("repeated_call_in_history")
        it = TraceInterpreter(spec)
        results = []     # (live object, deep copy at return time)
        shown = []
        case = {"history": [c.as_case() for c in calls]}
        for c in calls:
            if ctx.rng.random() < 0.08 and len(c.rargs) >= 1:
                # a call that fails before the kernel runs: an argument is missing (it is neither a success nor one of the
                # kernel-level failures; the instance must be as good as new afterwards)
                ctx.count("calls_with_missing_argument")
                try:
                    it.run_trace(c.mt, (), {"no_such_parameter": 1})
                except Exception:  # noqa: BLE001
                    pass
            if ctx.rng.random() < 0.15:
                # the SAME kernel first with arguments on which it fails (a grid of another shape), then with the good ones
                from bloqade.geometry.dialects.grid import Grid
                bad = tuple(Grid.from_positions([0.0, 1.0, 2.0, 3.0, 4.0], [0.0, 1.0, 2.0, 3.0, 4.0]) if isinstance(a, Grid) else a
                            for a in c.rargs)
                ctx.count("same_kernel_with_other_arguments_first")
                try:
                    it.run_trace(c.mt, bad, {})
                    ctx.count("same_kernel_other_arguments_succeeded")
                except Exception:  # noqa: BLE001
                    ctx.count("same_kernel_other_arguments_failed")
            try:
                p = it.run_trace(c.mt, c.rargs, {})
                live = p
                results.append((live, copy.deepcopy(live)))
                shown.append("(ok " + T.canon_path(p) + ")")
                r = "ok " + T.canon_path(p)
            except Exception as e1:  # noqa: BLE001
                shown.append("err")
                r = "err"
                # the failure itself is the call's result: same exception type and text as on a fresh instance
                try:
                    TraceInterpreter(spec).run_trace(c.mt, c.rargs, {})
                    e0 = None
                except Exception as e2:  # noqa: BLE001
                    e0 = e2
                ctx.count("failing_calls_compared_with_fresh_failure")
                if e0 is not None and err_text(e0) != err_text(e1):
                    ctx.fail(case, f"call {len(shown)} of a history on one instance fails differently than on a fresh instance: "
                                   f"reused={err_text(e1)[:200]} fresh={err_text(e0)[:200]}")
            if r != c.impl:
                ctx.fail(case, f"call {len(shown)} of a history on one instance differs from a fresh instance: "
                               f"reused={r[:300]} fresh={c.impl[:300]}")
            # earlier results must be untouched
            for j, (live, snap) in enumerate(results[:-1] if r != "err" else results):
                if live != snap or T.canon_path(live) != T.canon_path(snap):
                    ctx.fail(case, f"path returned by call {j + 1} was modified by a later call")
        errs = [s == "err" for s in shown]
        nontrivial = any(e and (not all(errs[i + 1:])) for i, e in enumerate(errs[:-1]))
        ctx.seen(tuple(c.req for c in calls), nontrivial)
        ctx.count("histories")
        ctx.count("calls", k)
        ctx.count("failing_calls", sum(errs))
        hist_reqs.append("(C02 (hist " + " ".join(c.req for c in calls) + "))")
        hist_impl.append("(" + " ".join(shown) + ")")
        hist_meta.append((case, [c.kernel_error for c in calls]))
    if ctx.replay_case is None:
        budget_stream(ctx, spec)
    model = ctx.driver(hist_reqs)
    ctx.traces_validated = len(hist_reqs)
    for (case, kerrs), i, m in zip(hist_meta, hist_impl, model):
        if m.startswith("bad"):
            raise HarnessFault("driver rejected a history")
        if any(kerrs):
            continue  # a source-level assert failure is outside the op-sequence model; compared vs fresh above
        if i != m:
            ctx.disagree(case, i[:600], m[:600], "history on one instance vs model")
    if hist_reqs:
        ctx.sample({"history_ops": hist_reqs[0][:500], "results": hist_impl[0][:500]})
    if ctx.replay_case is None and ctx.counts.get("failing_calls", 0) < 10:
        raise HarnessFault("generator degenerate: too few failing calls in histories")
