"""C03 — schedule→path lowering preserves calls, grouping, order and arguments."""
import itertools

from ..core import HarnessFault
from ..sexp import sx
from .. import tweezer as T

ID = "C03"
MODULES = ["Shuttle.Props.C03"]
RULE = ("region trees over {parallel, auto}: exhaustive up to depth 2 / width 2 (thorough: depth 3 / width 2 plus width 3 at "
        "depth 2) with forward / reversed device functions, positional / keyword / permuted-keyword calls and direct kernel "
        "invocations inside auto, interleaved with gates and wrapped in branches / loops, plus seeded random trees of depth "
        "<= 5 and width <= 4; each is compiled by the real @move(fold=False) and @move, and the path.Gen / Parallel / Auto / "
        "Play statements, their operand wiring, kwargs and argument order are read off the compiled IR and compared with the "
        "pass model and with the specification; plus a three-parameter kernel called with every keyword order, directly inside auto "
        "and through device functions of every provenance (made in the kernel, reversed, aliased, kernel argument, captured object, "
        "returned by a helper), at top level and inside both block kinds, compiled with fold / default / verify=False. non-trivial = tree with a nested block; distinct = distinct trees.")
TRUSTED = ["modelled, not verified: kirin's Walk/Fixpoint/Chain rewrite drivers (post-order, regions before their statement), "
           "Statement.delete/detach/insert and global use counts; CSE/DCE afterwards (only pure statements, see C04)"]
ASSUMPTIONS = ["call sites are told apart by a distinct integer literal argument"]

HDR = '''from typing import Any
from bloqade.geometry.dialects import grid
from kirin.dialects import ilist
from bloqade.shuttle import action, gate, schedule, spec
from bloqade.shuttle.prelude import tweezer, move

@tweezer
def tk(g: grid.Grid[Any, Any], n: int):
    action.set_loc(g)
    action.move(grid.shift(g, 1.0 * n, 0.0))

'''


# ---------------------------------------------------------------------------- trees
# ('call', id, style, rev) | ('invoke', id) | ('region', kind, [..]) | ('other', tag) | ('ctrl', tag, 'if'|'for', [[..],[..]])
STYLES = ["pos", "kw_n", "kw_both", "kw_swapped"]


def wire(t):
    k = t[0]
    if k == "call":
        return ("call", t[1])
    if k == "invoke":
        return ("invoke", t[1])
    if k == "region":
        return ("region", t[1]) + tuple(wire(c) for c in t[2])
    if k == "other":
        return ("other", t[1])
    if k == "ctrl":
        return ("ctrl", t[1]) + tuple([wire(c) for c in b] for b in t[3])
    raise ValueError(t)


def emit(ts, ind, out):
    pad = "    " * ind
    for t in ts:
        k = t[0]
        if k == "call":
            f = "dr" if t[3] else "df"
            args = {"pos": f"z, {t[1]}", "kw_n": f"z, n={t[1]}", "kw_both": f"g=z, n={t[1]}", "kw_swapped": f"n={t[1]}, g=z"}[t[2]]
            out.append(f"{pad}{f}({args})")
        elif k == "invoke":
            out.append(f"{pad}tk(z, {t[1]})")
        elif k == "region":
            out.append(f"{pad}with schedule.{t[1]}():")
            emit(t[2], ind + 1, out)
        elif k == "other":
            out.append(f"{pad}gate.global_rz({t[1]}.0)")
        elif k == "ctrl":
            if t[2] == "if":
                out.append(f"{pad}if b:")
                emit(t[3][0], ind + 1, out) if t[3][0] else out.append(f"{pad}    u{t[1]} = 0")
                out.append(f"{pad}else:")
                emit(t[3][1], ind + 1, out) if t[3][1] else out.append(f"{pad}    u{t[1]} = 1")
            else:
                out.append(f"{pad}c{t[1]} = 0")
                out.append(f"{pad}for k{t[1]} in range(n):")
                out.append(f"{pad}    c{t[1]} = c{t[1]} + 1")
                emit(t[3][0], ind + 1, out)
    return out


def source(ts, opts):
    body = emit(ts, 1, [])
    return (HDR + f"@move{opts}\ndef prog(n: int, b: bool):\n"
            "    df = schedule.device_fn(tk, ilist.IList([0]), ilist.IList([0]))\n"
            "    dr = schedule.reverse(df)\n"
            '    z = spec.get_static_trap(zone_id="traps")\n' + "\n".join(body) + "\n")


class Ids:
    def __init__(self):
        self.n = 100

    def next(self):
        self.n += 1
        return self.n


def shapes(depth, width):
    """all region-tree shapes: a node is a leaf ('c') or a region of kind k with 1..width children"""
    if depth == 0:
        return ["c"]
    out = ["c"]
    sub = shapes(depth - 1, width)
    for k in ("parallel", "auto"):
        for w in range(1, width + 1):
            for combo in itertools.product(sub, repeat=w):
                out.append((k, list(combo)))
    return out


def instantiate(shape, ids, rng, in_kind=None):
    if shape == "c":
        if in_kind == "auto" and rng.random() < 0.3:
            return ("invoke", ids.next())
        return ("call", ids.next(), rng.choice(STYLES), rng.random() < 0.3)
    return dup_calls(("region", shape[0], [instantiate(c, ids, rng, shape[0]) for c in shape[1]]), rng)


def dup_calls(region, rng):
    """sometimes repeat a call of the block verbatim (same callee, arguments and keywords): each call
    still has to yield its own member"""
    kids = region[2]
    calls = [c for c in kids if c[0] in ("call", "invoke")]
    if calls and rng.random() < 0.3:
        kids = list(kids)
        kids.insert(rng.randrange(0, len(kids) + 1), rng.choice(calls))
        return (region[0], region[1], kids)
    return region


def rand_tree(rng, ids, depth, width, in_kind=None):
    if depth == 0 or rng.random() < 0.35:
        return instantiate("c", ids, rng, in_kind)
    k = rng.choice(["parallel", "auto"])
    return dup_calls(("region", k, [rand_tree(rng, ids, depth - 1, width, k) for _ in range(rng.randrange(1, width + 1))]), rng)


def wrap(rng, ids, tree):
    """a top-level statement list around one region tree: gates before/after, maybe inside a branch or loop"""
    pre = [("other", ids.next())] if rng.random() < 0.5 else []
    post = [("other", ids.next())] if rng.random() < 0.5 else []
    core = [tree]
    if rng.random() < 0.3:
        core = [("call", ids.next(), rng.choice(STYLES), False)] + core
    r = rng.random()
    if r < 0.2:
        core = [("ctrl", ids.next(), "if", [core, [("other", ids.next())]])]
    elif r < 0.35:
        core = [("ctrl", ids.next(), "for", [core])]
    return pre + core + post


# ---------------------------------------------------------------------------- reading the compiled IR
def read_ir(mt, calls):
    from kirin.dialects import func, py, scf
    from bloqade.shuttle.dialects import gate, path, schedule

    def const_of(v):
        o = getattr(v, "owner", None)
        if isinstance(o, py.Constant):
            x = o.value.unwrap() if hasattr(o.value, "unwrap") else o.value
            return x
        return None

    problems = []

    def path_e(v):
        o = v.owner
        if isinstance(o, path.Gen):
            cid = None
            for i in o.inputs:
                c = const_of(i)
                if isinstance(c, int) and not isinstance(c, bool) and c >= 100:
                    cid = c
            via = isinstance(o.device_task.owner, schedule.NewTweezerTask)
            if cid in calls:
                style = calls[cid]
                want_kw = {"pos": (), "kw_n": ("n",), "kw_both": ("g", "n"), "kw_swapped": ("n", "g"), "invoke": ()}[style[0]]
                if tuple(o.kwargs) != want_kw or len(o.inputs) != 2:
                    problems.append(f"call {cid}: kwargs {tuple(o.kwargs)} / {len(o.inputs)} inputs, source has {want_kw}")
                else:
                    # argument order: positional first, then in keyword order
                    order = {"pos": ["g", "n"], "kw_n": ["g", "n"], "kw_both": ["g", "n"], "kw_swapped": ["n", "g"], "invoke": ["g", "n"]}[style[0]]
                    got = ["n" if isinstance(const_of(i), int) else "g" for i in o.inputs]
                    if got != order:
                        problems.append(f"call {cid}: inputs reach the path as {got}, source order is {order}")
                if style[0] != "invoke":
                    src_val = o.device_task.owner.move_fn if via else o.device_task
                    cv = const_of(src_val)
                    rev = isinstance(src_val.owner, schedule.Reverse) or type(cv).__name__ == "ReverseDeviceFunction"
                    if type(src_val).__name__ == "BlockArgument":
                        pass    # carried into a loop / branch body: not resolvable statically (the paths themselves are C04's)
                    elif rev != style[1]:
                        problems.append(f"call {cid}: reversed={rev}, source has reversed={style[1]}")
            return f"(gen {cid} {'T' if via else 'F'})"
        if isinstance(o, (path.Parallel, path.Auto)):
            kind = "parallel" if isinstance(o, path.Parallel) else "auto"
            return f"(group {kind}" + "".join(" " + path_e(p) for p in o.paths) + ")"
        return f"<{type(o).__name__}>"

    PURE = (py.Constant, path.Gen, path.Parallel, path.Auto, schedule.NewDeviceFunction, schedule.Reverse,
            schedule.NewTweezerTask, func.Return, scf.Yield, func.ConstantNone)

    def stmts(block_stmts):
        out = []
        for st in block_stmts:
            if isinstance(st, path.Play):
                out.append(f"(play {path_e(st.path)})")
            elif isinstance(st, gate.GlobalRz):
                c = const_of(st.rotation_angle)
                out.append(f"(other {int(c)})")
            elif isinstance(st, scf.IfElse):
                out.append(f"(ctrl ? ({' '.join(stmts(st.then_body.blocks[0].stmts))}) ({' '.join(stmts(st.else_body.blocks[0].stmts))}))")
            elif isinstance(st, scf.For):
                out.append(f"(ctrl ? ({' '.join(stmts(st.body.blocks[0].stmts))}))")
            elif isinstance(st, (schedule.Parallel, schedule.Auto)):
                out.append("(leftover schedule_region)")
            elif isinstance(st, (func.Call, func.Invoke)):
                out.append(f"(leftover {type(st).__name__})")
            elif isinstance(st, PURE) or type(st).__module__.startswith(("kirin.dialects.py", "kirin.dialects.ilist", "bloqade.shuttle.dialects.spec")):
                continue
            else:
                out.append(f"<{type(st).__name__}>")
        return out

    return "(" + " ".join(stmts(mt.callable_region.blocks[0].stmts)) + ")", problems


ARG_HDR = '''from typing import Any
from bloqade.geometry.dialects import grid
from kirin.dialects import ilist
from bloqade.shuttle import action, gate, schedule, spec
from bloqade.shuttle.prelude import tweezer, move

@tweezer
def tk3(g: grid.Grid[Any, Any], n: int, m: int):
    action.set_loc(g)
    action.move(grid.shift(g, 1.0 * n, 0.5 * m))

@move
def hop_device():
    return schedule.device_fn(tk3, ilist.IList([0, 1]), ilist.IList([0]))

captured = schedule.DeviceFunction(tk3, ilist.IList([0]), ilist.IList([0]))

'''

# every way of writing the three arguments (g, n, m): positional prefix, then keywords in any order
ARG_FORMS = [([], ["g", "n", "m"]), (["g"], ["n", "m"]), (["g"], ["m", "n"]), (["g", "n"], ["m"]), (["g", "n", "m"], []),
             ([], ["n", "m", "g"]), ([], ["m", "g", "n"]), ([], ["g", "m", "n"]), ([], ["n", "g", "m"]), ([], ["m", "n", "g"])]


def arg_stream(ctx):
    """a kernel with three parameters called with every keyword order, directly inside auto and through device functions of
    every provenance (made in the kernel, reversed, aliased, a kernel argument, a captured Python object, returned by a helper)"""
    from bloqade.shuttle.dialects import path, schedule as sched
    from kirin.dialects import func, py
    callees = ["tk3", "df", "dr", "al", "fa", "captured", "hd"]
    rng = ctx.rng
    for callee in callees:
        for where in ("top", "parallel", "auto"):
            if callee == "tk3" and where != "auto":
                continue
            calls, lines, cid = {}, [], 100
            forms = ARG_FORMS if ctx.tier == "thorough" else rng.sample(ARG_FORMS, 5)
            for pos, kw in forms:
                cid += 1
                val = {"g": "z", "n": str(cid), "m": "7"}
                args = [val[a] for a in pos] + [f"{a}={val[a]}" for a in kw]
                lines.append(f"{callee}({', '.join(args)})")
                calls[cid] = (pos, kw)
            ind = "    " if where == "top" else "        "
            body = ([] if where == "top" else [f"    with schedule.{where}():"]) + [ind + l for l in lines]
            for opts in ("(fold=False)", "", "(verify=False)", "(typeinfer=False)", "(typeinfer=False, verify=False)"):
                # the device functions the body does not use are not created: a kernel may contain nothing of the schedule
                # dialect except the call of a captured / parameter device function
                pre = ("    df = schedule.device_fn(tk3, ilist.IList([0]), ilist.IList([0]))\n" if callee in ("df", "dr", "al") else "") + \
                      ("    dr = schedule.reverse(df)\n" if callee == "dr" else "") + ("    al = df\n" if callee == "al" else "") + \
                      ("    hd = hop_device()\n" if callee == "hd" else "")
                src = (ARG_HDR + f"@move{opts}\ndef prog(b: bool, fa: schedule.DeviceFunction):\n" + pre +
                       '    z = spec.get_static_trap(zone_id="traps")\n' + "\n".join(body) + "\n")
                case = {"source": src[len(ARG_HDR):], "options": opts or "(default)", "callee": callee, "where": where}
                ctx.count("arg_stream_programs")
                try:
                    mod = T.load_source(src, "c03a")
                except Exception as e:  # noqa: BLE001
                    ctx.fail(case, f"a kernel whose calls are all valid does not compile: {type(e).__name__}: {str(e)[:160]}")
                    continue
                gens = [st for st in mod.prog.callable_region.walk() if isinstance(st, path.Gen)]
                plays = [st for st in mod.prog.callable_region.walk() if isinstance(st, path.Play)]
                left = [st for st in mod.prog.callable_region.walk() if isinstance(st, (func.Call, sched.Parallel, sched.Auto))
                        or (isinstance(st, func.Invoke) and st.callee.sym_name == "tk3")]
                if left:
                    ctx.fail(case, f"{len(left)} call(s) / schedule region(s) are left in the compiled kernel: {type(left[0]).__name__}")
                if len(plays) != (len(calls) if where == "top" else 1):
                    ctx.fail(case, f"{len(plays)} play statement(s) for {len(calls)} call(s) written {where}")
                seen = set()
                for o in gens:
                    def const_of(v):
                        ow = getattr(v, "owner", None)
                        return ow.value.unwrap() if isinstance(ow, py.Constant) and hasattr(ow.value, "unwrap") else None
                    ids = [const_of(i) for i in o.inputs]
                    c = next((x for x in ids if isinstance(x, int) and not isinstance(x, bool) and x >= 100), None)
                    if c not in calls:
                        continue
                    seen.add(c)
                    pos, kw = calls[c]
                    want = pos + kw
                    got = ["n" if (isinstance(x, int) and x >= 100) else "m" if x == 7 else "g" for x in ids]
                    if tuple(o.kwargs) != tuple(kw) or got != want:
                        ctx.fail(case, f"call {c} written ({', '.join(pos)} | {', '.join(kw)}) reaches its path as inputs {got} with "
                                       f"keyword names {tuple(o.kwargs)}")
                if seen != set(calls):
                    ctx.fail(case, f"calls {sorted(set(calls) - seen)} have no path.Gen in the compiled kernel")


def strip_ctrl_tags(s):
    import re
    return re.sub(r"\(ctrl \d+", "(ctrl ?", s)


def collect_calls(ts, acc):
    for t in ts:
        if t[0] == "call":
            acc[t[1]] = (t[2], t[3])
        elif t[0] == "invoke":
            acc[t[1]] = ("invoke", False)
        elif t[0] == "region":
            collect_calls(t[2], acc)
        elif t[0] == "ctrl":
            for b in t[3]:
                collect_calls(b, acc)
    return acc


def run(ctx):
    rng = ctx.rng
    thorough = ctx.tier == "thorough"
    programs = []
    sh = shapes(2, 2) if not thorough else shapes(2, 3) + shapes(3, 2)
    if not thorough and len(sh) > 160:
        sh = rng.sample(sh, 160)
    ctx.count("exhaustive_shapes", len(sh))
    for s in sh:
        ids = Ids()
        if s == "c":
            continue
        programs.append(wrap(rng, ids, instantiate(s, ids, rng)))
    for _ in range(600 if thorough else 80):
        ids = Ids()
        t = rand_tree(rng, ids, 5, 4)
        if t[0] != "region":
            t = ("region", rng.choice(["parallel", "auto"]), [t])
        programs.append(wrap(rng, ids, t))
    lines_l, lines_s, rows = [], [], []
    for ts in programs:
        calls = collect_calls(ts, {})
        w = " ".join(sx(wire(t)) for t in ts)
        for opts in ("(fold=False)", ""):
            src = source(ts, opts)
            case = {"source": src[len(HDR):], "options": opts or "(default)"}
            try:
                mod = T.load_source(src, "c03")
                got, problems = read_ir(mod.prog, calls)
            except Exception as e:  # noqa: BLE001
                got, problems = f"compile-error {type(e).__name__}: {str(e)[:120]}", []
                ctx.count("compile_error")
            lines_l.append(f"(C03 (lower {w}))")
            lines_s.append(f"(C03 (spec {w}))")
            rows.append((case, got, problems))
            nested = any(c[0] == "region" for t in ts if t[0] == "region" for c in t[2]) or "region" in repr(ts)[20:]
            ctx.seen((w, opts), nested)
            ctx.count("compiled")
    arg_stream(ctx)
    lowered = ctx.driver(lines_l)
    spec = ctx.driver(lines_s)
    ctx.traces_validated = len(rows)
    for (case, got, problems), lo, sp in zip(rows, lowered, spec):
        if lo.startswith("bad") or sp.startswith("bad"):
            raise HarnessFault("driver rejected a tree")
        lo2, sp2 = strip_ctrl_tags(lo), strip_ctrl_tags(sp)
        if got != lo2:
            ctx.disagree(case, got[:500], lo2[:500], "compiled IR vs pass model")
        if got != sp2:
            ctx.fail(case, f"compiled kernel is not the specified lowering: got={got[:400]} spec={sp2[:400]}")
        for pr in problems:
            ctx.fail(case, "arguments do not reach the generated path unchanged: " + pr)
    for k in (0, len(rows) // 2, len(rows) - 1):
        ctx.sample({"source": rows[k][0]["source"][:900], "options": rows[k][0]["options"], "ir": rows[k][1][:400]})
    if ctx.counts.get("compile_error", 0) > 0.05 * len(rows):
        raise HarnessFault(f"too many compile errors: {ctx.counts}")
