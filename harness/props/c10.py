"""C10 — zone analysis only attributes values to zones they belong to."""
import itertools

from ..core import HarnessFault
from ..sexp import frac, sx
from .. import tweezer as T

ID = "C10"
MODULES = ["Shuttle.Props.C10"]
RULE = ("seeded random straight-line kernels over several specs (zones that are views of other zones, special grids): valid and "
        "invalid static-trap lookups, sub_grid with ascending / repeated / unsorted / out-of-order index lists, slicing and "
        "integer indexing, views of views, shifts/scales (fallback), non-grid values, aliases, plus the same code inside "
        "branches, and kernels in which a value reaches its use through an if/else or a loop with a named zone on one side and a "
        "non-zone grid (from a subroutine or computed) on the other, run on every branch; each kernel compiled unfolded (@move) and with the spec folded in (@move(arch_spec=...)); the entries of "
        "ZoneAnalysis(...).run_analysis (and the hints HintZone leaves after the kernel had been hinted for a different spec first) are compared with the model's abstract values (unfolded) and, on both variants, checked "
        "against the per-SSA run-time values recorded by an instrumented spec interpreter. "
        "non-trivial = kernel with a view of a named zone; distinct = distinct (kernel, spec, variant).")
TRUSTED = ["modelled, not verified: kirin's Forward analysis driver, bloqade-geometry Grid/SubGrid (Model/Grid.lean), Layout index (C13)"]
ASSUMPTIONS = ["coordinates are dyadic rationals for which binary64 arithmetic is exact"]

SPEC_SLOT = None
HDR = '''from typing import Any
from bloqade.geometry.dialects import grid
from kirin.dialects import ilist
from bloqade.shuttle import filled, spec
from bloqade.shuttle.prelude import move
from harness.props import c10 as _C10

'''


def specs():
    from bloqade.geometry.dialects.grid import Grid
    from bloqade.shuttle.arch import ArchSpec, Layout
    A = Grid.from_positions([0.0, 2.0, 10.0, 12.0], [0.0, 10.0, 20.0])
    L_ = A.get_view([0, 2], [0, 1, 2])          # a zone that is a view of another zone
    B = Grid.from_positions([30.0, 31.0, 33.0], [1.0, 4.0])
    S = Grid.from_positions([-5.0, -4.0], [7.5, 8.0])
    # rows of M + columns of A = a grid with A's footprint and shape but a different interior (and no zone)
    M = Grid.from_positions([40.0, 44.0], [0.0, 5.0, 20.0])
    s0 = ArchSpec(layout=Layout({"A": A, "L": L_, "B": B, "M": M}, {"A"}, {"A"}, {"A"}, special_grid={"S": S}))
    C = Grid.from_positions([0.0, 1.0, 2.0], [0.0, 1.0, 2.0])
    s1 = ArchSpec(layout=Layout({"A": C, "B": B}, {"A"}, {"A"}, {"A"}))
    # the grids of s0 under other names (and one of them no zone at all): an attribution remembered across specs is wrong here
    s2 = ArchSpec(layout=Layout({"A": B, "B": A, "L": M}, {"A"}, {"A"}, {"A"}, special_grid={"S": L_}))
    return [s0, s1, s2]


# ---------------------------------------------------------------------------- programs
# statement kinds: ('trap', name) ('special', name) ('sub', v, xi, yi) ('item', v, ix, iy) ('op', v, dx, dy)
#                  ('shape', v) ('itemother', v) ('alias', v)
def gen_program(rng, spec):
    names = list(spec.layout.static_traps)
    shapes = {n: z.shape for n, z in spec.layout.static_traps.items()}
    prog = []
    grids = {}          # index -> shape
    n0 = rng.choice(names)
    prog.append(("trap", n0))
    grids[0] = shapes[n0]
    if len(names) > 1 and rng.random() < 0.3:
        # a grid made of one zone's columns and another zone's rows: it may share a zone's origin, extent and shape
        n1 = rng.choice([n for n in names if n != n0])
        prog.append(("trap", n1))
        grids[1] = shapes[n1]
        prog.append(("fp", 0, 1))
        grids[2] = (shapes[n0][0], shapes[n1][1])
    for _ in range(rng.randrange(2, 9)):
        r = rng.random()
        gi = rng.choice(list(grids)) if grids else None
        if r < 0.15:
            n = rng.choice(names)
            prog.append(("trap", n))
            grids[len(prog) - 1] = shapes[n]
        elif r < 0.22 and spec.layout.special_grid:
            n = rng.choice(list(spec.layout.special_grid))
            prog.append(("special", n))
            grids[len(prog) - 1] = spec.layout.special_grid[n].shape
        elif r < 0.50 and gi is not None:
            nx, ny = grids[gi]
            def idx(n):
                k = rng.randrange(1, min(n, 3) + 1)
                mode = rng.random()
                if mode < 0.6:
                    return sorted(rng.sample(range(n), k))
                if mode < 0.8:
                    return sorted(rng.choice(range(n)) for _ in range(k))      # repeated
                return rng.sample(range(n), k)                                  # any order
            xi, yi = idx(nx), idx(ny)
            prog.append(("sub", gi, xi, yi))
            grids[len(prog) - 1] = (len(xi), len(yi))
        elif r < 0.72 and gi is not None:
            nx, ny = grids[gi]
            def ix(n):
                if rng.random() < 0.4:
                    return ("i", rng.randrange(0, n)), 1
                a = rng.randrange(0, n)
                b = rng.randrange(a + 1, n + 1)
                st = rng.choice([None, None, 2, 3])
                # open-ended bounds (`::2`, `1:`, `:2`) as well as explicit ones
                if rng.random() < 0.4:
                    a = None
                if rng.random() < 0.4:
                    b = None
                return ("sl", a, b, st), len(range(n)[a:b:st])
            (i1, n1), (i2, n2) = ix(nx), ix(ny)
            if rng.random() < 0.25:
                # both axes full range, with or without a stride: `g[::2, :]`, `g[:, ::3]`, `g[:, :]`
                s1, s2 = rng.choice([None, 2, 3]), rng.choice([None, None, 2])
                (i1, n1), (i2, n2) = (("sl", None, None, s1), len(range(nx)[::s1])), (("sl", None, None, s2), len(range(ny)[::s2]))
            prog.append(("item", gi, i1, i2))
            grids[len(prog) - 1] = (n1, n2)
        elif r < 0.82 and gi is not None:
            prog.append(("op", gi, rng.choice([0, 1, 2]) * 0.5, rng.choice([0, -1]) * 1.0))
            grids[len(prog) - 1] = grids[gi]
        elif r < 0.87 and gi is not None and len(grids) > 1:
            gj = rng.choice(list(grids))
            prog.append(("fp", gi, gj))        # a grid built from the columns of one grid and the rows of another
            grids[len(prog) - 1] = (grids[gi][0], grids[gj][1])
        elif r < 0.92 and gi is not None:
            prog.append(("shape", gi))
            if rng.random() < 0.5:
                prog.append(("itemother", len(prog) - 1))
        elif gi is not None:
            prog.append(("alias", gi))
            grids[len(prog) - 1] = grids[gi]
    if rng.random() < 0.25:
        # an invalid static-trap name (unknown, or the name of a special grid): nothing after it is computed
        prog.append(("trap", rng.choice(["zz"] + list(spec.layout.special_grid))))
        if rng.random() < 0.7:
            prog.append(("sub", len(prog) - 1, [0], [0]))
    return prog


def src_index(ix):
    if ix[0] == "i":
        return str(ix[1])
    return f"{'' if ix[1] is None else ix[1]}:{'' if ix[2] is None else ix[2]}" + (f":{ix[3]}" if ix[3] is not None else "")


def source(prog, opts):
    lines = [f"@move{opts}", "def kern():"]
    for i, st in enumerate(prog):
        k = st[0]
        if k == "trap":
            lines.append(f'    v{i} = spec.get_static_trap(zone_id="{st[1]}")')
        elif k == "special":
            lines.append(f'    v{i} = spec.get_special_grid(grid_id="{st[1]}")')
        elif k == "sub":
            lines.append(f"    v{i} = grid.sub_grid(v{st[1]}, {st[2]}, {st[3]})")
        elif k == "item":
            lines.append(f"    v{i} = v{st[1]}[{src_index(st[2])}, {src_index(st[3])}]")
        elif k == "op":
            lines.append(f"    v{i} = grid.shift(v{st[1]}, {st[2]!r}, {st[3]!r})")
        elif k == "fp":
            lines.append(f"    v{i} = grid.from_positions(grid.get_xpos(v{st[1]}), grid.get_ypos(v{st[2]}))")
        elif k == "shape":
            lines.append(f"    v{i} = grid.shape(v{st[1]})")
        elif k == "itemother":
            lines.append(f"    v{i} = v{st[1]}[0]")
        elif k == "alias":
            lines.append(f"    v{i} = v{st[1]}")
    lines.append("    return (" + ", ".join(f"v{i}" for i in range(len(prog))) + ",)")
    return HDR + "\n".join(lines) + "\n"


def wire_prog(prog):
    """the model's statement list"""
    out, idx = [], {}
    for i, st in enumerate(prog):
        k = st[0]
        idx[i] = len(out)
        if k == "alias":
            # `v = w` is a py.assign.Alias statement: grid-typed result, no method table: fallback (top)
            out.append(("op", idx[st[1]], 0, 0))
            continue
        if k == "trap":
            out.append(("trap", st[1]))
        elif k in ("special", "fp"):
            out.append(("op", 0, 0, 0))        # a grid-typed result without a method table: fallback (top)
        elif k == "sub":
            out.append(("sub", idx[st[1]], st[2], st[3]))
        elif k == "item":
            out.append(("item", idx[st[1]], st[2], st[3]))
        elif k == "op":
            out.append(("op", idx[st[1]], frac(st[2]), frac(st[3])))
        else:
            out.append(("other",))
    return out, idx


def canon_zone(z):
    n = type(z).__name__
    if n == "NotZone":
        return "bot"
    if n == "UnknownZone":
        return "top"
    if n == "InvalidZone":
        return "inv"
    if n == "InvalidSpecId":
        return f"(invid {z.spec_id})"
    if n == "SpecZone":
        return f"(spec {z.spec_id})"
    if n == "GetItemOfZone":
        return f"(item {canon_zone(z.zone)} {canon_zone(z.index)})"
    if n == "GetSubGridOfZone":
        return f"(sub {canon_zone(z.zone)} {canon_zone(z.x_indices)} {canon_zone(z.y_indices)})"
    return f"<{n}>"


def claims(z):
    n = type(z).__name__
    if n == "SpecZone":
        return z.spec_id
    if n in ("GetItemOfZone", "GetSubGridOfZone"):
        return claims(z.zone)
    return None


def is_invalid(z):
    return type(z).__name__ in ("InvalidZone", "InvalidSpecId")


def recording_interpreter():
    from bloqade.shuttle.arch import ArchSpecInterpreter

    class Rec(ArchSpecInterpreter):
        def __post_init__(self):
            super().__post_init__() if hasattr(super(), "__post_init__") else None

        def eval_stmt(self, frame, stmt):
            res = super().eval_stmt(frame, stmt)
            if isinstance(res, tuple):
                for r, v in zip(stmt.results, res):
                    self.recorded[r] = v
            return res
    return Rec


def index_sorted(prog, i):
    """F10 classifier: does the chain of views leading to value i use an index list that is not ascending"""
    st = prog[i]
    if st[0] == "sub":
        return sorted(st[2]) == list(st[2]) and sorted(st[3]) == list(st[3]) and index_sorted(prog, st[1])
    if st[0] in ("item", "alias"):
        return index_sorted(prog, st[1])
    return True


JOIN_SRC = '''
@move
def away():
    return grid.shift(spec.get_static_trap(zone_id="A"), 1.0, 0.5)

@move
def nudge(z, d):
    return grid.shift(z, d, 0.5)

@move
def pick(zs, i: int):
    return zs[i]

@move
def park(z: grid.Grid[Any, Any]):
    return grid.shift(z, 5.0, 100.0)

@move
def spread(z: grid.Grid[Any, Any]):
    return grid.scale(z, 2.0, 3.0)

@move
def choose(flag: bool, x, y):
    if flag:
        return x
    return y

@move{opts}
def kern(b: bool, n: int):
    a = spec.get_static_trap(zone_id="A")
    c = choose(b, a, spec.get_static_trap(zone_id="B"))
    cv = c[0:1, :]
    c2 = choose(flag=b, y=a, x=spec.get_static_trap(zone_id="B"))
    cw = grid.sub_grid(c2, [0], [0])
    sk = a[1:2, :]
    sk2 = grid.sub_grid(a, [1], [0])
    pk = park(a)
    pkv = pk[0:1, :]
    sp = spread(spec.get_static_trap(zone_id="B"))
    spv = grid.sub_grid(sp, [0], [0])
    al = a
    alv = al[0:1, 0:1]
    fz = filled.vacate(a, [(0, 0)])
    fb = filled.fill(spec.get_static_trap(zone_id="B"), [(0, 0)])
    if b:
        x = spec.get_static_trap(zone_id="B")
    else:
        x = nudge(a, 1.0)
    y = x[0:1, :]
    if b:
        p = spec.get_static_trap(zone_id="A")
    else:
        p = pick((spec.get_static_trap(zone_id="B"), a), n)
    q = grid.sub_grid(p, [0], [0])
    w = spec.get_static_trap(zone_id="B")
    if b:
        w = grid.shift(w, 0.0, 1.0)
    v = grid.sub_grid(w, [0], [0])
    u = spec.get_static_trap(zone_id="A")
    for k in range(n):
        u = away()
    t = u[:, 0:1]
    return (x, y, w, v, u, t, p, q, c, cv, c2, cw, sk, sk2, pk, pkv, sp, spv, al, alv, fz, fb)
'''


def join_stream(ctx, sps, Rec):
    """values that reach a use through an if/else or a loop: one alternative a named zone, the other a grid that is no zone
    (delivered by a subroutine, or computed); every hint is checked against the values of every run"""
    global SPEC_SLOT
    from bloqade.geometry.dialects.grid import Grid
    from bloqade.shuttle.analysis.zone import ZoneAnalysis
    for si, spec in enumerate(sps):
        if "A" not in spec.layout.static_traps or "B" not in spec.layout.static_traps:
            continue
        SPEC_SLOT = spec
        zones_all = dict(spec.layout.static_traps)
        zones_all.update(spec.layout.special_grid)
        for variant, opts in (("unfolded", ""), ("folded", "(arch_spec=_C10.SPEC_SLOT)")):
            src = HDR + JOIN_SRC.replace("{opts}", opts)
            try:
                mt = T.load_source(src, "c10j").kern
            except Exception:  # noqa: BLE001
                ctx.count("join_compile_fail")
                continue
            frame, _ = ZoneAnalysis(mt.dialects, arch_spec=spec).run_analysis(mt)
            for args in ((True, 0), (False, 0), (True, 2), (False, 1)):
                it = Rec(mt.dialects, arch_spec=spec)
                it.recorded = {}
                try:
                    it.run(mt, args=args, kwargs={})
                except Exception:  # noqa: BLE001
                    pass
                ctx.count("join_runs")
                case = {"source": src[len(HDR):], "spec": f"s{si}", "variant": variant, "args": list(args)}
                for ssa, z in frame.entries.items():
                    if ssa not in it.recorded:
                        continue
                    v = it.recorded[ssa]
                    if is_invalid(z):
                        ctx.fail(case, f"value flagged {canon_zone(z)} was successfully computed at run time")
                        continue
                    zn = claims(z)
                    if zn is None or not isinstance(v, Grid):
                        continue
                    ctx.count("join_hints_claiming_a_zone")
                    zone = zones_all.get(zn)
                    if zone is None:
                        ctx.fail(case, f"hint names zone '{zn}' which the spec does not have")
                    elif type(z).__name__ == "SpecZone":
                        if not (v == zone):
                            ctx.fail(case, f"hint says the value is zone '{zn}' itself, but on this run it is a different grid")
                    else:
                        zs = set((frac(x), frac(y)) for x, y in zone.positions)
                        bad = [(x, y) for x, y in v.positions if (frac(x), frac(y)) not in zs]
                        if bad:
                            ctx.fail(case, f"hint {canon_zone(z)}: on this run site {bad[0]} of the value is no site of zone '{zn}'")


def run(ctx):
    global SPEC_SLOT
    from bloqade.geometry.dialects.grid import Grid
    from bloqade.shuttle.analysis.zone import ZoneAnalysis
    from bloqade.shuttle.prelude import move
    rng = ctx.rng
    sps = specs()
    Rec = recording_interpreter()
    n = 600 if ctx.tier == "thorough" else 90
    lines, rows = [], []
    for pi in range(n):
        spec = sps[pi % len(sps)]
        SPEC_SLOT = spec
        prog = gen_program(rng, spec)
        wp, idx = wire_prog(prog)
        zones_all = dict(spec.layout.static_traps)
        zones_all.update(spec.layout.special_grid)
        st_w = [[nm, T.grid_lit(z)] for nm, z in spec.layout.static_traps.items()]
        ix_w = [[nm, T.grid_lit(z)] for nm, z in zones_all.items()]
        for variant, opts in (("unfolded", ""), ("folded", "(arch_spec=_C10.SPEC_SLOT)")):
            src = source(prog, opts)
            try:
                mod = T.load_source(src, "c10")
            except Exception as e:  # noqa: BLE001
                ctx.count("compile_fail_" + variant)
                continue
            mt = mod.kern
            frame, _ = ZoneAnalysis(mt.dialects, arch_spec=spec).run_analysis(mt)
            entries = dict(frame.entries)
            # the hints the HintZone pass leaves on the kernel, after it had been hinted for another spec first
            if variant == "unfolded":
                from bloqade.shuttle.passes.hint_zone import HintZone
                HintZone(mt.dialects, arch_spec=sps[(pi + 1) % len(sps)])(mt)
                HintZone(mt.dialects, arch_spec=spec)(mt)
                from kirin import ir as _ir
                for ssa, z in frame.entries.items():
                    if not isinstance(ssa, _ir.ResultValue):
                        continue        # the pass hints statement results only
                    h = ssa.hints.get("zone.analysis")
                    ctx.count("pass_hints_checked")
                    if h is None or canon_zone(h) != canon_zone(z):
                        ctx.fail({"source": src[len(HDR):], "spec": f"s{pi % len(sps)}", "value": str(getattr(ssa, "name", None))},
                                 f"HintZone(spec) leaves hint {canon_zone(h) if h is not None else None} where the analysis for that spec says {canon_zone(z)}")
                        if h is not None:
                            entries[ssa] = h
            it = Rec(mt.dialects, arch_spec=spec)
            it.recorded = {}
            try:
                it.run(mt, args=(), kwargs={})
            except Exception:  # noqa: BLE001
                pass
            case = {"source": src[len(HDR):], "spec": f"s{pi % len(sps)}", "variant": variant}
            ctx.seen((src, pi % len(sps), variant), any(s[0] in ("sub", "item") for s in prog))
            ctx.count("kernels_" + variant)
            # ---- oracle: every hint against the recorded run-time value ---------------------
            for ssa, z in entries.items():
                if ssa not in it.recorded:
                    if False:
                        pass
                    continue
                v = it.recorded[ssa]
                ctx.count("hints_checked")
                name = getattr(ssa, "name", None)
                vi = int(name[1:]) if name and name[0] == "v" and name[1:].isdigit() else None
                if is_invalid(z):
                    ctx.fail(dict(case, value=str(name)), f"value flagged {canon_zone(z)} was successfully computed at run time")
                    continue
                zn = claims(z)
                if zn is None:
                    continue
                ctx.count("hints_claiming_a_zone")
                if not isinstance(v, Grid):
                    ctx.fail(dict(case, value=str(name)), f"hint {canon_zone(z)} on a value that is no grid at run time")
                    continue
                zone = zones_all.get(zn)
                if zone is None:
                    ctx.fail(dict(case, value=str(name)), f"hint names zone '{zn}' which the spec does not have")
                    continue
                key = None
                if vi is not None and not index_sorted(prog, vi):
                    key = "F10-unsorted-subgrid-indices"
                if type(z).__name__ == "SpecZone":
                    if not (v == zone):
                        ctx.fail(dict(case, value=str(name)), f"hint says the value is zone '{zn}' itself, but it is a different grid", key=key)
                else:
                    zs = set((frac(x), frac(y)) for x, y in zone.positions)
                    bad = [(x, y) for x, y in v.positions if (frac(x), frac(y)) not in zs]
                    if bad:
                        ctx.fail(dict(case, value=str(name)), f"hint {canon_zone(z)}: site {bad[0]} of the run-time value is no site of zone '{zn}'",
                                 key=key)
            # ---- correspondence (unfolded variant): abstract values of the top-level statements
            if variant == "unfolded":
                got = {}
                for ssa, z in frame.entries.items():
                    name = getattr(ssa, "name", None)
                    if name and name[0] == "v" and name[1:].isdigit():
                        got[int(name[1:])] = canon_zone(z)
                lines.append(f"(C10 (analyse {sx(st_w)} {sx(ix_w)} {sx(wp)}))")
                rows.append((case, prog, idx, got))
    join_stream(ctx, sps, Rec)
    model = ctx.driver(lines)
    ctx.traces_validated = len(rows)
    for (case, prog, idx, got), m in zip(rows, model):
        if m.startswith("bad"):
            raise HarnessFault(f"driver rejected a program: {case['source'][:200]}")
        from ..sexp import parse
        mz = parse(m)
        for i, st in enumerate(prog):
            if i not in got:
                continue
            want = sx(mz[idx[i]]) if idx[i] < len(mz) else "?"
            if st[0] in ("itemother",):
                continue        # indexing a non-grid: (item bot bot) vs the model's `other`; no zone is claimed either way
            if st[0] == "alias" and got[i] in ("top", "bot"):
                continue        # fallback: top or bottom depending on the inferred static type; neither claims a zone
            def noclaim(z):
                # no named zone at the root of the chain and not flagged invalid: the hint says nothing
                return "(spec " not in z and "inv" not in z
            if got[i] != want and not (noclaim(got[i]) and noclaim(want)):
                ctx.disagree(dict(case, value=f"v{i}"), got[i], want, "ZoneAnalysis entry vs model")
                break
    for k in (0, len(rows) // 2):
        if k < len(rows):
            ctx.sample({"source": rows[k][0]["source"], "entries": rows[k][3], "model": model[k][:300]})
    c = ctx.counts
    if c.get("hints_claiming_a_zone", 0) < 50 or c.get("kernels_folded", 0) < 5:
        raise HarnessFault(f"generator degenerate: {c}")
