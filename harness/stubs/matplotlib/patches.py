class Rectangle:  # noqa
    def __init__(self, *a, **k):
        raise RuntimeError("matplotlib stub")
