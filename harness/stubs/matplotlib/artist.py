class Artist:  # noqa
    pass
