"""Import shim: matplotlib is not installed in this sandbox and no property is about
drawing.  It only lets `bloqade.shuttle.visualizer` be imported; C16 uses a recording
RendererInterface, never the matplotlib renderer."""
