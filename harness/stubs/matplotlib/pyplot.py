def subplots(*a, **k):
    raise RuntimeError("matplotlib stub: drawing is out of scope")
def gcf():
    raise RuntimeError("matplotlib stub")
def show(*a, **k):
    raise RuntimeError("matplotlib stub")
