class Axes:  # noqa
    pass
