"""Event-logging executor for move kernels — no source hook needed.

Method tables are registered under the private key `verif.events` on the gate / init /
measure / path dialect objects; `EventInterpreter` is an `ArchSpecInterpreter` whose key
list puts that key first, so everything else (spec lookups, `path.Gen`, control flow,
grid operations …) runs through the repository's and kirin's own implementations.

An event is a tuple
    ("fill", [grid…]) | ("play", Path) | ("play_group", kind, [Path…]) |
    ("cz", zone, upper, lower) | ("local_r", zone, axis, angle) | ("local_rz", zone, angle) |
    ("global_r", axis, angle) | ("global_rz", angle) | ("measure", [grid…])
"""
from __future__ import annotations

from dataclasses import dataclass, field
from typing import Any, ClassVar

_registered = False


@dataclass
class Group:
    kind: str               # "parallel" | "auto"
    paths: tuple


class MeasureResult:
    pass


def _register():
    global _registered
    if _registered:
        return
    from kirin import interp
    from bloqade.shuttle.dialects import gate, init, measure, path

    KEY = "verif.events"

    @gate.dialect.register(key=KEY)
    class GateEvents(interp.MethodTable):
        @interp.impl(gate.TopHatCZ)
        def cz(self, it, frame, stmt):
            it.events.append(("cz", frame.get(stmt.zone), stmt.upper_buffer, stmt.lower_buffer))
            return ()

        @interp.impl(gate.LocalR)
        def local_r(self, it, frame, stmt):
            it.events.append(("local_r", frame.get(stmt.zone), frame.get(stmt.axis_angle), frame.get(stmt.rotation_angle)))
            return ()

        @interp.impl(gate.LocalRz)
        def local_rz(self, it, frame, stmt):
            it.events.append(("local_rz", frame.get(stmt.zone), frame.get(stmt.rotation_angle)))
            return ()

        @interp.impl(gate.GlobalR)
        def global_r(self, it, frame, stmt):
            it.events.append(("global_r", frame.get(stmt.axis_angle), frame.get(stmt.rotation_angle)))
            return ()

        @interp.impl(gate.GlobalRz)
        def global_rz(self, it, frame, stmt):
            it.events.append(("global_rz", frame.get(stmt.rotation_angle)))
            return ()

    @init.dialect.register(key=KEY)
    class InitEvents(interp.MethodTable):
        @interp.impl(init.Fill)
        def do_fill(self, it, frame, stmt):
            it.events.append(("fill", list(frame.get(stmt.locations))))
            return ()

    @measure.dialect.register(key=KEY)
    class MeasureEvents(interp.MethodTable):
        @interp.impl(measure.Measure)
        def do_measure(self, it, frame, stmt):
            it.events.append(("measure", list(frame.get_values(stmt.grids))))
            return tuple(MeasureResult() for _ in stmt.results)

    @path.dialect.register(key=KEY)
    class PathEvents(interp.MethodTable):
        @interp.impl(path.Play)
        def play(self, it, frame, stmt):
            p = frame.get(stmt.path)
            if isinstance(p, Group):
                it.events.append(("play_group", p.kind, list(p.paths)))
            else:
                it.events.append(("play", p))
            return ()

        @interp.impl(path.Parallel)
        def parallel(self, it, frame, stmt):
            return (Group("parallel", tuple(frame.get_values(stmt.paths))),)

        @interp.impl(path.Auto)
        def auto(self, it, frame, stmt):
            return (Group("auto", tuple(frame.get_values(stmt.paths))),)

    _registered = True


def interpreter_classes():
    """(EventInterpreter with a spec, PlainEventInterpreter without)"""
    _register()
    from kirin.interp import Interpreter
    from bloqade.shuttle.arch import ArchSpecInterpreter

    @dataclass
    class EventInterpreter(ArchSpecInterpreter):
        keys: ClassVar[list[str]] = ["verif.events", "spec.interp", "main"]
        events: list = field(default_factory=list, kw_only=True)

    @dataclass
    class PlainEventInterpreter(Interpreter):
        keys: ClassVar[list[str]] = ["verif.events", "main"]
        events: list = field(default_factory=list, kw_only=True)

    return EventInterpreter, PlainEventInterpreter


_classes = None


@dataclass
class Run:
    events: list
    result: Any = None
    error: str | None = None


def run_with_events(mt, spec, args=(), kwargs=None, plain=False) -> Run:
    """Execute a compiled move kernel, logging device-visible events.
    plain=True: the plain interpreter (no spec available at run time)."""
    global _classes
    if _classes is None:
        _classes = interpreter_classes()
    E, P = _classes
    it = P(mt.dialects) if plain else E(mt.dialects, arch_spec=spec)
    try:
        res = it.run(mt, args=tuple(args), kwargs=kwargs or {})
        return Run(it.events, res, None)
    except Exception as e:  # noqa: BLE001
        return Run(it.events, None, f"{type(e).__name__}: {str(e)[:200]}")


# --------------------------------------------------------------------------- canonical text
def canon_pathobj(p) -> str:
    from . import tweezer as T
    if not (hasattr(p, "x_tones") and hasattr(p, "y_tones") and hasattr(p, "path")):
        return f"<not a path: {type(p).__name__}: {repr(p)[:120]}>"
    return (f"(path (li{''.join(' ' + str(int(i)) for i in p.x_tones)}) "
            f"(li{''.join(' ' + str(int(i)) for i in p.y_tones)}) {T.canon_path(p.path)})")


def canon_event(e) -> str:
    try:
        return _canon_event(e)
    except Exception as ex:  # noqa: BLE001
        # an operand that is not what the event kind carries (e.g. a tuple where a Path is played): a canonical text that
        # equals no well-formed event
        return f"<malformed {e[0]} event: {type(ex).__name__}: {repr(e[1:])[:120]}>"


def _canon_event(e) -> str:
    from . import tweezer as T
    from .sexp import sx
    k = e[0]
    if k == "play":
        return f"(play {canon_pathobj(e[1])})"
    if k == "play_group":
        return f"(group {e[1]} {' '.join(canon_pathobj(p) for p in e[2])})"
    if k == "fill":
        return "(fill " + " ".join(T.canon_grid(g) for g in e[1]) + ")"
    if k == "measure":
        return "(measure " + " ".join(T.canon_grid(g) for g in e[1]) + ")"
    if k == "cz":
        return f"(cz {T.canon_grid(e[1])} {sx(e[2])} {sx(e[3])})"
    if k == "local_r":
        return f"(local_r {T.canon_grid(e[1])} {sx(e[2])} {sx(e[3])})"
    if k == "local_rz":
        return f"(local_rz {T.canon_grid(e[1])} {sx(e[2])})"
    if k == "global_r":
        return f"(global_r {sx(e[1])} {sx(e[2])})"
    if k == "global_rz":
        return f"(global_rz {sx(e[1])})"
    return f"<{k}>"


def canon_events(evs) -> str:
    return "(" + " ".join(canon_event(e) for e in evs) + ")"
