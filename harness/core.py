"""Shared machinery of every check: build the proofs, audit them, run the
correspondence through the Lean driver, apply the verdict logic of DESIGN.md §2.5
and write the evidence file.

A property module (harness/props/cXX.py) exposes

    ID            "C18"
    MODULES       ["Shuttle.Props.C18"]            Lean modules holding its theorems
    TABLES        ["Lattice"] (optional)           Gen tables it depends on
    def run(ctx): ...                              correspondence + oracle

and reports through the Ctx object:

    ctx.driver(lines)            -> list[str]      model outputs (one per request line)
    ctx.disagree(case, impl, model, what)          a correspondence mismatch
    ctx.fail(case, what, key=None)                 the property's oracle is violated on the
                                                   real implementation for `case`
    ctx.count(...), ctx.sample(...)                coverage bookkeeping
"""
from __future__ import annotations

import fcntl
import hashlib
import json
import os
import random
import re
import subprocess
import sys
import time
import traceback
from dataclasses import dataclass, field
from pathlib import Path

VERIF = Path(__file__).resolve().parent.parent
LEAN = VERIF / "lean"
REPO = Path(os.environ.get("VERIF_REPO", "/repo"))
ALLOWED_AXIOMS = {"propext", "Classical.choice", "Quot.sound"}
FORBIDDEN = re.compile(
    r"\bsorry\b|\badmit\b|^\s*axiom\s|native_decide|bv_decide|implemented_by|\bunsafe\s|maxHeartbeats\s+0\b"
)
GUARD = "BLOQADE_SHUTTLE_VERIF"


def setup_impl_path():
    """Make `import bloqade.shuttle` resolve to REPO's working tree, with the
    matplotlib stub available and the (unused) hook guard switched on."""
    os.environ.setdefault(GUARD, "1")
    src = str(REPO / "src")
    stubs = str(VERIF / "harness" / "stubs")
    for p in (stubs, src):
        if p in sys.path:
            sys.path.remove(p)
    sys.path.insert(0, stubs)
    sys.path.insert(0, src)
    pp = os.environ.get("PYTHONPATH", "")
    parts = [src, stubs] + [q for q in pp.split(":") if q and q not in (src, stubs)]
    os.environ["PYTHONPATH"] = ":".join(parts)


class HarnessFault(Exception):
    """The machinery itself is broken (exit 2, never a VIOLATION)."""


@dataclass
class Ctx:
    prop_id: str
    tier: str
    seed: int
    rng: random.Random
    replay_case: object = None
    disagreements: list = field(default_factory=list)
    failures: list = field(default_factory=list)
    known_hits: dict = field(default_factory=dict)
    counts: dict = field(default_factory=dict)
    samples: list = field(default_factory=list)
    distinct: set = field(default_factory=set)
    evaluations: int = 0
    traces_validated: int = 0
    notes: list = field(default_factory=list)
    driver_ok: bool = True
    tables: dict = field(default_factory=dict)

    # ---- model side -------------------------------------------------------
    def driver(self, lines: list[str]) -> list[str]:
        """Pipe request lines through the compiled Lean driver."""
        if not lines:
            return []
        exe = LEAN / ".lake" / "build" / "bin" / "driver"
        if not exe.exists():
            raise HarnessFault("driver executable missing (build failed?)")
        inp = "\n".join(lines) + "\n"
        p = subprocess.run([str(exe)], input=inp, capture_output=True, text=True)
        if p.returncode != 0:
            raise HarnessFault(f"driver crashed rc={p.returncode}: {p.stderr[-2000:]}")
        out = p.stdout.split("\n")
        if out and out[-1] == "":
            out.pop()
        if len(out) != len(lines):
            raise HarnessFault(f"driver answered {len(out)} lines for {len(lines)} requests")
        return out

    # ---- bookkeeping ------------------------------------------------------
    def count(self, key: str, n: int = 1):
        self.counts[key] = self.counts.get(key, 0) + n

    def sample(self, obj, limit: int = 6):
        if len(self.samples) < limit:
            self.samples.append(obj)

    def seen(self, key, nontrivial: bool = True):
        """Record one evaluated case; `key` identifies it for distinctness."""
        self.evaluations += 1
        if nontrivial:
            self.distinct.add(hashlib.sha1(repr(key).encode()).hexdigest())

    def disagree(self, case, impl, model, what: str = ""):
        self.disagreements.append({"case": case, "impl": impl, "model": model, "what": what})

    def fail(self, case, what: str, key: str | None = None, extra=None):
        """The property itself fails on the real implementation for `case`.
        `key` names the known-finding class this failure belongs to (or None)."""
        self.failures.append({"case": case, "what": what, "key": key, "extra": extra})

    def note(self, s: str):
        self.notes.append(s)


# --------------------------------------------------------------------------
def sh(cmd, cwd=None, timeout=None):
    p = subprocess.run(cmd, cwd=cwd, capture_output=True, text=True, timeout=timeout)
    return p.returncode, p.stdout + p.stderr


class Lock:
    def __enter__(self):
        self.f = open(LEAN / ".lock", "w")
        fcntl.flock(self.f, fcntl.LOCK_EX)
        return self

    def __exit__(self, *a):
        fcntl.flock(self.f, fcntl.LOCK_UN)
        self.f.close()


def forbidden_tokens(modules: list[str]) -> list[str]:
    """grep the Lean sources (whole library: a lemma file could hide a sorry)."""
    hits = []
    for f in sorted((LEAN / "Shuttle").rglob("*.lean")):
        in_block = 0
        for i, line in enumerate(f.read_text().split("\n"), 1):
            # strip block comments (approximate, nesting aware) and line comments
            j = 0
            code = ""
            while j < len(line):
                if line.startswith("/-", j):
                    in_block += 1
                    j += 2
                elif line.startswith("-/", j) and in_block:
                    in_block -= 1
                    j += 2
                else:
                    if not in_block:
                        code += line[j]
                    j += 1
            code = code.split("--")[0]
            if FORBIDDEN.search(code):
                hits.append(f"{f.relative_to(LEAN)}:{i}: {line.strip()}")
    return hits


def build_and_audit(prop, thorough: bool):
    """Regenerate tables, build the driver and the property's theorem modules,
    audit axioms.  Returns a dict describing each obligation."""
    res = {"extract_ok": True, "driver_ok": True, "modules": {}, "theorems": [],
           "bad_axioms": [], "forbidden": [], "log": "", "tables": {}}
    with Lock():
        # (A) regenerate tables from the current source
        rc, out = sh([sys.executable, str(VERIF / "tools" / "extract.py")], cwd=VERIF, timeout=600)
        res["log"] += out[-3000:]
        if rc != 0:
            res["extract_ok"] = False
        tj = LEAN / "Shuttle" / "Gen" / "tables.json"
        if tj.exists():
            res["tables"] = json.loads(tj.read_text())
        # driver (models + tables only)
        rc, out = sh(["lake", "build", "driver", "audit"], cwd=LEAN, timeout=3000)
        if rc != 0:
            res["driver_ok"] = False
            res["log"] += "\n[driver build]\n" + out[-4000:]
        for m in prop.MODULES:
            if thorough:
                # force a re-check of the property module from source
                ol = LEAN / ".lake" / "build" / "lib" / "lean" / (m.replace(".", "/") + ".olean")
                if ol.exists():
                    ol.unlink()
            rc, out = sh(["lake", "build", m], cwd=LEAN, timeout=3000)
            ok = rc == 0
            res["modules"][m] = ok
            if not ok:
                res["log"] += f"\n[{m}]\n" + out[-6000:]
                continue
            rc, out = sh(["lake", "env", str(LEAN / ".lake/build/bin/audit"), m], cwd=LEAN, timeout=600)
            if rc != 0:
                res["modules"][m] = False
                res["log"] += f"\n[audit {m}]\n" + out[-3000:]
                continue
            for line in out.split("\n"):
                mm = re.match(r"THEOREM (\S+) AXIOMS (.*)$", line)
                if mm:
                    axs = [a for a in mm.group(2).split(",") if a]
                    res["theorems"].append({"name": mm.group(1), "axioms": axs})
                    bad = [a for a in axs if a not in ALLOWED_AXIOMS]
                    if bad:
                        res["bad_axioms"].append({"theorem": mm.group(1), "axioms": bad})
            if thorough:
                rc, out = sh(["lake", "env", "leanchecker", m], cwd=LEAN, timeout=3000)
                res.setdefault("leanchecker", {})[m] = (rc == 0)
                if rc != 0:
                    res["modules"][m] = False
                    res["log"] += f"\n[leanchecker {m}]\n" + out[-3000:]
    res["forbidden"] = forbidden_tokens(prop.MODULES)
    return res


def expected_theorems(prop) -> list[str]:
    """Names of the theorems the property file is expected to contain (committed
    list, so that deleting a theorem is noticed)."""
    f = VERIF / "lean" / "expected_theorems.json"
    if f.exists():
        return json.loads(f.read_text()).get(prop.ID, [])
    return []


def load_known(prop_id: str):
    f = VERIF / "known_findings.json"
    if not f.exists():
        return []
    return [e for e in json.loads(f.read_text()).get("findings", []) if e["property"] == prop_id]


def write_json(path: Path, obj):
    path.parent.mkdir(parents=True, exist_ok=True)
    tmp = path.with_suffix(path.suffix + ".tmp")
    tmp.write_text(json.dumps(obj, indent=1, default=str) + "\n")
    tmp.replace(path)


def main(prop, argv=None):
    import argparse

    ap = argparse.ArgumentParser()
    ap.add_argument("--tier", default=os.environ.get("VERIF_TIER", "quick"), choices=["quick", "thorough"])
    ap.add_argument("--replay", default=None)
    ap.add_argument("--no-build", action="store_true", help="(development) skip lake build")
    args = ap.parse_args(argv)
    seed = int(os.environ.get("VERIF_SEED", "0") or 0)
    t0 = time.time()
    pid = prop.ID
    setup_impl_path()
    try:
        code = _main(prop, args, seed, t0)
    except HarnessFault as e:
        print(f"HARNESS-FAULT property={pid}: {e}")
        traceback.print_exc()
        code = 2
    except Exception as e:  # machinery bug: never a violation
        print(f"HARNESS-FAULT property={pid}: unexpected {type(e).__name__}: {e}")
        traceback.print_exc()
        code = 2
    sys.stdout.flush()
    return code


def _main(prop, args, seed, t0):
    pid = prop.ID
    thorough = args.tier == "thorough"
    replay_case = None
    if args.replay:
        rp = json.loads(Path(args.replay).read_text())
        replay_case = rp.get("case")
        if replay_case is None or not getattr(prop, "CASE_REPLAY", False):
            # generic replay: every random choice derives from the seed, so re-running the
            # recorded tier with the recorded seed reproduces the recorded case exactly
            replay_case = None
            seed = int(rp.get("seed", seed))
            args.tier = rp.get("tier", args.tier)
            thorough = args.tier == "thorough"

    # ---- proof obligations -------------------------------------------------
    if args.no_build:
        b = {"extract_ok": True, "driver_ok": True, "modules": {m: True for m in prop.MODULES},
             "theorems": [], "bad_axioms": [], "forbidden": [], "log": "", "tables": {}}
    else:
        b = build_and_audit(prop, thorough)
    names = {t["name"] for t in b["theorems"]}
    expected = expected_theorems(prop)
    missing = [n for n in expected if n not in names]
    proofs_ok = (b["extract_ok"] and all(b["modules"].values()) and not b["bad_axioms"]
                 and not b["forbidden"] and not missing)
    broken = []
    if not b["extract_ok"]:
        broken.append("table extraction from source failed")
    broken += [f"module {m} does not build" for m, ok in b["modules"].items() if not ok]
    broken += [f"theorem {x['theorem']} uses axioms {x['axioms']}" for x in b["bad_axioms"]]
    broken += [f"forbidden token: {h}" for h in b["forbidden"]]
    broken += [f"expected theorem {n} is missing" for n in missing]

    # ---- correspondence + oracle -------------------------------------------
    ctx = Ctx(prop_id=pid, tier=args.tier, seed=seed, rng=random.Random(seed * 7919 + 17),
              replay_case=replay_case, driver_ok=b["driver_ok"], tables=b.get("tables", {}))
    if not proofs_ok:
        # something no longer checks: widen the search for a failing input
        ctx.tier = "thorough"
        ctx.note("proof obligations broken -> failing-input search at thorough budget")
    prop.run(ctx)

    # ---- known findings ----------------------------------------------------
    known = load_known(pid)
    open_keys = {e["key"]: e for e in known if e.get("status", "open") == "open"}
    unknown_fail = [f for f in ctx.failures if f["key"] not in open_keys]
    known_fail = [f for f in ctx.failures if f["key"] in open_keys]
    for k, e in open_keys.items():
        hits = [f for f in known_fail if f["key"] == k]
        if hits:
            print(f"KNOWN-FINDING: property={pid} {e['what_fails']} [{k}; {len(hits)} case(s) this run]")
        else:
            print(f"NOTE property={pid}: known finding '{k}' did not reproduce in this run")
    # disagreements whose case is attributed to a known finding do not count
    unknown_dis = [d for d in ctx.disagreements if d.get("what") not in open_keys]

    # ---- verdict -----------------------------------------------------------
    violation = None
    if unknown_fail:
        f0 = min(unknown_fail, key=lambda f: len(json.dumps(f["case"], default=str)))
        violation = {"kind": "failing-input", "case": f0["case"], "what": f0["what"],
                     "extra": f0.get("extra"), "n_failures": len(unknown_fail),
                     "other_failures": [{"what": f["what"][:300], "case": f["case"]} for f in unknown_fail[:400] if f is not f0]}
    elif not proofs_ok or unknown_dis:
        what = broken[:] + [f"correspondence: {len(unknown_dis)} case(s) where model and implementation differ"
                            for _ in [0] if unknown_dis]
        violation = {"kind": "no-failing-input-found", "broken": what,
                     "first_disagreement": unknown_dis[0] if unknown_dis else None,
                     "build_log_tail": b["log"][-3000:]}

    wall = time.time() - t0
    n_thm = len(b["theorems"])
    evidence = {
        "property_id": pid,
        "tier": args.tier,
        "seed": seed,
        "level": "proof",
        "coverage": {
            "obligations": max(n_thm + len(missing) + sum(1 for ok in b["modules"].values() if not ok), 1),
            "discharged": n_thm if proofs_ok else max(n_thm - len(b["bad_axioms"]), 0),
            "checker_cmd": "cd /verif/lean && lake build " + " ".join(prop.MODULES)
                           + " && lake env .lake/build/bin/audit <module>"
                           + (" && lake env leanchecker <module>" if thorough else ""),
            "trusted_base": [
                "Lean 4.33.0 kernel",
                "axioms used by the theorems: " + ", ".join(sorted({a for t in b['theorems'] for a in t['axioms']})),
                "no sorry/admit/axiom/native_decide/bv_decide/implemented_by/unsafe/maxHeartbeats 0 in lean/Shuttle (grep on every run)",
                "tools/extract.py (table translator) and harness/ (correspondence check): unverified Python",
            ] + list(getattr(prop, "TRUSTED", [])),
            "theorems": sorted(names),
            "evaluations": ctx.evaluations,
            "distinct_nontrivial": len(ctx.distinct),
            "rule": getattr(prop, "RULE", ""),
            "samples": ctx.samples or ["(no cases)"],
            "traces_validated_against_impl": ctx.traces_validated,
            "disagreements": len(ctx.disagreements),
            "oracle_failures": len(ctx.failures),
            "known_findings_reproduced": sorted({f["key"] for f in known_fail}),
            "distribution": ctx.counts,
            "tables": {k: v.get("digest") if isinstance(v, dict) else v for k, v in ctx.tables.items()},
            "tables_read_from": {k: v["read_from"] for k, v in ctx.tables.items() if isinstance(v, dict) and "read_from" in v},
            "notes": ctx.notes,
            "exhaustive": bool(getattr(ctx, "exhaustive", False)),
        },
        "assumptions": list(getattr(prop, "ASSUMPTIONS", [])),
        "wall_s": round(wall, 2),
        "violations": 1 if violation else 0,
    }
    write_json(VERIF / "evidence" / f"{pid}.json", evidence)

    if violation is None:
        print(f"OK property={pid} tier={args.tier} seed={seed} theorems={n_thm} "
              f"cases={ctx.evaluations} distinct={len(ctx.distinct)} wall={wall:.1f}s")
        return 0
    rp = VERIF / "replays" / f"{pid}-{args.tier}-{seed}.json"
    violation.update({"property": pid, "seed": seed, "tier": args.tier,
                      "replay_cmd": f"cd /verif && ./check {pid} --replay {rp}"})
    write_json(rp, violation)
    tail = " no-failing-input-found" if violation["kind"] == "no-failing-input-found" else ""
    if violation["kind"] == "no-failing-input-found":
        for w in violation["broken"]:
            print(f"BROKEN property={pid}: {w}")
    else:
        print(f"FAILING-INPUT property={pid}: {violation['what']}")
    print(f"VIOLATION property={pid} replay={rp}{tail}")
    return 1
