"""The program language of Model/Lang.lean on the Python side: AST (nested tuples), rendering
as real kernel source, rendering as S-expression, and seeded generators of move programs.

Expr   ('lit', v) v: None | bool | int | Fraction | str | ('sl', a, b, c)
       ('var', x) | ('prim', op, [args]) | ('look', kind, name) | ('call', fn, [args])
       | ('callv', f, [args]) | ('lam', fn)
Stmt   ('assign', x, e) | ('expr', e) | ('eff', op, [args]) | ('devcall', f, [args], [kw])
       | ('par', [stmts]) | ('if', c, t, e) | ('for', x, a, b, st, body) | ('assert', c) | ('ret', e)
       ('assign', f, ('lam', f)) is rendered as the nested `def f(...)` it denotes.
Fn     {'name', 'tweezer': bool, 'params': [(name, annotation)], 'body': [stmt], 'nested': {name: Fn}}
"""
from __future__ import annotations

from fractions import Fraction

from .sexp import frac, sx
from . import tweezer as T

HDR = '''from typing import Any
from bloqade.geometry.dialects import grid
from kirin.dialects import ilist
from bloqade.shuttle import action, gate, init, measure, schedule, spec
from bloqade.shuttle.prelude import tweezer, move

'''

LOOK_SRC = {"trap": ("get_static_trap", "zone_id"), "special": ("get_special_grid", "grid_id"),
            "intC": ("get_int_constant", "constant_id"), "floatC": ("get_float_constant", "constant_id")}
BINOPS = {"add": "+", "sub": "-", "mul": "*", "floordiv": "//", "mod": "%", "lt": "<", "le": "<=", "gt": ">",
          "ge": ">=", "eq": "==", "ne": "!=", "and": "and", "or": "or"}


# --------------------------------------------------------------------------- source
def src_lit(v) -> str:
    if v is None:
        return "None"
    if isinstance(v, bool):
        return "True" if v else "False"
    if isinstance(v, int):
        return str(v) if v >= 0 else f"({v})"
    if isinstance(v, Fraction):
        return T.flt(v)
    if isinstance(v, str):
        return v          # a kernel name (device_fn operand)
    if isinstance(v, tuple) and v[0] == "sl":
        return f"slice({v[1]}, {v[2]}, {v[3]})"
    raise ValueError(v)


def src_expr(e) -> str:
    k = e[0]
    if k == "lit":
        return src_lit(e[1])
    if k == "var":
        return e[1]
    if k == "look":
        fn, kw = LOOK_SRC[e[1]]
        return f'spec.{fn}({kw}="{e[2]}")'
    if k == "call":
        return f"{e[1]}({', '.join(src_expr(a) for a in e[2])})"
    if k == "callv":
        return f"{src_expr(e[1])}({', '.join(src_expr(a) for a in e[2])})"
    if k == "lam":
        return e[1]
    if k == "prim":
        op, a = e[1], e[2]
        if op in BINOPS:
            return f"({src_expr(a[0])} {BINOPS[op]} {src_expr(a[1])})"
        if op == "neg":
            return f"(-{src_expr(a[0])})"
        if op == "not":
            return f"(not {src_expr(a[0])})"
        if op == "list":
            return "[" + ", ".join(src_expr(x) for x in a) + "]"
        if op == "slice":
            return f"slice({', '.join(src_expr(x) for x in a)})"
        if op == "index":
            return f"{src_expr(a[0])}[{src_expr(a[1])}]"
        if op == "len":
            return f"len({src_expr(a[0])})"
        if op == "getitem2":
            return f"{src_expr(a[0])}[{src_index(a[1])}, {src_index(a[2])}]"
        if op in ("from_positions", "shift", "scale", "repeat", "sub_grid", "shape", "get_xpos", "get_ypos"):
            return f"grid.{op}({', '.join(src_expr(x) for x in a)})"
        if op == "device_fn":
            return f"schedule.device_fn({', '.join(src_expr(x) for x in a)})"
        if op == "reverse":
            return f"schedule.reverse({src_expr(a[0])})"
        raise ValueError(op)
    raise ValueError(e)


def src_index(e) -> str:
    if e[0] == "lit" and isinstance(e[1], tuple) and e[1][0] == "sl":
        _, a, b, c = e[1]
        r = ("" if a is None else str(a)) + ":" + ("" if b is None else str(b))
        return r + ("" if c is None else ":" + str(c))
    return src_expr(e)


EFF_SRC = {"set_loc": "action.set_loc", "move": "action.move", "turn_on": "action.turn_on", "turn_off": "action.turn_off",
           "fill": "init.fill", "local_r": "gate.local_r", "local_rz": "gate.local_rz", "global_r": "gate.global_r",
           "global_rz": "gate.global_rz"}


def src_stmts(fn, body, ind) -> list[str]:
    pad = "    " * ind
    out = []
    for st in body:
        k = st[0]
        if k == "assign":
            if st[2][0] == "lam" and st[2][1] == st[1]:
                inner = fn["nested"][st[1]]
                out += fn_source(inner, ind, decorate=False)
            else:
                out.append(f"{pad}{st[1]} = {src_expr(st[2])}")
        elif k == "expr":
            out.append(f"{pad}{src_expr(st[1])}")
        elif k == "eff":
            op, a = st[1], st[2]
            if op == "measure":
                # measure takes one tuple of zones
                zs = a[0][2] if a[0][0] == "prim" and a[0][1] == "list" else None
                inner = ", ".join(src_expr(z) for z in zs) + ("," if len(zs) == 1 else "")
                out.append(f"{pad}measure.measure(({inner}))")
            elif op == "top_hat_cz":
                if st[3:] and st[3] == "positional":
                    out.append(f"{pad}gate.top_hat_cz({', '.join(src_expr(x) for x in a)})")
                else:
                    out.append(f"{pad}gate.top_hat_cz({src_expr(a[0])}, upper_buffer={src_expr(a[1])}, lower_buffer={src_expr(a[2])})")
            else:
                out.append(f"{pad}{EFF_SRC[op]}({', '.join(src_expr(x) for x in a)})")
        elif k == "devcall":
            f, a, kw = st[1], st[2], st[3]
            npos = len(a) - len(kw)
            parts = [src_expr(x) for x in a[:npos]] + [f"{n}={src_expr(x)}" for n, x in zip(kw, a[npos:])]
            out.append(f"{pad}{src_expr(f)}({', '.join(parts)})")
        elif k == "par":
            out.append(f"{pad}with schedule.parallel():")
            out += src_stmts(fn, st[1], ind + 1)
        elif k == "if":
            out.append(f"{pad}if {src_expr(st[1])}:")
            out += src_stmts(fn, st[2], ind + 1) or [f"{pad}    pass"]
            if st[3]:
                out.append(f"{pad}else:")
                out += src_stmts(fn, st[3], ind + 1)
        elif k == "for":
            out.append(f"{pad}for {st[1]} in range({src_expr(st[2])}, {src_expr(st[3])}, {src_expr(st[4])}):")
            out += src_stmts(fn, st[5], ind + 1)
        elif k == "assert":
            out.append(f"{pad}assert {src_expr(st[1])}")
        elif k == "ret":
            out.append(f"{pad}return {src_expr(st[1])}")
        else:
            raise ValueError(st)
    return out


def fn_source(fn, ind=0, decorate=True, decorator=None) -> list[str]:
    pad = "    " * ind
    ps = [f"{n}: {a}" if a else n for n, a in fn["params"]]
    out = []
    if decorate:
        out.append(pad + "@" + (decorator or ("tweezer" if fn["tweezer"] else "move")))
    out.append(f"{pad}def {fn['name']}({', '.join(ps)}):")
    body = src_stmts(fn, fn["body"], ind + 1)
    out += body or [pad + "    pass"]
    return out


def program_source(fns, main_decorator=None) -> str:
    """fns: top-level functions in definition order; the last one is the entry point"""
    out = [HDR]
    for i, f in enumerate(fns):
        dec = main_decorator if (i == len(fns) - 1 and main_decorator) else None
        if f.get("factory"):
            # several subroutines share one Python def name (`helper`), each bound to its own global
            inner = dict(f, name="helper")
            out.append(f"def _mk_{f['name']}():\n" + "\n".join(fn_source(inner, 1, True, None))
                       + f"\n    return helper\n{f['name']} = _mk_{f['name']}()\n\n")
        else:
            out.append("\n".join(fn_source(f, 0, True, dec)) + "\n\n")
    return "".join(out)


# --------------------------------------------------------------------------- S-expression
def sx_lit(v) -> str:
    if v is None:
        return "none"
    if isinstance(v, bool):
        return "T" if v else "F"
    if isinstance(v, int):
        return f"(i {v})"
    if isinstance(v, Fraction):
        return f"(f {sx(v)})"
    if isinstance(v, str):
        return f"(s {v})"
    if isinstance(v, tuple) and v[0] == "sl":
        return sx(("sl", v[1], v[2], v[3]))
    raise ValueError(v)


def sx_expr(e) -> str:
    k = e[0]
    if k == "lit":
        return f"(lit {sx_lit(e[1])})"
    if k == "var":
        return f"(var {e[1]})"
    if k == "look":
        return f"(look {e[1]} {e[2]})"
    if k == "call":
        return f"(call {e[1]}{''.join(' ' + sx_expr(a) for a in e[2])})"
    if k == "callv":
        return f"(callv {sx_expr(e[1])}{''.join(' ' + sx_expr(a) for a in e[2])})"
    if k == "lam":
        return f"(lam {e[1]})"
    if k == "prim":
        return f"(prim {e[1]}{''.join(' ' + sx_expr(a) for a in e[2])})"
    raise ValueError(e)


def sx_stmt(st) -> str:
    k = st[0]
    if k == "assign":
        return f"(assign {st[1]} {sx_expr(st[2])})"
    if k == "expr":
        return f"(expr {sx_expr(st[1])})"
    if k == "eff":
        return f"(eff {st[1]}{''.join(' ' + sx_expr(a) for a in st[2])})"
    if k == "devcall":
        return f"(devcall {sx_expr(st[1])} ({' '.join(sx_expr(a) for a in st[2])}) ({' '.join(st[3])}))"
    if k == "par":
        return f"(par{''.join(' ' + sx_stmt(s) for s in st[1])})"
    if k == "if":
        return f"(if {sx_expr(st[1])} ({' '.join(sx_stmt(s) for s in st[2])}) ({' '.join(sx_stmt(s) for s in st[3])}))"
    if k == "for":
        return (f"(for {st[1]} {sx_expr(st[2])} {sx_expr(st[3])} {sx_expr(st[4])} "
                f"({' '.join(sx_stmt(s) for s in st[5])}))")
    if k == "assert":
        return f"(assert {sx_expr(st[1])})"
    if k == "ret":
        return f"(ret {sx_expr(st[1])})"
    raise ValueError(st)


def sx_fn(fn) -> list[str]:
    out = [f"(fn {fn['name']} {'T' if fn['tweezer'] else 'F'} ({' '.join(n for n, _ in fn['params'])}) "
           f"({' '.join(sx_stmt(s) for s in fn['body'])}))"]
    for inner in fn.get("nested", {}).values():
        out += sx_fn(inner)
    return out


def sx_program(fns) -> str:
    return "(" + " ".join(x for f in fns for x in sx_fn(f)) + ")"


def sx_val(v) -> str:
    """a Python argument value -> Val wire"""
    from bloqade.geometry.dialects.grid import Grid
    if v is None or isinstance(v, (bool, int, Fraction)):
        return sx_lit(v)
    if isinstance(v, float):
        return f"(f {sx(frac(v))})"
    if isinstance(v, slice):
        return sx(("sl", v.start, v.stop, v.step))
    if isinstance(v, Grid):
        return f"(grid {sx(T.zone_wire(v))})"
    if isinstance(v, (list, tuple)) or type(v).__name__ == "IList":
        return "(l" + "".join(" " + sx_val(x) for x in v) + ")"
    raise ValueError(f"cannot send {type(v)}")


def sx_spec_table(spec) -> str:
    rows = []
    for n, z in spec.layout.static_traps.items():
        rows.append(f"(trap {n} (grid {sx(T.zone_wire(z))}))")
    for n, z in spec.layout.special_grid.items():
        rows.append(f"(special {n} (grid {sx(T.zone_wire(z))}))")
    for n, v in spec.int_constants.items():
        rows.append(f"(intC {n} (i {int(v)}))")
    for n, v in spec.float_constants.items():
        rows.append(f"(floatC {n} (f {sx(frac(v))}))")
    return "(" + " ".join(rows) + ")"


def canon_value(v) -> str:
    """canonical text of a value returned by a real kernel (matches Drive/Lang.lean showVal)"""
    from bloqade.geometry.dialects.grid import Grid
    if v is None:
        return "none"
    if isinstance(v, bool):
        return "T" if v else "F"
    if isinstance(v, int):
        return str(v)
    if isinstance(v, float):
        return sx(frac(v))
    if isinstance(v, slice):
        return sx(("sl", v.start, v.stop, v.step))
    if isinstance(v, Grid):
        return T.canon_grid(v)
    if isinstance(v, (list, tuple)) or type(v).__name__ == "IList":
        return "(" + " ".join(canon_value(x) for x in v) + ")"
    n = type(v).__name__
    if n in ("DeviceFunction", "ReverseDeviceFunction"):
        return "<devfn>"
    if n in ("Method", "Lambda") or "closure" in n.lower():
        return "<closure>"
    if n in ("MeasureResult", "MeasurementArray", "MeasureResultRuntime"):
        return "<meas>"
    return f"<{n}>"


# --------------------------------------------------------------------------- tweezer AST -> Lang AST
def tw_int(e):
    k = e[0]
    if k == "ic":
        return ("look", "intC", e[1])
    if k == "i":
        return ("lit", e[1])
    if k == "v":
        return ("var", e[1])
    return ("prim", {"add": "add", "mul": "mul"}[k], [tw_int(e[1]), tw_int(e[2])])


def tw_float(e):
    if e[0] == "fc":
        return ("look", "floatC", e[1])
    if e[0] == "f":
        return ("lit", Fraction(e[1]))
    return ("prim", "mul", [("lit", Fraction(e[2])), tw_int(e[1])])


def tw_idx(ix):
    if ix[0] == "i":
        return ("lit", ix[1])
    return ("lit", ("sl", ix[1], ix[2], ix[3]))


def tw_grid(g):
    k = g[0]
    if k == "gv":
        return ("var", g[1])
    if k == "from":
        return ("prim", "from_positions", [("prim", "list", [("lit", Fraction(q)) for q in g[1]]),
                                           ("prim", "list", [("lit", Fraction(q)) for q in g[2]])])
    if k in ("shift", "scale"):
        return ("prim", k, [tw_grid(g[1]), tw_float(g[2]), tw_float(g[3])])
    if k == "sub":
        return ("prim", "sub_grid", [tw_grid(g[1]), ("prim", "list", [tw_int(i) for i in g[2]]),
                                     ("prim", "list", [tw_int(i) for i in g[3]])])
    if k == "item":
        return ("prim", "getitem2", [tw_grid(g[1]), tw_idx(g[2]), tw_idx(g[3])])
    if k == "trap":
        return ("look", "trap", g[1])
    if k == "special":
        return ("look", "special", g[1])
    if k in ("vac", "fil"):
        # a filled grid is an opaque position for the tracer: its position token (harness/tweezer.py `filled_token`)
        from . import tweezer as _T
        t = _T.ev_grid(("vac", ("from", [0], [0]), g[2]) if k == "vac" else ("fil", ("from", [0], [0]), g[2], g[3]), {}, {})
        return ("prim", "shift", [tw_grid(g[1]), ("lit", t[2]), ("lit", Fraction(0))])
    raise ValueError(g)


def tw_sel(s):
    k = s[0]
    if k == "li":
        return ("prim", "list", [tw_int(i) for i in s[1]])
    if k == "sl":
        return ("lit", ("sl", s[1], s[2], s[3]))
    if k == "ALL":
        return ("lit", ("sl", None, None, None))
    return ("var", s[1])


def tw_cond(c):
    if c[0] == "bv":
        return ("var", c[1])
    return ("prim", c[0], [tw_int(c[1]), tw_int(c[2])])


def tw_body(body):
    out = []
    for st in body:
        k = st[0]
        if k == "set":
            out.append(("eff", "set_loc", [tw_grid(st[1])]))
        elif k == "move":
            out.append(("eff", "move", [tw_grid(st[1])]))
        elif k == "turn":
            out.append(("eff", "turn_on" if st[1] else "turn_off", [tw_sel(st[2]), tw_sel(st[3])]))
        elif k == "if":
            out.append(("if", tw_cond(st[1]), tw_body(st[2]), tw_body(st[3])))
        elif k == "for":
            out.append(("for", st[1], tw_int(st[2]), tw_int(st[3]), ("lit", 1), tw_body(st[4])))
        elif k == "gassign":
            out.append(("assign", st[1], tw_grid(st[2])))
        elif k == "iassign":
            out.append(("assign", st[1], tw_int(st[2])))
        elif k == "call":
            args = []
            for kind, e in st[2]:
                args.append({"int": tw_int, "grid": tw_grid, "sel": tw_sel, "bool": tw_cond}[kind](e))
            out.append(("expr", ("call", st[1], args)))
        elif k == "assert":
            out.append(("assert", tw_cond(st[1])))
        else:
            raise ValueError(st)
    return out


def tw_fn(kern, rename=None):
    return {"name": rename or kern["name"], "tweezer": True, "params": [(n, a) for n, _, a in kern["params"]],
            "body": tw_body(kern["body"]), "nested": {}, "kinds": [k for _, k, _ in kern["params"]]}


# --------------------------------------------------------------------------- move program generator
def default_move_spec():
    from bloqade.geometry.dialects.grid import Grid
    from bloqade.shuttle.arch import ArchSpec, Layout
    A = Grid.from_positions([0.0, 2.0, 10.0], [0.0, 10.0])
    B = Grid.from_positions([20.0, 24.0], [1.0, 3.0])
    S = Grid.from_positions([-5.0, -4.0], [7.5])
    # "B" names a static trap zone AND (a different grid of the same shape) a special grid
    # "traps" is also the name of the one zone of the library's stock `ArchSpec()` (another grid)
    layout = Layout({"A": A, "B": B, "traps": Grid.from_positions([4.0, 6.0], [1.0, 5.0])}, {"A"}, {"A", "B"}, {"A"},
                    special_grid={"S": S, "B": B.shift(0.5, 0.25)})
    # "n2" and "fh" exist in both constant tables, with different values
    return ArchSpec(layout=layout, float_constants={"f0": 0.0, "fh": 0.5, "f3": 3.0, "n2": 2.5},
                    int_constants={"n0": 0, "n1": 1, "n2": 2, "fh": 7})


def second_move_spec():
    """same names and shapes as default_move_spec, other coordinates and constants: anything remembered from a compilation or
    run under the first spec is wrong under this one"""
    from bloqade.geometry.dialects.grid import Grid
    from bloqade.shuttle.arch import ArchSpec, Layout
    A = Grid.from_positions([100.0, 104.0, 110.0], [-50.0, -45.0])
    B = Grid.from_positions([0.0, 1.0], [-1.0, 1.0])
    S = Grid.from_positions([5.0, 9.0], [0.5])
    layout = Layout({"A": A, "B": B, "traps": Grid.from_positions([-14.0, -12.0], [31.0, 35.0])}, {"A"}, {"A", "B"}, {"A"},
                    special_grid={"S": S, "B": B.shift(-0.5, 2.0)})
    return ArchSpec(layout=layout, float_constants={"f0": 1.0, "fh": 1.5, "f3": 5.0, "n2": 0.5},
                    int_constants={"n0": 1, "n1": 2, "n2": 3, "fh": 4})


ZONE_SHAPES = {"A": (3, 2), "B": (2, 2), "S": (2, 1)}
KNOWN = {"trap": ["A", "B"], "special": ["S", "B"], "intC": ["n0", "n1", "n2"], "floatC": ["f0", "fh", "f3"]}


def L(v):
    return ("lit", v)


def P(op, *a):
    return ("prim", op, list(a))


class MoveGen:
    """Seeded random move programs.  `feat` switches features on/off (per property)."""

    def __init__(self, rng, feat=None):
        self.rng = rng
        self.feat = {"lookups": True, "unknown": 0.04, "closures": True, "recursion": True, "subs": True,
                     "early_return": False, "parallel": True, "devcalls": True, "gates": True, "fill": True,
                     "measure": True, "assert": 0.02, "cz_positional": 0.0, "args_dependent": 0.7,
                     "dynamic_call": 0.0, "dead_effect": 0.0, "wrong_kind": 0.0, "alias_subs": 0.0,
                     "devfn_param": 0.0, "loop_return": 0.0, "twin_devs": 0.0,
                     "look_kinds": ("trap", "special", "intC", "floatC"), "kernel_lookup": 0.0,
                     "grid_literals": 0.0, "kernel3": 0.0}
        if feat:
            self.feat.update(feat)
        self.counter = 0
        self.consumed = False

    def fresh(self, p):
        self.counter += 1
        return f"{p}{self.counter}"

    # ---- expressions --------------------------------------------------------------
    def name_for(self, kind):
        # unknown names only where the value is consumed by an effect: a dead lookup is
        # legitimately removed by DCE and then fails on no route
        if self.consumed and self.rng.random() < self.feat["unknown"]:
            return "zz"
        if self.consumed and kind in ("intC", "floatC") and self.rng.random() < self.feat["wrong_kind"]:
            # an id of the other constant table (may or may not exist in this one)
            return self.rng.choice(KNOWN["floatC" if kind == "intC" else "intC"])
        if self.consumed and kind in ("trap", "special") and self.rng.random() < self.feat["wrong_kind"]:
            # a name of the other grid table (it does not exist in this one: the lookup fails on every route)
            return "S" if kind == "trap" else "A"
        return self.rng.choice(KNOWN[kind])

    def int_e(self, env, depth=2, typed=False):
        """typed=True: only sub-expressions kirin's type inference types as int (results of
        subroutine / closure calls are untyped and are rejected where a statement declares int/float)"""
        r = self.rng.random()
        ints = env["int"] + ([] if typed else env["uint"])
        if depth == 0 or r < 0.3:
            return L(self.rng.randrange(0, 4))
        if ints and r < 0.55:
            return ("var", self.rng.choice(ints))
        if r < 0.7:
            return P(self.rng.choice(["add", "sub", "mul"]), self.int_e(env, depth - 1, typed), self.int_e(env, depth - 1, typed))
        if r < 0.76 and not typed:
            # kirin's type inference leaves // and % untyped
            return P(self.rng.choice(["floordiv", "mod"]), self.int_e(env, depth - 1, typed), L(self.rng.randrange(1, 4)))
        if r < 0.86 and self.feat["lookups"] and "intC" in self.feat["look_kinds"]:
            return ("look", "intC", self.name_for("intC"))
        if r < 0.93 and env["grid"]:
            return P("index", P("shape", ("var", self.rng.choice(env["grid"]))), L(self.rng.randrange(0, 2)))
        return L(self.rng.randrange(0, 3))

    def float_e(self, env, depth=1):
        r = self.rng.random()
        if r < 0.35:
            return L(Fraction(self.rng.randrange(-8, 9), self.rng.choice([1, 2, 4])))
        if env["float"] and r < 0.55:
            return ("var", self.rng.choice(env["float"]))
        if r < 0.7 and self.feat["lookups"] and "floatC" in self.feat["look_kinds"]:
            return ("look", "floatC", self.name_for("floatC"))
        if r < 0.85 and depth > 0:
            # kirin's type inference only types float * <int variable or literal> as float
            iv = ("var", self.rng.choice(env["int"])) if env["int"] and self.rng.random() < 0.7 else L(self.rng.randrange(0, 4))
            return P("mul", L(Fraction(self.rng.randrange(1, 5), 2)), iv)
        return L(Fraction(self.rng.randrange(0, 5), 2))

    def bool_e(self, env):
        r = self.rng.random()
        if env["bool"] and r < 0.3:
            return ("var", self.rng.choice(env["bool"]))
        c = P(self.rng.choice(["lt", "le", "eq", "ne", "gt"]), self.int_e(env, 1), self.int_e(env, 1))
        if r < 0.85:
            return c
        return P(self.rng.choice(["and", "or"]), c, P("not", self.bool_e(env)) if r < 0.92 else self.bool_e(env))

    def grid_e(self, env, depth=1):
        r = self.rng.random()
        if self.rng.random() < self.feat["grid_literals"]:
            # a grid that does not come from the spec
            xs = sorted(self.rng.sample(range(-4, 12), self.rng.randrange(1, 3)))
            ys = sorted(self.rng.sample(range(-4, 12), self.rng.randrange(1, 3)))
            return P("from_positions", P("list", *[L(Fraction(x)) for x in xs]), P("list", *[L(Fraction(y, 2)) for y in ys]))
        if env["grid"] and r < 0.45:
            return ("var", self.rng.choice(env["grid"]))
        if self.feat["lookups"] and r < 0.85 or not env["grid"]:
            k = "special" if self.rng.random() < 0.25 else "trap"
            if k not in self.feat["look_kinds"]:
                k = "special" if k == "trap" else "trap"
            return ("look", k, self.name_for(k))
        g = ("var", self.rng.choice(env["grid"]))
        if r < 0.93:
            return P("shift", g, self.float_e(env, 0), self.float_e(env, 0))
        return P("scale", g, L(Fraction(self.rng.choice([1, 2, 3]), 2)), L(Fraction(1)))

    # ---- statements ----------------------------------------------------------------
    def gate(self, env):
        self.consumed = True
        try:
            return self._gate(env)
        finally:
            self.consumed = False

    def _gate(self, env):
        r = self.rng.random()
        if r < 0.25:
            return ("eff", "global_r", [self.float_e(env), self.float_e(env)])
        if r < 0.45:
            return ("eff", "global_rz", [self.float_e(env)])
        if r < 0.65:
            return ("eff", "local_r", [self.float_e(env), self.float_e(env), self.grid_e(env)])
        if r < 0.8:
            return ("eff", "local_rz", [self.float_e(env), self.grid_e(env)])
        st = ("eff", "top_hat_cz", [self.grid_e(env), L(Fraction(self.rng.choice([3, 2, 5, 0]))), L(Fraction(self.rng.choice([3, 1, 4, 0])))])
        if self.rng.random() < self.feat["cz_positional"]:
            st = st + ("positional",)
        return st

    def devcall(self, env):
        f = ("var", self.rng.choice(env["dev"]))
        kern = env["devkern"][f[1]]
        # kernel signature (g, n): grid + int
        args = [self.grid_e(env), self.int_e(env, 1, typed=True)]
        kw = []
        r = self.rng.random()
        if r < 0.3:
            kw = ["n"]
        elif r < 0.45:
            kw = ["g", "n"]
        elif r < 0.55:
            kw = ["n", "g"]
            args = [args[1], args[0]]
        return ("devcall", f, args, kw)

    def stmt(self, env, depth, in_fn):
        r = self.rng.random()
        f = self.feat
        if r < 0.10:
            x = self.fresh("i")
            st = ("assign", x, self.int_e(env))
            env["int"].append(x)
            return [st]
        if r < 0.16:
            x = self.fresh("q")
            st = ("assign", x, self.float_e(env))
            env["float"].append(x)
            return [st]
        if r < 0.26:
            x = self.fresh("z")
            st = ("assign", x, self.grid_e(env))
            env["grid"].append(x)
            return [st]
        if r < 0.40 and f["gates"]:
            return [self.gate(env)]
        if r < 0.46 and f["fill"]:
            return [("eff", "fill", [P("list", *[self.grid_e(env) for _ in range(self.rng.randrange(1, 3))])])]
        if r < 0.50 and f["measure"]:
            return [("eff", "measure", [P("list", *[self.grid_e(env) for _ in range(self.rng.randrange(1, 3))])])]
        if r < 0.60 and f["devcalls"] and env["dev"]:
            return [self.devcall(env)]
        if r < 0.65 and f["parallel"] and env["dev"]:
            members = [self.devcall(env) for _ in range(self.rng.randrange(1, 4))]
            if self.rng.random() < 0.35:
                # the very same call twice in one group (identical callee, operands and keyword spelling)
                members.insert(self.rng.randrange(0, len(members) + 1), members[self.rng.randrange(len(members))])
            if self.rng.random() < 0.25:
                # the same group played twice in one block, a gate in between
                return [("par", members), ("eff", "global_rz", [L(Fraction(self.rng.randrange(1, 5), 2))]), ("par", members)]
            return [("par", members)]
        if r < 0.75 and depth > 0:
            c = self.bool_e(env)
            t = self.block(self.sub_env(env), depth - 1, in_fn, self.rng.randrange(1, 4))
            e = self.block(self.sub_env(env), depth - 1, in_fn, self.rng.randrange(0, 3))
            return [("if", c, t, e)]
        if r < 0.84 and depth > 0:
            v = self.fresh("k")
            acc = self.fresh("c")
            inner = self.sub_env(env)
            inner["int"] += [v, acc]
            body = [("assign", acc, P("add", ("var", acc), L(1)))] + self.block(inner, depth - 1, in_fn, self.rng.randrange(1, 3))
            env["int"].append(acc)
            stop = self.int_e(env, 1, typed=True) if self.rng.random() < 0.5 else L(self.rng.randrange(0, 4))
            return [("assign", acc, L(0)), ("for", v, L(self.rng.randrange(0, 2)), stop, L(self.rng.choice([1, 1, 2])), body)]
        if r < 0.92 and f["subs"] and env["subs"]:
            s = self.rng.choice(env["subs"])
            call = ("call", s["name"], [self.int_e(env, 1, typed=True) if k == "int" else self.grid_e(env) for k in s["kinds"]])
            if s["returns"] == "int":
                x = self.fresh("r")
                env["uint"].append(x)
                return [("assign", x, call)]
            return [("expr", call)]
        if 0.92 <= r < 0.92 + f["assert"]:
            return [("assert", self.bool_e(env))]
        return [self.gate(env)] if f["gates"] else [("assign", self.fresh("u"), L(0))]

    def sub_env(self, env):
        return {k: (list(v) if isinstance(v, list) else v) for k, v in env.items()}

    def block(self, env, depth, in_fn, n):
        out = []
        for _ in range(n):
            out += self.stmt(env, depth, in_fn)
        return out

    # ---- functions ------------------------------------------------------------------
    def tweezer_kernel(self, name):
        dx = Fraction(self.rng.randrange(1, 6), 2)
        body = [("eff", "set_loc", [("var", "g")])]
        pick = self.rng.random() < 0.8
        if pick:
            body.append(("eff", "turn_on", [L(("sl", None, None, None)), L(("sl", None, None, None))]))
        body.append(("eff", "move", [P("shift", ("var", "g"), P("mul", L(dx), ("var", "n")), L(Fraction(self.rng.randrange(0, 3), 2)))]))
        if self.rng.random() < self.feat["kernel_lookup"]:
            # the traced kernel reads the spec itself (as the Gemini kernels do)
            body.append(("eff", "move", [P("shift", ("var", "g"), ("look", "floatC", self.rng.choice(["f3", "fh"])), L(Fraction(1, 2)))]))
        if self.rng.random() < 0.5:
            body.append(("for", "i", L(0), ("var", "n"), L(1),
                         [("eff", "move", [P("shift", ("var", "g"), P("mul", L(Fraction(1, 2)), ("var", "i")), L(Fraction(1)))])]))
        if pick:
            body.append(("eff", "turn_off", [L(("sl", None, None, None)), L(("sl", None, None, None))]))
        return {"name": name, "tweezer": True, "params": [("g", "grid.Grid[Any, Any]"), ("n", "int")], "body": body,
                "nested": {}, "kinds": ["grid", "int"]}

    def new_env(self):
        return {"int": [], "uint": [], "float": [], "bool": [], "grid": [], "dev": [], "devkern": {}, "subs": []}

    def with_devs(self, env, kernels):
        pre = []
        for k in kernels:
            if self.rng.random() < 0.8:
                d = self.fresh("d")
                xt = list(range(self.rng.randrange(1, 4)))
                yt = list(range(self.rng.randrange(1, 3)))
                e = P("device_fn", L(k["name"]), P("list", *[L(i) for i in xt]), P("list", *[L(i) for i in yt]))
                if self.rng.random() < 0.3:
                    e = P("reverse", e)
                pre.append(("assign", d, e))
                env["dev"].append(d)
                env["devkern"][d] = k["name"]
                if self.rng.random() < self.feat["twin_devs"]:
                    # a second device function over the same kernel with other tone lists, and one call of
                    # each with identical constant operands
                    d2 = self.fresh("d")
                    xt2 = [i + 1 for i in xt] + [0]
                    pre.append(("assign", d2, P("device_fn", L(k["name"]), P("list", *[L(i) for i in xt2]), P("list", *[L(i) for i in yt]))))
                    env["dev"].append(d2)
                    env["devkern"][d2] = k["name"]
                    z = ("look", "trap", self.rng.choice(KNOWN["trap"]))
                    n = L(self.rng.randrange(0, 3))
                    pre += [("devcall", ("var", d), [z, n], []), ("devcall", ("var", d2), [z, n], [])]
        return pre

    def subroutine(self, name, kernels, subs, recursive=False):
        env = self.new_env()
        env["subs"] = list(subs)
        params, kinds = [], []
        for i in range(self.rng.randrange(1, 3)):
            if self.rng.random() < 0.6:
                params.append((f"a{i}", "int"))
                kinds.append("int")
                env["int"].append(f"a{i}")
            else:
                params.append((f"a{i}", "grid.Grid[Any, Any]"))
                kinds.append("grid")
                env["grid"].append(f"a{i}")
        body = self.with_devs(env, kernels) if self.feat["devcalls"] else []
        returns = self.rng.choice(["int", None])
        if recursive:
            # rec(n, ...): do something, recurse on n-1 while n > 0
            if "int" not in kinds:
                params.insert(0, ("a9", "int"))
                kinds.insert(0, "int")
                env["int"].append("a9")
            nvar = params[kinds.index("int")][0]
            inner = self.block(self.sub_env(env), 1, True, self.rng.randrange(1, 3))
            rec_args = [P("sub", ("var", nvar), L(1)) if p[0] == nvar else ("var", p[0]) for p in params]
            body += [("if", P("le", ("var", nvar), L(0)), [("ret", L(0))], []),
                     *inner,
                     ("assign", "rr", ("call", name, rec_args)),
                     ("ret", P("add", ("var", "rr"), L(1)))]
            returns = "int"
        else:
            body += self.block(env, 2, True, self.rng.randrange(1, 5))
            if self.feat["early_return"] and self.rng.random() < 0.5:
                rv = self.int_e(env, 1) if returns == "int" else L(None)
                body.insert(self.rng.randrange(0, len(body) + 1),
                            ("if", self.bool_e(env), self.block(self.sub_env(env), 0, True, 1) + [("ret", rv)], []))
            if returns == "int":
                body.append(("ret", self.int_e(env, 1)))
        return {"name": name, "tweezer": False, "params": params, "body": body, "nested": {}, "kinds": kinds, "returns": returns,
                "factory": (not recursive) and self.rng.random() < self.feat["alias_subs"]}

    def program(self, shared_subs=None, name="main", counter0=0):
        """-> (top-level fns in definition order (entry point last), argument tuples for the entry point).
        shared_subs: already defined subroutines the entry point may call (then none are generated)"""
        self.counter = counter0
        kernels = [self.tweezer_kernel(f"tk{i}") for i in range(self.rng.randrange(1, 3))] if self.feat["devcalls"] else []
        subs = []
        if shared_subs is not None:
            subs = list(shared_subs)
        elif self.feat["subs"]:
            for i in range(self.rng.randrange(0, 3)):
                rec = self.feat["recursion"] and self.rng.random() < 0.3
                subs.append(self.subroutine(f"sub{i}", kernels, subs, recursive=rec))
        env = self.new_env()
        env["subs"] = subs
        params = [("n", "int"), ("m", "int"), ("b", "bool")]
        env["int"] += ["n", "m"]
        env["bool"].append("b")
        body = self.with_devs(env, kernels) if self.feat["devcalls"] else []
        nested = {}
        body += self.block(env, 2, False, self.rng.randrange(2, 7))
        if self.feat["devcalls"] and self.rng.random() < self.feat["kernel3"]:
            # a traced kernel with two parameters of one type, called with constant operands and every keyword order
            k3 = {"name": "tk9", "tweezer": True, "params": [("g", "grid.Grid[Any, Any]"), ("n", "int"), ("k", "int")],
                  "body": [("eff", "set_loc", [("var", "g")]),
                           ("eff", "turn_on", [L(("sl", None, None, None)), L(("sl", None, None, None))]),
                           ("eff", "move", [P("shift", ("var", "g"), P("mul", L(Fraction(3, 2)), ("var", "n")),
                                              P("mul", L(Fraction(1, 2)), ("var", "k")))]),
                           ("eff", "turn_off", [L(("sl", None, None, None)), L(("sl", None, None, None))])],
                  "nested": {}, "kinds": ["grid", "int", "int"]}
            kernels = kernels + [k3]
            e = P("device_fn", L("tk9"), P("list", L(0), L(1)), P("list", L(0)))
            if self.rng.random() < 0.3:
                e = P("reverse", e)
            calls = []
            for _ in range(self.rng.randrange(1, 3)):
                z = ("look", "trap", self.rng.choice(KNOWN["trap"]))
                nv, kv = L(self.rng.randrange(0, 3)), L(self.rng.randrange(3, 6))
                shape = self.rng.choice([([z, nv, kv], []), ([z, nv, kv], ["k"]), ([z, nv, kv], ["n", "k"]),
                                         ([z, kv, nv], ["k", "n"]), ([kv, z, nv], ["k", "g", "n"]), ([nv, kv, z], ["n", "k", "g"])])
                calls.append(("devcall", ("var", "d9"), shape[0], shape[1]))
            pos = self.rng.randrange(0, len(body) + 1)
            body[pos:pos] = calls
            body.insert(0, ("assign", "d9", e))
        if self.feat["closures"] and self.rng.random() < 0.5:
            # a closure capturing what is in scope now; called directly (and maybe twice)
            cname = self.fresh("inner")
            cenv = self.sub_env(env)
            cenv["int"].append("k")
            cbody = self.block(cenv, 1, True, self.rng.randrange(1, 4)) + [("ret", self.int_e(cenv, 1))]
            nested[cname] = {"name": cname, "tweezer": False, "params": [("k", "int")], "body": cbody, "nested": {}}
            body.append(("assign", cname, ("lam", cname)))
            x = self.fresh("r")
            body.append(("assign", x, ("callv", ("var", cname), [self.int_e(env, 1, typed=True)])))
            env["uint"].append(x)
            if self.rng.random() < 0.4:
                body += self.block(env, 1, False, 1)
                body.append(("expr", ("callv", ("var", cname), [L(self.rng.randrange(0, 3))])))
        force_ret = None
        if env["dev"] and self.rng.random() < self.feat["devfn_param"]:
            # the same call site executed several times with equal operands but different device functions
            z = self.grid_e(env)
            k = L(self.rng.randrange(0, 3))
            ds = [("var", d) for d in env["dev"]]
            ds.append(P("reverse", ds[0]))
            self.rng.shuffle(ds)
            if self.rng.random() < 0.5:
                self.need_call_dev = True
                zv = self.fresh("z")
                body.append(("assign", zv, z))
                for d in ds[:3]:
                    body.append(("expr", ("call", "call_dev", [d, ("var", zv), k])))
            else:
                fv, cv, kv = self.fresh("f"), self.fresh("c"), self.fresh("k")
                zv = self.fresh("z")
                body += [("assign", zv, z), ("assign", fv, ds[0]), ("assign", cv, L(0)),
                         ("for", kv, L(0), P("add", ("var", "n"), L(1)), L(1),
                          [("assign", cv, P("add", ("var", cv), L(1))), ("devcall", ("var", fv), [("var", zv), k], []),
                           ("assign", fv, P("reverse", ("var", fv)))])]
        if self.rng.random() < self.feat["loop_return"]:
            # a loop whose body returns on every path; what follows runs only for zero iterations
            kv, cv = self.fresh("k"), self.fresh("c")
            body += [("assign", cv, L(0)),
                     ("for", kv, L(0), ("var", self.rng.choice(["n", "m"])), L(1),
                      [("assign", cv, P("add", ("var", cv), L(1))), ("ret", ("var", kv))])]
            if self.feat["gates"]:
                body.append(self.gate(env))
        if self.rng.random() < self.feat["dead_effect"] and self.feat["gates"]:
            # a device-visible statement no execution over the argument domain reaches
            body.append(("if", P("gt", ("var", "n"), L(10 + self.rng.randrange(5))), [self.gate(env)], []))
        if self.rng.random() < self.feat["dynamic_call"]:
            # a closure handed to a subroutine that calls it: no constant hint at that call
            cname = self.fresh("inner")
            cenv = self.sub_env(env)
            cenv["int"].append("k")
            nested[cname] = {"name": cname, "tweezer": False, "params": [("k", "int")],
                             "body": self.block(cenv, 0, True, self.rng.randrange(1, 3)) + [("ret", P("add", ("var", "k"), L(1)))],
                             "nested": {}}
            body.append(("assign", cname, ("lam", cname)))
            # the result is returned, so that the (possibly pure) call cannot be removed as dead code
            rv = self.fresh("r")
            # (argument-dependent, so that it cannot be constant-folded either)
            body.append(("assign", rv, ("call", "apply_fn", [("var", cname), ("var", self.rng.choice(["n", "m"]))])))
            self.need_apply = True
            force_ret = rv
        body += self.block(env, 1, False, self.rng.randrange(0, 3))
        r = self.rng.random()
        if force_ret is not None:
            body.append(("ret", P("add", self.int_e(env, 1), ("var", force_ret))))
        elif r < 0.4:
            body.append(("ret", self.int_e(env, 1)))
        elif r < 0.6 and env["grid"]:
            body.append(("ret", ("var", self.rng.choice(env["grid"]))))
        elif r < 0.75:
            body.append(("ret", P("list", self.int_e(env, 1), self.float_e(env, 0))))
        main = {"name": name, "tweezer": False, "params": params, "body": body, "nested": nested, "kinds": ["int", "int", "bool"]}
        args = [(self.rng.randrange(0, 4), self.rng.randrange(0, 3), self.rng.random() < 0.5) for _ in range(3)]
        extra = []
        if getattr(self, "need_apply", False):
            self.need_apply = False
            extra = [{"name": "apply_fn", "tweezer": False, "params": [("f", None), ("k", "int")],
                      "body": [("ret", ("callv", ("var", "f"), [("var", "k")]))], "nested": {}, "kinds": ["clos", "int"],
                      "returns": "int"}]
        if getattr(self, "need_call_dev", False):
            self.need_call_dev = False
            extra.append({"name": "call_dev", "tweezer": False,
                          "params": [("f", "schedule.DeviceFunction"), ("z", "grid.Grid[Any, Any]"), ("k", "int")],
                          "body": [("devcall", ("var", "f"), [("var", "z"), ("var", "k")], [])], "nested": {},
                          "kinds": ["dev", "grid", "int"], "returns": None})
        if shared_subs is not None:
            subs = []
        return kernels + subs + extra + [main], args
